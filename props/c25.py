"""C25 - Channel.sendall / sendall_stderr deliver everything or raise; never loop forever.

Engine: vlib.sched + vlib.chanbench (real Channel on a fake transport, cooperative primitives,
virtual clock for ``settimeout`` waits).

Case: initial send window, max packet, channel timeout (None / 0.0 / 0.5), a sequential
*history* (peer WINDOW_ADJUST, shutdown_write, shutdown(2), close, peer EOF, peer CLOSE,
transport loss), then concurrently: one "transport" task (peer WINDOW_ADJUST / EOF / CLOSE /
loss - all peer input runs on one thread in paramiko) and 1-2 application tasks calling
sendall / sendall_stderr (0..300 KiB, position-dependent payload) mixed with shutdown_write,
shutdown(2), close and sleeps.  Schedule = generated preemption list; switch points = lock /
condition operations, the fake transport's send point and (optionally) every source line of the
send/close paths in channel.py.

Oracle, per sendall call:
  * returned None  -> the messages this task handed to the transport during the call
    (CHANNEL_DATA, or EXTENDED_DATA type 1) concatenate to exactly the argument;
  * raised         -> socket.error (incl. socket.timeout) or SSHException; what was handed
    before is a prefix of the argument;
  * terminates: a per-instance wrapper around ``chan.send``/``send_stderr`` counts consecutive
    zero-byte returns; after 20 it first lets every other task run until none can act any
    more (fairness; from then on the state is frozen and every iteration repeats the previous one), after 120 it aborts the call: "loops forever".  The scheduler's step
    budget is the second guard;
  * timed mode, under the virtual clock: the peer's task lets (virtual) time pass between its messages, so WINDOW_ADJUSTs of 0 bytes
    / of a few bytes that a competing sender takes first reach a parked timed sender at generated times ("timed" family: window
    0/1/5, timeout 0.5/1, 1-2 senders with more data than window, 1-5 x (sleep 0.1..0.6, adjust 0|1|5), then anything).  Within one
    send() call the waits on the window condition (Condition.wait entry -> return with the lock re-acquired) are summed up; a NEW wait
    that begins although the earlier ones already add up to the channel timeout = the call waits beyond its own budget instead of
    raising socket.timeout.  (Each span lies inside the span the code measures itself, so correct code can never trip this.)
  * a call still parked when nothing can run any more (deadlock) is acceptable only while
    the channel is open for writing with a zero window and no timeout (it is waiting for
    the peer); parked although the channel is closed / EOF was sent = never woken.
    "Zero window" is judged from the PEER's side of the flow control (RFC 4254 5.2), not from the channel's
    own counter: initial window + every WINDOW_ADJUST dispatched to the channel - every DATA/EXTENDED_DATA
    byte handed to the transport.  Parked for good, open for writing, no timeout, and that number > 0 =
    "blocked-forever|peer-granted-window-unused" (the grants were not credited).

Round 3 dimensions:
  * argument kind of sendall/sendall_stderr: bytes, bytearray, memoryview, ASCII str, str with 1-4-byte
    characters (size = characters; expected wire bytes = UTF-8 of the whole argument).  Text that goes out in
    several chunks (larger than window or max packet - 64) is the interesting class.
  * shutdown_read (local half-close of the READ side) in histories and application tasks, next to peer EOF:
    neither stops the write side.
  * "flow" family - a granting peer: the peer task ends with ("serve",) = consume whatever reached the wire and
    re-grant it as WINDOW_ADJUST until the application tasks are done; sendalls of 1..8 windows (window
    {1,5,100,5000,40000}), histories/peer prefixes weighted towards read-side half-closes.  With the oracle
    clause above: several flow-control round trips per sendall, incl. on a half-closed channel.

Round 4 dimensions:
  * peer-advertised maximum packet size over the whole uint32 range: the usual 4096 / 32768 plus 0, 1, 32, 63, 64, 65, 4095 (RFC 4254
    sets no minimum; paramiko never advertises less than 4096 itself, a peer may) and 2^32-1 - in every family.
  * "herd" family: 2-3 senders (sendall / sendall_stderr of 1..5000 bytes) parked on an exhausted window (0, 1, 5) at the same
    moment - the peer lets virtual time pass first - then ONE WINDOW_ADJUST (1 .. 2^20: from less than the first waiter wants to
    enough for everybody), at most one further peer event.  Judged by the clauses above: a call parked for good although the peer's
    books show window left = blocked forever.
  * "no progress" in the termination clause = send() returned a count that is not a positive number (0, or a negative one) for a
    non-empty argument.
  * raised-without-cause: the statement names the reasons for raising (closed, shut down for writing, timed out; a lost transport
    closes the channel).  A sendall that raises socket.error / SSHException although - even after the call - the channel is not
    closed, EOF was not sent, the transport is up and it was not a timeout under a set channel timeout neither delivered nor had a
    reason (the three conditions are one-way, so judging them after the call can only excuse more).
"""
import socket

from hypothesis import strategies as st

from vlib import chanbench as CB
from vlib import sched as S
from vlib.core import HarnessError

PROPERTY = "C25"
LEVEL = "exploration"
THOROUGH_WORKERS = 16
RULE = (
    "window in {0,1,5,100,5000,2^21} x max packet {4096,32768} x timeout {None,0,0.5} x sequential history (<=3 of peer "
    "WINDOW_ADJUST / shutdown_write / shutdown(2) / close / peer EOF / peer CLOSE / transport loss) x [transport task (<=3 peer "
    "events) || 1-2 application tasks (1-3 of sendall/sendall_stderr with 0..300 KiB, shutdown_write, shutdown(2), close, sleep)] "
    "on a real Channel over a fake transport under the deterministic scheduler (generated preemption list, lock-level and "
    "optionally line-level switch points in channel.py); non-trivial = a sendall of >=1 byte ran after or overlapping a "
    "half-close / close / peer close / peer EOF / loss event, or a timed sender was woken without getting window; distinct by SHA-1 of the case. "
    "Peer tasks may sleep (virtual time) between messages; 'timed' family: window {0,1,5} x timeout {0.5,1} x 1-2 senders (sendall/sendall_stderr of "
    "100..40000 bytes) || peer: 1-5 x (sleep 0.1..0.6, WINDOW_ADJUST 0|1|5) + <=2 further events; oracle adds: the window waits of one send() call never "
    "restart once they add up to the timeout. "
    "Round 3: argument kind in {bytes, bytearray, memoryview, ASCII str, str with 1-4-byte characters} (oracle: the wire carries the UTF-8 encoding of the "
    "whole argument); shutdown_read among the local events; 'flow' family: window {1,5,100,5000,40000} x timeout {None,0,0.5} x history (<=2, weighted to peer EOF / "
    "shutdown_read) x [peer: <=2 events then a SERVING receiver that re-grants every byte that reached the wire until the senders are done || 1-2 senders with "
    "sendalls of 1..8 windows]; a parked call counts as legitimately waiting only if the window granted by the peer (initial + delivered WINDOW_ADJUSTs - bytes "
    "handed over) is used up. Evidence classes: arg-<kind>[-in-several-chunks], non-ascii-text-in-several-chunks, granting-peer[-several-round-trips], "
    "sendall-after-read-side-half-close[-spanning-several-grants], flow-family. "
    "Round 4: peer max packet in {4096, 32768, 0, 1, 32, 63, 64, 65, 4095, 2^32-1} in every family (classes peer-max-packet:below-64|64|65..4095|usual|2^32-1); "
    "'herd' family: window {0,1,5} x timeout {None,0.5} x 2-3 senders (sendall/sendall_stderr of 1..5000 bytes) all parked on the window || peer: sleep, ONE "
    "WINDOW_ADJUST of 1..2^20, <=1 further event (class grant-arrives-with-several-senders-parked = non-trivial); no progress = send() returned a non-positive "
    "count; oracle adds raised-without-cause: raised although afterwards the channel is neither closed nor EOF-sent, the transport is up and it was no timeout"
)

SIZES = [0, 1, 5, 100, 4032, 5000, 40000]
WINDOWS = [0, 1, 5, 100, 5000, 2 ** 21]
ADJUSTS = [0, 1, 5, 100, 5000, 2 ** 20]

# maximum packet size the PEER advertised for the channel: any uint32 (RFC 4254 5.1 sets no minimum; paramiko itself never
# advertises less than 4096, other peers may) - the usual values, the two ends of the range and the neighbourhood of the 64
# bytes of headroom the sender subtracts
MAXPKTS = [4096, 4096, 32768, 32768, 32768, 32768, 32768, 0, 1, 32, 63, 64, 65, 4095, 2 ** 32 - 1]
maxpkt_st = st.sampled_from(MAXPKTS)

size_st = st.one_of(st.integers(0, 300), st.sampled_from(SIZES), st.sampled_from(SIZES), st.just(300 * 1024))
# argument kinds of sendall/sendall_stderr: what the API is observed to accept (bytes-like objects, and text - the repo's own
# test_channel_send_misc sends a str with a non-ASCII character through sendall; Message.add_string encodes it as UTF-8).
# An op without a kind (older replays) means "bytes".  For text the size is in CHARACTERS; the oracle compares the wire with
# the UTF-8 encoding of the whole argument.
KINDS = ["bytes", "bytearray", "memoryview", "ascii", "text"]
kind_st = st.sampled_from(["bytes", "bytes", "bytes", "bytearray", "memoryview", "ascii", "text", "text"])
_ALPHA = "a\u00a7\u20acz\U0001f600b\u00e9\u4e2d\u0416q~\u00ff"  # 1-, 2-, 3- and 4-byte characters
_TEXT = "".join(_ALPHA[(i * i + i // 7) % len(_ALPHA)] for i in range(257))

peer_op = st.one_of(
    st.tuples(st.just("adjust"), st.sampled_from(ADJUSTS)),
    st.tuples(st.just("adjust"), st.sampled_from(ADJUSTS)),
    st.tuples(st.just("peer_eof")),
    st.tuples(st.just("peer_close")),
    st.tuples(st.just("loss"), st.booleans()),
)
local_event = st.one_of(
    st.tuples(st.just("shutdown_write")),
    st.tuples(st.just("shutdown2")),
    st.tuples(st.just("close")),
    st.tuples(st.just("shutdown_read")),  # half-close of the READ side only: sending must go on working
)
app_op = st.one_of(
    st.tuples(st.just("sendall"), size_st, kind_st),
    st.tuples(st.just("sendall"), size_st, kind_st),
    st.tuples(st.just("sendall_stderr"), size_st, kind_st),
    local_event,
    st.tuples(st.just("sleep"), st.sampled_from([0.25, 1.0])),
)

# passage of (virtual) time between the peer's messages: WINDOW_ADJUSTs (of 0 bytes, or small ones a competing sender takes) reach
# a parked timed sender at generated times
peer_sleep = st.tuples(st.just("sleep"), st.sampled_from([0.1, 0.2, 0.25, 0.3, 0.45, 0.6]))
# a timed sender with more to send than the window holds || the peer: (time passes, a WINDOW_ADJUST of 0 bytes or of a few bytes -
# which a competing sender may take first) repeated 1-5 times, then anything
_big = st.sampled_from([100, 4032, 5000, 40000])
_timed_sender = st.tuples(st.tuples(st.sampled_from(["sendall", "sendall", "sendall_stderr"]), _big, kind_st), st.lists(app_op, max_size=1)).map(lambda t: [t[0]] + list(t[1]))
_drip = st.tuples(peer_sleep, st.tuples(st.just("adjust"), st.sampled_from([0, 0, 0, 1, 5])))
timed_case_st = st.fixed_dictionaries(
    {
        "win": st.sampled_from([0, 0, 1, 5]),
        "maxpkt": maxpkt_st,
        "timeout": st.sampled_from([0.5, 0.5, 1.0]),
        "history": st.lists(st.tuples(st.just("adjust"), st.sampled_from([0, 1, 5])), max_size=1),
        "peer": st.tuples(st.lists(_drip, min_size=1, max_size=5), st.lists(st.one_of(peer_op, peer_sleep), max_size=2)).map(lambda t: [op for pair in t[0] for op in pair] + list(t[1])),
        "apps": st.lists(_timed_sender, min_size=1, max_size=2),
        "sched": S.schedule_strategy(max_pre=4, max_gap=60, max_forced=12),
        "trace": st.booleans(),
    }
)

# "herd" family: SEVERAL senders parked on the exhausted window at the same moment, then ONE grant.  The peer lets (virtual) time
# pass first, so that every sender has used up the window and is waiting; its single WINDOW_ADJUST ranges from "less than the first
# waiter wants" to "covers everybody"; at most one further peer event.  Every parked call has to end: by delivering (the grant
# reaches it), by waiting on legitimately (the others used the grant up), or by raising.
_herd_size = st.sampled_from([1, 5, 10, 100, 4032, 5000])
_herd_sender = st.tuples(st.tuples(st.sampled_from(["sendall", "sendall", "sendall_stderr"]), _herd_size, kind_st), st.lists(app_op, max_size=1)).map(lambda t: [t[0]] + list(t[1]))
herd_case_st = st.fixed_dictionaries(
    {
        "win": st.sampled_from([0, 0, 1, 5]),
        "maxpkt": maxpkt_st,
        "timeout": st.sampled_from([None, None, None, 0.5]),
        "history": st.lists(st.tuples(st.just("adjust"), st.sampled_from([0, 1, 5])), max_size=1),
        "peer": st.tuples(peer_sleep, st.tuples(st.just("adjust"), st.sampled_from([1, 5, 20, 100, 5000, 2 ** 20, 2 ** 20])), st.lists(st.one_of(peer_op, peer_sleep), max_size=1)).map(lambda t: [t[0], t[1]] + list(t[2])),
        "apps": st.lists(_herd_sender, min_size=2, max_size=3),
        "sched": S.schedule_strategy(max_pre=3, max_gap=60, max_forced=6),
        "trace": st.booleans(),
    }
)

case_st = st.fixed_dictionaries(
    {
        "win": st.sampled_from(WINDOWS),
        "maxpkt": maxpkt_st,
        "timeout": st.sampled_from([None, None, 0.0, 0.5]),
        "history": st.lists(st.one_of(peer_op, local_event), max_size=3),
        "peer": st.lists(st.one_of(peer_op, peer_op.map(lambda v: v), peer_op.map(lambda v: (v)), peer_sleep), max_size=3),
        "apps": st.lists(st.lists(app_op, min_size=1, max_size=3), min_size=1, max_size=2),
        "sched": S.schedule_strategy(max_pre=4, max_gap=60, max_forced=12),
        "trace": st.booleans(),
    }
)

# "flow" family: a RESPONSIVE peer.  ("serve",) = the receiving end of the channel as a task: whenever DATA / EXTENDED_DATA bytes
# have reached the wire it consumes them and hands the same amount back as one WINDOW_ADJUST, until every application task is
# done (RFC 4254 5.2: the receiver re-opens the window as it consumes).  With such a peer a sendall several windows long
# completes on an open channel - also after the READ side was half-closed (peer EOF, shutdown_read) - or raises because of a
# close / shutdown_write / loss / timeout; the sizes are multiples of the window so that the number of round trips stays small.
FLOW_WINS = [1, 5, 100, 5000, 40000]


def _flow_case(win):
    fsize = st.tuples(st.integers(1, 7), st.integers(0, win)).map(lambda t: min(t[0] * win + t[1], 300 * 1024))
    fsend = st.tuples(st.sampled_from(["sendall", "sendall", "sendall_stderr"]), fsize, kind_st)
    # every sendall of this family is window-proportional (<= 8 round trips): a serving peer would otherwise turn a 300 KiB
    # sendall through a 1-byte window into more scheduler steps than the step budget allows
    fother = st.one_of(local_event, st.tuples(st.just("sleep"), st.sampled_from([0.25, 1.0])))
    fapp = st.tuples(fsend, st.lists(st.one_of(fsend, fsend.map(lambda v: v), fother), max_size=1)).map(lambda t: [t[0]] + list(t[1]))
    half_close = st.one_of(st.tuples(st.just("peer_eof")), st.tuples(st.just("shutdown_read")))
    hist_op = st.one_of(half_close, half_close.map(lambda v: v), st.tuples(st.just("adjust"), st.sampled_from([0, 1, 5, 100])), peer_op, local_event)
    return st.fixed_dictionaries(
        {
            "win": st.just(win),
            "maxpkt": maxpkt_st,
            "timeout": st.sampled_from([None, None, None, 0.0, 0.5]),
            "history": st.lists(hist_op, max_size=2),
            "peer": st.lists(st.one_of(half_close, peer_op, peer_sleep), max_size=2).map(lambda l: list(l) + [("serve",)]),
            "apps": st.lists(fapp, min_size=1, max_size=2),
            "sched": S.schedule_strategy(max_pre=4, max_gap=60, max_forced=12),
            "trace": st.booleans(),
        }
    )


flow_case_st = st.sampled_from(FLOW_WINS).flatmap(_flow_case)

TRACED = {
    "sendall", "sendall_stderr", "send", "send_stderr", "_send", "_wait_for_send_window", "shutdown", "shutdown_write", "close",
    "_close_internal", "_send_eof", "_handle_close", "_handle_eof", "_set_closed", "_window_adjust", "_unlink",
}
EVENTS = ("shutdown_write", "shutdown2", "close", "peer_eof", "peer_close", "loss", "shutdown_read")
READ_HALF_CLOSE = ("peer_eof", "shutdown_read")
DATA_TYPES = ("DATA", "EXTENDED_DATA")
SPIN_FAIR = 20
SPIN_LIMIT = 120


class SpinAbort(S.HarnessAbort):
    pass


def payload(n, salt):
    return bytes(((i * 7 + salt * 13 + 3) % 251) for i in range(n)) if n < 4096 else (bytes(range(251)) * (n // 251 + 1))[salt % 251: salt % 251 + n]


def make_arg(n, salt, kind):
    """-> (the object passed to sendall, the bytes that have to reach the wire).  Text: n characters, position dependent."""
    if kind in ("bytes", "bytearray", "memoryview"):
        raw = payload(n, salt)
        return {"bytes": bytes, "bytearray": bytearray, "memoryview": memoryview}[kind](raw), raw
    if kind == "ascii":
        t = "".join(chr(32 + c % 95) for c in payload(n, salt))
        return t, t.encode("ascii")
    if kind == "text":
        off = (salt * 13 + 3) % len(_TEXT)
        t = (_TEXT * ((n + off) // len(_TEXT) + 1))[off: off + n]
        return t, t.encode("utf-8")
    raise HarnessError("bad argument kind %r" % (kind,))


class Bench:
    def __init__(self, case, strategy):
        import paramiko.channel as PC

        tf = {PC.__file__: TRACED} if case.get("trace") else None
        self.s = S.Scheduler(strategy, trace_files=tf, max_steps=60000)
        self.ft = CB.FakeTransport(self.s)
        ft = self.ft
        self.handed = ft.handed  # every message given to the transport (sent or dropped), in order
        self.chan = CB.make_channel(self.s, ft, chanid=1, remote_chanid=7, out_window=case["win"], out_max_packet=case["maxpkt"])
        self.chan.settimeout(case["timeout"])
        self.calls = []  # dicts per sendall call
        self.events = []  # (log index, name)
        self.zeros = {}
        self.lastret = {}
        self.rewaits = 0  # send calls that went back to waiting after a wake-up that left them without window
        # the peer's side of the flow control (RFC 4254 5.2), independent of the channel's own bookkeeping: window the peer has
        # granted so far (initial window + every WINDOW_ADJUST that was dispatched to the channel)
        self.granted = case["win"]
        self.acked = 0  # wire bytes the serving peer has consumed and re-granted
        self._wire_seen = 0
        self._wire_bytes = 0
        self.napps = len(case["apps"])
        self.apps_done = 0
        self.serve_grants = 0
        self.herd_grants = 0  # WINDOW_ADJUSTs (> 0 bytes) that arrived while two or more send calls were parked on the window
        self.parked = set()  # tasks inside a wait on the window condition right now
        self._wrap_window_wait()
        self._wrap_send("send")
        self._wrap_send("send_stderr")

    def _wrap_window_wait(self):
        """Observation of the timed waits on the send-window condition, per send()/send_stderr() call of a task: the virtual
        time each wait lasted (from the call of Condition.wait to its return, i.e. with the lock re-acquired).  Every such span
        lies inside the span the code itself measures around the wait, so the budget the code has used up is at least their
        sum: a NEW wait that begins when the earlier waits of the same call already add up to the channel timeout means the
        call waits beyond its own budget (virtual clock: no scheduling slack is needed, only 1e-6 s for the code's own float arithmetic)."""
        cv = self.chan.out_buffer_cv
        real_wait = cv.wait
        s = self.s
        spent = self.spent = {}  # task -> virtual seconds spent in window waits during its current send call
        self.over = []  # (task, budget, spent, n-th wait)
        self.nwaits = {}

        def wait(timeout=None):
            me = s.current_name()
            t = self.chan.timeout
            if t is not None and t > 0 and me in spent:
                self.nwaits[me] = self.nwaits.get(me, 0) + 1
                # 1e-6 virtual seconds of tolerance: the code under test keeps its own budget by repeated float subtraction
                # (`timeout -= elapsed`), so after waits of e.g. 0.1 + 0.2 + 0.2 s a budget of 0.5 s may legitimately have
                # ~3e-17 s left and one more (immediately expiring) wait begins; that is rounding, not waiting beyond the budget
                if spent[me] > t + 1e-6:
                    self.over.append((me, t, spent[me], self.nwaits[me]))
            t0 = s.now
            self.parked.add(me)
            try:
                r = real_wait(timeout)
            finally:
                self.parked.discard(me)
            if me in spent:
                spent[me] += s.now - t0
            return r

        cv.wait = wait

    def _wrap_send(self, name):
        chan = self.chan
        real = getattr(chan, name)
        zeros = self.zeros  # consecutive zero-byte returns per calling task (reset per sendall call)
        s = self.s

        def wrapped(data):
            me = s.current_name()
            self.spent[me] = 0.0  # a fresh budget per send() call
            self.nwaits[me] = 0
            try:
                n = real(data)
            finally:
                if self.nwaits.get(me, 0) >= 2:
                    self.rewaits += 1
                self.spent.pop(me, None)
            if len(data) > 0 and not (isinstance(n, int) and n > 0):
                # no progress: 0 bytes taken (or a count that is not a positive number at all)
                z = zeros[me] = zeros.get(me, 0) + 1
                self.lastret[me] = n
                if z == SPIN_FAIR:
                    s.let_others_run("send returned %r %d times" % (n, SPIN_FAIR))
                if z >= SPIN_LIMIT:
                    raise SpinAbort()
            else:
                zeros[me] = 0
            return n

        setattr(chan, name, wrapped)

    def do(self, op, salt, tname):
        ft, chan, s = self.ft, self.chan, self.s
        k = op[0]
        if k in EVENTS:
            self.events.append((len(s.log), k))
            s.note(("event", k, tname))
        if k in ("sendall", "sendall_stderr"):
            kind = op[2] if len(op) > 2 else "bytes"
            arg, data = make_arg(op[1], salt, kind)
            rec = {"op": k, "size": op[1], "kind": kind, "data": data, "task": tname, "h0": len(self.handed), "h1": None, "start": len(s.log), "out": None}
            self.calls.append(rec)
            self.zeros[tname] = 0
            try:
                r = getattr(chan, k)(arg)
                rec["out"] = ("returned", r)
            except SpinAbort:
                rec["out"] = ("spin", self.lastret.get(tname, 0))
                rec["state"] = self.state()
            except S.HarnessAbort:
                rec["state"] = self.state()
                raise
            except BaseException as e:
                if isinstance(e, HarnessError):
                    raise
                rec["out"] = ("raised", e)
                rec["state"] = self.state()  # closed / eof_sent / transport loss are one-way: what holds now held at the raise or since
            finally:
                rec["h1"] = len(self.handed)
                rec["end"] = len(s.log)
        elif k == "adjust":
            if op[1] > 0 and len(self.parked) >= 2:
                self.herd_grants += 1
            if ft.deliver(CB.MSG_CHANNEL_WINDOW_ADJUST, 1, op[1]):
                self.granted += op[1]
        elif k == "serve":
            # the receiving peer: consume what reached the wire, re-grant it, until the application tasks are done
            while True:
                s.block_until(lambda: self.unacked() > 0 or self.apps_done >= self.napps, ("peer", "waiting-for-data"))
                n = self.unacked()
                if n == 0:
                    break
                self.acked += n
                if ft.deliver(CB.MSG_CHANNEL_WINDOW_ADJUST, 1, n):
                    self.granted += n
                    self.serve_grants += 1
        elif k == "shutdown_read":
            chan.shutdown_read()
        elif k == "peer_eof":
            ft.deliver(CB.MSG_CHANNEL_EOF, 1)
        elif k == "peer_close":
            ft.deliver(CB.MSG_CHANNEL_CLOSE, 1)
        elif k == "loss":
            ft.lose(unlink_first=bool(op[1]))
        elif k == "shutdown_write":
            chan.shutdown_write()
        elif k == "shutdown2":
            chan.shutdown(2)
        elif k == "close":
            chan.close()
        elif k == "sleep":
            s.sleep(op[1])
        else:
            raise HarnessError("bad op %r" % (op,))

    def unacked(self):
        w = self.ft.wire
        while self._wire_seen < len(w):
            m = w[self._wire_seen]
            self._wire_seen += 1
            if m["type"] in DATA_TYPES:
                self._wire_bytes += len(m["data"])
        return self._wire_bytes - self.acked

    def peer_window(self):
        """What the peer still allows: everything it granted minus every DATA / EXTENDED_DATA byte handed to the transport."""
        return self.granted - sum(len(m["data"]) for m in self.handed if m["type"] in DATA_TYPES)

    def state(self):
        c = self.chan
        return {"closed": bool(c.closed), "eof_sent": bool(c.eof_sent), "window": c.out_window_size, "timeout": c.timeout, "active": bool(self.ft.active),
                "peer_window": self.peer_window(), "eof_received": bool(c.eof_received)}

    def run(self, case):
        s = self.s
        for i, op in enumerate(case["history"]):
            self.do(tuple(op), 100 + i, "<history>")
        tasks = []
        if case["peer"]:
            tasks.append(("transport", [tuple(o) for o in case["peer"]]))
        for ai, ops in enumerate(case["apps"]):
            tasks.append(("app%d" % ai, [tuple(o) for o in ops]))

        def mk(tname, ops, base):
            def body():
                try:
                    for oi, op in enumerate(ops):
                        self.do(op, base + oi, tname)
                finally:
                    if tname != "transport":
                        self.apps_done += 1

            return body

        for ti, (tname, ops) in enumerate(tasks):
            s.spawn(tname, mk(tname, ops, 10 * ti))
        with S.patch_time(s, *CB.chan_time_modules()):
            return s.run()


def judge(bench, res, case):
    viol = []
    classes = set()
    nontrivial = False
    for rec in bench.calls:
        msgs = bench.handed[rec["h0"]: rec["h1"]]
        want_type = "DATA" if rec["op"] == "sendall" else "EXTENDED_DATA"
        mine = [m for m in msgs if m.get("task") == rec["task"] and m["type"] in ("DATA", "EXTENDED_DATA")]
        wrong = [m for m in mine if m["type"] != want_type or m["chan"] != 7 or (want_type == "EXTENDED_DATA" and m.get("code") != 1)]
        got = b"".join(m["data"] for m in mine)
        data = rec["data"]
        out = rec["out"]
        where = "%s(%d bytes) by %s" % (rec["op"], rec["size"], rec["task"])
        if wrong:
            viol.append(("wrong-message", rec["op"], "%s produced %r" % (where, wrong[0])))
        after_event = rec["size"] > 0 and any(idx <= rec.get("end", 10 ** 9) for idx, _n in bench.events)
        if after_event:
            nontrivial = True
            classes.add("sendall-after-or-overlapping-event")
        if rec["size"] > 0 and any(idx <= rec["start"] for idx, n in bench.events if n in READ_HALF_CLOSE):
            classes.add("sendall-after-read-side-half-close")
            if bench.serve_grants and len(mine) > 1:
                classes.add("sendall-after-read-side-half-close-spanning-several-grants")
        kind = rec.get("kind", "bytes")
        classes.add("arg-" + kind)
        if len(mine) > 1:
            classes.add("arg-%s-in-several-chunks" % kind)
            if kind == "text" and len(data) > rec["size"]:
                nontrivial = True
                classes.add("non-ascii-text-in-several-chunks")
        if out is None:
            # still inside the call when the run ended
            stt = rec.get("state") or bench.state()
            if res.outcome == "deadlock":
                if stt["closed"]:
                    viol.append(("blocked-forever", "closed-but-not-woken", "%s parked; state=%r waits=%r" % (where, stt, res.waits)))
                elif stt["eof_sent"]:
                    viol.append(("blocked-forever", "eof_sent-but-not-woken", "%s parked in the window wait although EOF was sent (shutdown_write does not notify); state=%r waits=%r" % (where, stt, res.waits)))
                elif stt["timeout"] is None and stt["peer_window"] > 0 and stt["active"]:
                    # open for writing, the peer has granted window that was never used, and the call sleeps for good
                    viol.append(("blocked-forever", "peer-granted-window-unused:%s" % ("read-side-half-closed" if stt["eof_received"] else "open"),
                                 "%s parked although the peer's WINDOW_ADJUSTs leave %d bytes of window (the channel believes %r); state=%r waits=%r" % (where, stt["peer_window"], stt["window"], stt, res.waits)))
                elif stt["window"] == 0 and stt["timeout"] is None:
                    classes.add("legit-blocked-on-zero-window")
                else:
                    viol.append(("blocked-forever", "window=%s,timeout=%s" % ("0" if stt["window"] == 0 else ">0", stt["timeout"]), "%s parked; state=%r waits=%r" % (where, stt, res.waits)))
            elif res.outcome == "budget":
                viol.append(("loops-forever", "step-budget:" + _spin_state(stt), "%s did not finish within %d scheduler steps; state=%r" % (where, res.steps, stt)))
            else:
                raise HarnessError("call unfinished but outcome %r" % res.outcome)
            continue
        if out[0] == "spin":
            stt = rec["state"]
            ret = out[1] if len(out) > 1 else 0
            viol.append(("loops-forever", "send-returns-%s:" % ("0" if ret == 0 else "non-positive") + _spin_state(stt), "%s: send() returned %r %d times in a row, no other task can act; state=%r" % (where, ret, SPIN_LIMIT, stt)))
            classes.add("spin")
        elif out[0] == "returned":
            classes.add("returned")
            if out[1] is not None:
                viol.append(("return-value", rec["op"], "%s returned %r" % (where, out[1])))
            if got != data:
                if data.startswith(got):
                    viol.append(("returned-with-bytes-missing", "short", "%s returned after handing over %d of %d bytes" % (where, len(got), len(data))))
                else:
                    viol.append(("returned-with-wrong-bytes", rec["op"], "%s handed over %d bytes that are not the argument (first diff at %d)" % (where, len(got), _first_diff(got, data))))
        elif out[0] == "raised":
            e = out[1]
            from paramiko.ssh_exception import SSHException

            if isinstance(e, socket.timeout):
                classes.add("raised-timeout")
            elif isinstance(e, (socket.error, SSHException)):
                classes.add("raised-error")
            else:
                viol.append(("unexpected-exception", "%s:%s" % (rec["op"], type(e).__name__), "%s raised %r" % (where, e)))
            if not data.startswith(got):
                viol.append(("raised-after-wrong-bytes", rec["op"], "%s handed over bytes that are not a prefix of the argument" % where))
            # the statement names the reasons for raising: closed, shut down for writing, timed out (a lost transport closes the
            # channel).  A call that raises although, even afterwards, none of them holds did neither deliver nor have a reason.
            stt = rec.get("state")
            if stt is not None and isinstance(e, (socket.error, SSHException)):
                timed = isinstance(e, socket.timeout) and case.get("timeout") is not None
                if not (stt["closed"] or stt["eof_sent"] or not stt["active"] or timed):
                    viol.append(("raised-without-cause", "%s:%s" % (rec["op"], type(e).__name__),
                                 "%s raised %r although the channel is open for writing, the transport is up and %s; state=%r" % (where, e, "no timeout is set" if case.get("timeout") is None else "it was not a timeout", stt)))
                else:
                    classes.add("raised-with-cause:%s" % ("timeout" if timed else "closed-or-shut-down-or-lost"))
    if res.outcome == "deadlock":
        classes.add("deadlock")
        if not any(r["out"] is None for r in bench.calls):
            viol.append(("deadlock", "outside-sendall", "waits=%r" % (res.waits,)))
    elif res.outcome == "budget":
        if not any(r["out"] is None for r in bench.calls):
            viol.append(("loops-forever", "outside-sendall", "waits=%r" % (res.waits,)))
    for name, info in res.tasks.items():
        if info.exc is not None:
            viol.append(("operation-raised", "%s" % type(info.exc).__name__, "%s: %s" % (name, info.tb)))
    for me, t, spent, nth in bench.over[:1]:
        viol.append(("timed-send-waits-beyond-its-timeout", "wait-no-%s" % ("2" if nth == 2 else ">2"), "task %s: a send call with timeout %s began its wait no %d on the window although its earlier waits had already lasted %.3f virtual seconds" % (me, t, nth, spent)))
    if bench.serve_grants:
        classes.add("granting-peer")
        if bench.serve_grants >= 2:
            classes.add("granting-peer-several-round-trips")
    if bench.herd_grants:
        nontrivial = True
        classes.add("grant-arrives-with-several-senders-parked")
    if bench.rewaits:
        classes.add("timed-or-untimed-sender-woken-without-window-and-waiting-again")
    if case.get("timeout") and bench.rewaits:
        classes.add("timed-sender-woken-without-window-and-waiting-again")
    if res.switched_in(lambda t: t[0] == "line"):
        classes.add("preempted-at-channel.py-line")
    if res.switched_in(lambda t: t[0] == "send"):
        classes.add("preempted-at-send-point")
    if any(ev[0] == "timeout" for ev in res.log):
        classes.add("virtual-timeout-fired")
    return viol, classes, nontrivial


def _spin_state(stt):
    if stt["closed"]:
        return "closed"
    if stt["eof_sent"]:
        return "after-eof_sent"
    return "open"


def _first_diff(a, b):
    for i, (x, y) in enumerate(zip(a, b)):
        if x != y:
            return i
    return min(len(a), len(b))


def execute(ctx, case, extra_classes=()):
    b = Bench(case, S.strategy_from_case(case["sched"]))
    res = b.run(case)
    viol, classes, nontrivial = judge(b, res, case)
    if b.rewaits and case.get("timeout"):
        nontrivial = True  # a timed sender was woken without getting window and had to decide how long to go on waiting
    mp = case.get("maxpkt", 32768)
    classes.add("peer-max-packet:%s" % ("below-64" if mp < 64 else "64" if mp == 64 else "65..4095" if mp < 4096 else "2^32-1" if mp == 2 ** 32 - 1 else "usual"))
    ctx.case(case, nontrivial, sorted(classes) + list(extra_classes))
    seen = set()
    for clause, bucket, detail in viol:
        if (clause, bucket) not in seen:
            seen.add((clause, bucket))
            ctx.violation(clause, bucket, case, detail)


def run(ctx):
    ctx.set_budget(60, 840)
    ctx.assume("'loops forever' = send() returns 0 for 120 consecutive iterations, the last 100 of them after every other task has finished or is parked for good (state frozen)")
    ctx.explore(case_st, lambda c: execute(ctx, c), ctx.scale(2500, 26000))
    ctx.explore(timed_case_st, lambda c: execute(ctx, c, ("timed-family",)), ctx.scale(700, 7000), seed_offset=3)
    ctx.explore(flow_case_st, lambda c: execute(ctx, c, ("flow-family",)), ctx.scale(500, 6000), seed_offset=5)
    ctx.explore(herd_case_st, lambda c: execute(ctx, c, ("herd-family",)), ctx.scale(300, 4000), seed_offset=7)


def replay(ctx, case):
    execute(ctx, case)
