"""C31 - SFTP attribute changes have their local-filesystem meaning.

Engine: E5 (production SFTPServer + SFTPClient over a socketpair; the server interface and its
file handles route every SETSTAT / FSETSTAT to the production helper SFTPServer.set_file_attr).

A case = initial content of a served file (or a served directory) + a short program of attribute
operations issued through the public client API:
    SFTPClient.truncate/chmod/utime/chown (by path)   SFTPFile.truncate/chmod/utime/chown (by handle)
Oracle: a *twin* file with the same initial content lives outside the served tree; the
corresponding os.truncate / os.chmod / os.utime / os.chown is applied to it.  After every
operation the served file must have the same bytes and the same st_size / st_mode / st_uid /
st_gid as the twin (st_mode compared in full: chmod arguments cover 0..0o7777, so whatever the local filesystem does
with set-uid / set-gid / sticky for this user, on files and on directories, is what the served object must show), and after utime also the same st_atime / st_mtime (whole seconds - SFTP v3
carries 32-bit seconds; for utime(None) the served times must lie between the wall-clock second
before and after the call, which is what "now" means for os.utime(path, None) as well).
Nothing is asserted about times after non-utime operations (mtime/ctime updates of truncate are
"now" on both sides and not comparable).
"""
import os
import shutil
import time

from hypothesis import strategies as st

from vlib import sftpenv

PROPERTY = "C31"
LEVEL = "exploration"
RULE = (
    "hypothesis-generated cases: served regular file (content = random non-zero pattern tiled to a size from "
    "{0,1,2,255..257,4095..4097,65535..65537,70000,100000, random 0..102400}) or a served directory, plus 1-4 "
    "attribute operations by path (SFTPClient) or by open handle (SFTPFile, opened 'r' or 'r+'): truncate to "
    "{0,1,len-1,len,len+1,2*len,70000,random 0..200000, 2^32+k sparse}, chmod 0..0o7777 (permission bits and set-uid/set-gid/sticky, "
    "files by path and by handle, directories by path), utime ints 0..2^31-1 or None, "
    "chown to arbitrary ids (root) or own ids; oracle = twin file under os.truncate/os.chmod/os.utime/os.chown, compared "
    "after every op (bytes, size, mode, uid, gid; atime/mtime after utime). non-trivial = a truncate of a non-empty file to a "
    "different size, or a chmod/utime/chown that changes the attribute's value; distinct by SHA-1 of the case"
)
THOROUGH_WORKERS = 16

IS_ROOT = os.geteuid() == 0
HUGE = 1 << 32

# ----------------------------------------------------------------------------- generators

_sizes = st.one_of(
    st.sampled_from([0, 1, 2, 10, 255, 256, 257, 4095, 4096, 4097, 65535, 65536, 65537, 70000, 100000]),
    st.integers(0, 102400),
    st.integers(0, 300),
)
_pattern = st.binary(min_size=1, max_size=24).map(lambda b: bytes((x % 255) + 1 for x in b))

_via_file = st.sampled_from(["path", "handle:r", "handle:r+"])

_target = st.one_of(
    st.tuples(st.just("rel"), st.sampled_from([-1, 0, 1, "x2", "half"])),
    st.tuples(st.just("abs"), st.sampled_from([0, 1, 70000, 4096, 65536])),
    st.tuples(st.just("abs"), st.integers(0, 200000)),
    st.tuples(st.just("abs"), st.integers(0, 300)),
    st.tuples(st.just("huge"), st.integers(0, 5000)),
)
_weights_target = st.one_of(_target, _target, _target, _target)

# the whole os.chmod domain: permission bits and set-uid / set-gid / sticky (whatever the local filesystem does with
# the latter for this user on files / directories is what the twin shows)
_mode = st.one_of(
    st.integers(0, 0o777),
    st.integers(0, 0o7777),
    st.integers(0, 0o7777),
    st.builds(lambda hi, lo: (hi << 9) | lo, st.integers(1, 7), st.sampled_from([0, 0o777, 0o755, 0o644, 0o711, 0o070, 0o001])),
    st.sampled_from([0, 0o777, 0o644, 0o600, 0o755, 0o400, 0o200, 0o100, 0o007, 0o7777, 0o4755, 0o2755, 0o1777, 0o6711]),
)
_time = st.one_of(st.integers(0, 2**31 - 1), st.sampled_from([0, 1, 2**31 - 1, 1000000000, 86400]))
_times = st.one_of(st.none(), st.tuples(_time, _time))
if IS_ROOT:
    _id = st.one_of(st.integers(0, 65534), st.sampled_from([0, 1, 1000, 65534, 100000, 2**31 - 1]))
    _ids = st.tuples(_id, _id)
else:  # an unprivileged user may only "change" to what it already is
    _ids = st.just((os.geteuid(), os.getegid()))

_op_file = st.one_of(
    st.tuples(st.just("truncate"), _via_file, _weights_target),
    st.tuples(st.just("truncate"), _via_file, _weights_target),
    st.tuples(st.just("chmod"), _via_file, _mode),
    st.tuples(st.just("utime"), _via_file, _times),
    st.tuples(st.just("chown"), _via_file, _ids),
)
_op_dir = st.one_of(
    st.tuples(st.just("chmod"), st.just("path"), _mode),
    st.tuples(st.just("utime"), st.just("path"), _times),
    st.tuples(st.just("chown"), st.just("path"), _ids),
)

case_st = st.one_of(
    st.fixed_dictionaries({"kind": st.just("file"), "pat": _pattern, "size": _sizes, "ops": st.lists(_op_file, min_size=1, max_size=4)}),
    st.fixed_dictionaries({"kind": st.just("file"), "pat": _pattern, "size": _sizes, "ops": st.lists(_op_file, min_size=1, max_size=4)}),
    st.fixed_dictionaries({"kind": st.just("file"), "pat": _pattern, "size": _sizes, "ops": st.lists(_op_file, min_size=1, max_size=4)}),
    st.fixed_dictionaries({"kind": st.just("dir"), "pat": st.just(b"\x01"), "size": st.just(0), "ops": st.lists(_op_dir, min_size=1, max_size=3)}),
)


def _content(pat, size):
    if size == 0:
        return b""
    reps = size // len(pat) + 1
    return (pat * reps)[:size]


def _resolve_target(t, cur):
    kind, v = t
    if kind == "abs":
        return v
    if kind == "huge":
        return HUGE + v
    if v == "x2":
        return 2 * cur
    if v == "half":
        return cur // 2
    return max(0, cur + v)


# ----------------------------------------------------------------------------- execution

_counter = [0]


def _read_file(path, limit=4 << 20):
    """Whole content, or for sparse giants (head, tail, size)."""
    size = os.stat(path).st_size
    with open(path, "rb") as f:
        if size <= limit:
            return f.read()
        head = f.read(1 << 20)
        f.seek(size - 8192)
        tail = f.read()
        return (head, tail, size)


def _mode_bits(st_mode):
    return st_mode & 0o7777


def execute(ctx, case):
    kind, pat, size, ops = case["kind"], case["pat"], case["size"], case["ops"]
    ops = [list(o) for o in ops]
    jcase = {"kind": kind, "pat": pat, "size": size, "ops": ops}

    _counter[0] += 1
    base = os.path.join(ctx.tmpdir(), "c%d" % _counter[0])
    root = os.path.join(base, "root")
    os.makedirs(root)
    served = os.path.join(root, "f")
    twin = os.path.join(base, "twin")
    content = _content(pat, size)
    if kind == "file":
        for p in (served, twin):
            with open(p, "wb") as f:
                f.write(content)
            os.chmod(p, 0o644)
    else:
        for p in (served, twin):
            os.mkdir(p)
            os.chmod(p, 0o755)

    nontrivial = False
    classes = set()
    env = sftpenv.SftpEnv(root)
    try:
        c = env.client
        for idx, (op, via, arg) in enumerate(ops):
            before = os.stat(twin)
            old_len = before.st_size if kind == "file" else 0
            # -------- what the local filesystem does
            twin_exc = None
            t0 = time.time()
            try:
                if op == "truncate":
                    n = _resolve_target(arg, old_len)
                    os.truncate(twin, n)
                    cls = "shrink" if n < old_len else ("extend" if n > old_len else "same-size")
                    classes.add("truncate:" + cls)
                    if n >= HUGE:
                        classes.add("truncate:>=2^32")
                    if old_len > 0 and n != old_len:
                        nontrivial = True
                elif op == "chmod":
                    os.chmod(twin, arg)
                    if _mode_bits(before.st_mode) != arg:
                        nontrivial = True
                    tgt = "dir" if kind == "dir" else via.split(":")[0]
                    for bit, name in ((0o4000, "setuid"), (0o2000, "setgid"), (0o1000, "sticky")):
                        if arg & bit:
                            classes.add("chmod:%s:%s" % (name, tgt))
                        elif before.st_mode & bit:
                            classes.add("chmod:clears-%s" % name)
                    if _mode_bits(os.stat(twin).st_mode) != arg:
                        classes.add("chmod:os-drops-requested-bits")
                elif op == "utime":
                    os.utime(twin, None if arg is None else tuple(arg))
                    nontrivial = True
                elif op == "chown":
                    os.chown(twin, arg[0], arg[1])
                    if (before.st_uid, before.st_gid) != tuple(arg):
                        nontrivial = True
            except OSError as e:
                twin_exc = e
            classes.add("%s:%s" % (op, via.split(":")[0]))
            if kind == "dir":
                classes.add("dir")
            # -------- the same through SFTP
            exc = None
            try:
                if via == "path":
                    if op == "truncate":
                        c.truncate("/f", n)
                    elif op == "chmod":
                        c.chmod("/f", arg)
                    elif op == "utime":
                        c.utime("/f", None if arg is None else tuple(arg))
                    elif op == "chown":
                        c.chown("/f", arg[0], arg[1])
                else:
                    with c.open("/f", via.split(":")[1]) as fh:
                        if op == "truncate":
                            fh.truncate(n)
                        elif op == "chmod":
                            fh.chmod(arg)
                        elif op == "utime":
                            fh.utime(None if arg is None else tuple(arg))
                        elif op == "chown":
                            fh.chown(arg[0], arg[1])
            except (IOError, OSError) as e:
                exc = e
            t1 = time.time()
            where = "op %d %s via %s arg %r" % (idx, op, via, n if op == "truncate" else arg)
            if twin_exc is not None:
                # the local filesystem refuses this too (e.g. EFBIG): nothing to compare for this op
                ctx.count("local-os-refused:%s:%s" % (op, type(twin_exc).__name__))
                if exc is None:
                    ctx.inconc("sftp-accepted-what-os-refused:%s" % op)
                return
            if exc is not None:
                ctx.violation("raises", "%s:%s:%s" % (op, via.split(":")[0], type(exc).__name__), jcase, "%s: client raised %r, os.%s succeeded" % (where, exc, op))
                return
            # -------- compare
            s, t = os.stat(served), os.stat(twin)
            if op == "utime":
                got = (int(s.st_atime), int(s.st_mtime))
                if arg is not None:
                    want = (int(t.st_atime), int(t.st_mtime))
                    if got != want:
                        fld = "atime+mtime-swapped" if got == want[::-1] and want[0] != want[1] else ("atime" if got[0] != want[0] else "mtime")
                        ctx.violation("stat", "utime:%s" % fld, jcase, "%s: served (atime, mtime)=%r, os.utime twin=%r" % (where, got, want))
                        return
                else:
                    lo, hi = int(t0) - 1, int(t1) + 1
                    if not (lo <= got[0] <= hi and lo <= got[1] <= hi):
                        ctx.violation("stat", "utime:none-not-now", jcase, "%s: served (atime, mtime)=%r, now in [%d, %d]" % (where, got, lo, hi))
                        return
            for fld, a, b in (
                ("size", s.st_size, t.st_size) if kind == "file" else ("size", 0, 0),
                ("mode", s.st_mode, t.st_mode),
                ("uid", s.st_uid, t.st_uid),
                ("gid", s.st_gid, t.st_gid),
            ):
                if a != b:
                    if op == "chown" and fld in ("uid", "gid") and (s.st_uid, s.st_gid) == (t.st_gid, t.st_uid):
                        fld = "uid+gid-swapped"
                    if fld == "mode" and not ((a ^ b) & ~0o7000):
                        fld = "mode-special-bits"  # only set-uid / set-gid / sticky differ
                    if fld.startswith("mode"):
                        a, b = oct(a), oct(b)
                    ctx.violation("stat", "%s:%s" % (op, fld), jcase, "%s: served st_%s=%r, twin st_%s=%r" % (where, fld, a, fld, b))
                    return
            if kind == "file":
                got, want = _read_file(served), _read_file(twin)
                if got != want:
                    # sparse giants are compared by (first MiB, last 8 KiB, size)
                    ghead, glen = (got[0], got[2]) if isinstance(got, tuple) else (got, len(got))
                    whead, wlen = (want[0], want[2]) if isinstance(want, tuple) else (want, len(want))
                    if op == "truncate":
                        m = min(old_len, n, len(ghead), len(whead))
                        if glen != wlen:
                            bucket = "truncate:wrong-length"
                        elif ghead[:m] != whead[:m]:
                            bucket = "truncate:leading-bytes-zeroed" if ghead[:m].count(0) == m else "truncate:leading-bytes-changed"
                        else:
                            bucket = "truncate:extension-not-zero"
                    else:
                        bucket = "%s:content-changed" % op
                    show = lambda b: (b[0][:24], b[2]) if isinstance(b, tuple) else (b[:24], len(b))
                    ctx.violation("content", bucket, jcase, "%s: old length %d; served now %r, os.%s twin %r" % (where, old_len, show(got), op, show(want)))
                    return
    finally:
        env.close()
        alive = env.threads_alive()
        shutil.rmtree(base, ignore_errors=True)
        ctx.case(jcase, nontrivial, sorted(classes))
        if alive:
            raise RuntimeError("sftpenv server thread did not stop")


def _explore_in_slices(ctx, strategy, body, total, shrink, slice_size=400):
    """ctx.explore in slices (own seed offset each), so that after a budget hit the run ends within one
    slice instead of letting hypothesis generate thousands of cases that are skipped."""
    done = k = 0
    while done < total and not ctx.out_of_time():
        n = min(slice_size, total - done)
        ctx.explore(strategy, body, n, shrink=shrink, seed_offset=k)
        done += n
        k += 1


def run(ctx):
    ctx.set_budget(60, 800)
    if not IS_ROOT:
        ctx.assume("not running as root: chown only to the current uid/gid")
    _explore_in_slices(ctx, case_st, lambda c: execute(ctx, c), ctx.scale(1500, 40000), shrink=True, slice_size=1500)


def replay(ctx, case):
    execute(ctx, case)
