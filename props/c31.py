"""C31 - SFTP attribute changes have their local-filesystem meaning.

Engine: E5 (production SFTPServer + SFTPClient over a socketpair; the server interface and its
file handles route every SETSTAT / FSETSTAT to the production helper SFTPServer.set_file_attr).

A case = initial content of a served file (or a served directory) + a short program of attribute
operations issued through the public client API:
    SFTPClient.truncate/chmod/utime/chown (by path)   SFTPFile.truncate/chmod/utime/chown (by handle)
Oracle: a *twin* file with the same initial content lives outside the served tree; the
corresponding os.truncate / os.chmod / os.utime / os.chown is applied to it.  After every
operation the served file must have the same bytes and the same st_size / st_mode / st_uid /
st_gid as the twin (st_mode compared in full: chmod arguments cover 0..0o7777, so whatever the local filesystem does
with set-uid / set-gid / sticky for this user, on files and on directories, is what the served object must show), and after utime also the same st_atime / st_mtime (whole seconds - SFTP v3
carries 32-bit seconds; for utime(None) the served times must lie between the wall-clock second
before and after the call, which is what "now" means for os.utime(path, None) as well).
Nothing is asserted about times after non-utime operations (mtime/ctime updates of truncate are
"now" on both sides and not comparable).

Path forms.  The served object "f" lives in a generated sub-directory (depth 0..2) of the served tree.  Every operation
names it (by path, or when opening the handle) in a generated FORM: the client's working directory is first brought to a
generated state with the documented SFTPClient.chdir() - none, "/", an ancestor, the object's own directory - and the path
is absolute, relative to that working directory ("f", "e/f"), "./"-prefixed, or takes a detour through an existing
directory ("sib/../f").  Same-named decoys "f" sit at the root of the served tree, in every ancestor directory and in a
sibling directory "sib" at every level.  Local-filesystem meaning (os.chdir(cwd); os.chmod(path, ...)): the object in the
working directory changes exactly like the twin, and NO decoy changes (mode, owner, size, mtime, bytes compared with a
snapshot after every operation).  Only existing directories are used for ".." detours, so that the server's lexical
path canonicalisation and the filesystem's physical one agree.

Symbolic links.  Next to the object sit symbolic links that resolve to it: "lr" -> "f" (relative target), "la" -> absolute target,
"lc" -> "lr" (link to a link), and "ld" -> "." (a link to the object's directory, used as "ld/f").  Every operation names the object by
its own name or through one of them (third element of the path form; for ops by handle: the name the handle is opened with).  The local
operations follow symbolic links - the twin lives in a directory with the same links and os.chmod / os.chown / os.utime / os.truncate
are given the same name - so the object changes like the twin and the links themselves (lstat: mode, owner, mtime, target) stay as
they are; they are part of the "no other object changed" snapshot.

Handle sessions.  An op by handle may carry a session (bufsize, I/O before the change, I/O after it): the SFTPFile is opened in mode
r / r+ / a / a+ / w+ with the bufsize argument of SFTPClient.open (default, 0, 1 = line buffered, > 1), a generated sequence of
write(n bytes) / read(n) / readline() / seek(SET|CUR|END) / flush() runs on it, then the attribute change, then more I/O, then
close().  With write buffering on, written data may still sit in the client's buffer when the change is requested (class
"handle-io:written-data-buffered-at-change"); after reads / readline the client holds read-ahead.  Local meaning: the same sequence on
an unbuffered local file object opened in the same mode (the OS's positions and append semantics), the change applied with os.* at
that point of the sequence - what a local file object gives as well (file.truncate() writes buffered data out first and leaves the
position where it was).  Reads only follow writes after a positioning call (stdio discipline: the harness inserts seek(tell())).
Compared: right after the change, handle still open - mode, owner, times after utime, no other object changed, and size + bytes when
nothing was written through the handle; after close() - size, bytes, mode, owner (not the times: later I/O moves them).  What read()
returns is not asserted here.  A failure of the plain I/O itself (not the change) is "inconclusive", not a violation.
The served files are unbuffered on the server side (sftpenv handle_buffering=0): a size change reaches the file by name, a handle that
caches file data on the server would not see it.
"""
import errno
import hashlib
import os
import shutil
import stat
import time

from hypothesis import strategies as st

from vlib import sftpenv

PROPERTY = "C31"
LEVEL = "exploration"
RULE = (
    "hypothesis-generated cases: served regular file (content = random non-zero pattern tiled to a size from "
    "{0,1,2,255..257,4095..4097,65535..65537,70000,100000, random 0..102400}) or a served directory, plus 1-4 "
    "attribute operations by path (SFTPClient) or by open handle (SFTPFile, opened r / r+ / a / a+ / w+; two thirds of them inside a handle session: "
    "bufsize {default,0,1,2..100000} and 0-3 I/O ops write/read/readline/seek/flush before (in half of the sessions buffering is on and the last one is a write) and 0-2 after the change, so that written data may "
    "still be buffered in the client and read-ahead held when the change is requested; compared with the same sequence on an unbuffered local "
    "file, right after the change and after close): truncate to "
    "{0,1,len-1,len,len+1,2*len,70000,random 0..200000, 2^32+k sparse}, chmod 0..0o7777 (permission bits and set-uid/set-gid/sticky, "
    "files by path and by handle, directories by path), utime ints over the whole unsigned 32-bit range 0..2^32-1 (dense at 0, 2^31 +-2, "
    "2^32-1; atime and mtime independently) or None, "
    "chown to arbitrary ids (root) or own ids; the object lives in a generated sub-directory (depth 0..2) and each op names it in a generated "
    "path form: client working directory {unset, '/', an ancestor, the object's directory} set with SFTPClient.chdir(), path {absolute, "
    "relative to the working directory, './'-prefixed, detour 'sib/../'}, last component {the object's name, a symlink to it with relative / "
    "absolute target, a symlink to that symlink, the name behind a symlink to its directory} (os.* follow links: the object changes, the links' own lstat "
    "must not) - with same-named decoys at the root, in every ancestor and in a sibling "
    "directory at every level; oracle = twin file under os.truncate/os.chmod/os.utime/os.chown, compared "
    "after every op (bytes, size, mode, uid, gid; atime/mtime after utime) + no decoy changed. non-trivial = a truncate of a non-empty file to a "
    "different size, or a chmod/utime/chown that changes the attribute's value; distinct by SHA-1 of the case"
)
THOROUGH_WORKERS = 16

IS_ROOT = os.geteuid() == 0
HUGE = 1 << 32

# ----------------------------------------------------------------------------- generators

_sizes = st.one_of(
    st.sampled_from([0, 1, 2, 10, 255, 256, 257, 4095, 4096, 4097, 65535, 65536, 65537, 70000, 100000]),
    st.integers(0, 102400),
    st.integers(0, 300),
)
_pattern = st.binary(min_size=1, max_size=24).map(lambda b: bytes((x % 255) + 1 for x in b))

_via_file = st.one_of(
    st.sampled_from(["path", "handle:r", "handle:r+"]),
    st.sampled_from(["path", "handle:r", "handle:r+"]).map(lambda v: v),
    st.sampled_from(["handle:r+", "handle:r+", "handle:a", "handle:a+", "handle:w+", "handle:r"]),
)

# ---- handle sessions: what else happens on the SFTPFile around the attribute change.  io = None (open, change, close) or
# (bufsize of SFTPClient.open, I/O before the change, I/O after it); I/O ops: ("w", n bytes, data seed) | ("r", n) | ("rl",) = readline |
# ("s", whence, value) = seek | ("fl",) = flush.  With bufsize 1 (line buffered) or > 1 written data may still sit in the client's
# write buffer, and read data in its read-ahead buffer, when the attribute change is requested.
_bufsize = st.sampled_from([-1, 0, 1, 2, 64, 512, 4096, 4096, 32768, 100000])
_nbytes = st.one_of(st.integers(1, 300), st.sampled_from([1, 10, 100, 512, 4096, 5000, 40000]))
_seekv = st.one_of(
    st.tuples(st.just(0), st.one_of(st.sampled_from([0, 1, 10, "half", "end", "end+10"]), st.integers(0, 300))),
    st.tuples(st.just(1), st.sampled_from([0, 0, 1, 7, 50, -1, -5])),
    st.tuples(st.just(2), st.sampled_from([0, -1, -10, 5])),
)
_io_write = st.tuples(st.just("w"), _nbytes, st.integers(0, 255))
_io_op = st.one_of(
    _io_write,
    _io_write.map(lambda v: v),
    st.tuples(st.just("r"), _nbytes),
    st.just(("rl",)),
    st.tuples(st.just("s"), _seekv).map(lambda v: ("s", v[1][0], v[1][1])),
    st.just(("fl",)),
)
_io_plan = st.tuples(_bufsize, st.lists(_io_op, min_size=0, max_size=3), st.lists(_io_op, min_size=0, max_size=2))
# half of the sessions: write buffering on and a write as the last thing before the change (data usually still in the client's buffer)
_io_plan_w = st.tuples(
    st.sampled_from([1, 2, 64, 512, 4096, 32768, 100000]),
    st.tuples(st.lists(_io_op, min_size=0, max_size=2), _io_write).map(lambda v: list(v[0]) + [v[1]]),
    st.lists(_io_op, min_size=0, max_size=2),
)
_io = st.one_of(st.none(), _io_plan, _io_plan_w)

_target = st.one_of(
    st.tuples(st.just("rel"), st.sampled_from([-1, 0, 1, "x2", "half"])),
    st.tuples(st.just("abs"), st.sampled_from([0, 1, 70000, 4096, 65536])),
    st.tuples(st.just("abs"), st.integers(0, 200000)),
    st.tuples(st.just("abs"), st.integers(0, 300)),
    st.tuples(st.just("huge"), st.integers(0, 5000)),
)
_weights_target = st.one_of(_target, _target, _target, _target)

# the whole os.chmod domain: permission bits and set-uid / set-gid / sticky (whatever the local filesystem does with
# the latter for this user on files / directories is what the twin shows)
_mode = st.one_of(
    st.integers(0, 0o777),
    st.integers(0, 0o7777),
    st.integers(0, 0o7777),
    st.builds(lambda hi, lo: (hi << 9) | lo, st.integers(1, 7), st.sampled_from([0, 0o777, 0o755, 0o644, 0o711, 0o070, 0o001])),
    st.sampled_from([0, 0o777, 0o644, 0o600, 0o755, 0o400, 0o200, 0o100, 0o007, 0o7777, 0o4755, 0o2755, 0o1777, 0o6711]),
)
# SFTP v3 times are unsigned 32-bit seconds: the whole range, dense at the ends and around 2^31
_time = st.one_of(
    st.integers(0, 2**32 - 1),
    st.integers(0, 2**31 - 1),
    st.integers(2**31, 2**32 - 1),
    st.sampled_from([0, 1, 86400, 1000000000, 2**31 - 2, 2**31 - 1, 2**31, 2**31 + 1, 3000000000, 2**32 - 2, 2**32 - 1]),
)
_times = st.one_of(st.none(), st.tuples(_time, _time), st.tuples(_time, _time).map(lambda v: v))
if IS_ROOT:
    _id = st.one_of(st.integers(0, 65534), st.sampled_from([0, 1, 1000, 65534, 100000, 2**31 - 1]))
    _ids = st.tuples(_id, _id)
else:  # an unprivileged user may only "change" to what it already is
    _ids = st.just((os.geteuid(), os.getegid()))

# path form of one operation: (working directory, style).  Working directory: None = none set (chdir(None)), k = chdir() into the
# first k components of the object's directory (0 = "/"; clipped to the depth of the directory); style: how the path is spelled
# relative to it.  Half of the operations keep the plain absolute path without a working directory.
STYLES = ["abs", "rel", "dot", "detour"]
_cwd = st.sampled_from([None, 0, 1, 2, 2, 2])
# last component(s) of the path: the object's own name "f", or a symbolic link that resolves to it - "lr" -> "f" (relative target),
# "la" -> absolute target, "lc" -> "lr" (link to a link) - or "f" reached through a symbolic link to its directory ("ld/f", "ld" -> ".").
# os.chmod / os.chown / os.utime / os.truncate follow symbolic links: the object changes, the link does not.
NAMES = {"f": "own-name", "lr": "symlink-relative", "la": "symlink-absolute", "lc": "symlink-to-symlink", "ld/f": "through-dir-symlink"}
_name = st.one_of(st.just("f"), st.just("f").map(lambda v: v), st.sampled_from(["lr", "la", "lc", "ld/f"]))
_form2 = st.one_of(
    st.just((None, "abs")),
    st.just((None, "abs")).map(lambda v: v),
    st.tuples(_cwd, st.sampled_from(STYLES)),
    st.tuples(_cwd, st.sampled_from(["rel", "rel", "dot", "detour"])),
)
_form = st.tuples(_form2, _name).map(lambda v: (v[0][0], v[0][1], v[1]))
_comp = st.sampled_from(["d", "e", "sub", "a b", "x.y", "\u00fc"])
_dir = st.one_of(st.just([]), st.lists(_comp, min_size=1, max_size=2), st.lists(_comp, min_size=1, max_size=2).map(lambda v: v))

_op_file = st.one_of(
    st.tuples(st.just("truncate"), _via_file, _weights_target, _form, _io),
    st.tuples(st.just("truncate"), _via_file, _weights_target, _form, _io),
    st.tuples(st.just("chmod"), _via_file, _mode, _form, _io),
    st.tuples(st.just("utime"), _via_file, _times, _form, _io),
    st.tuples(st.just("chown"), _via_file, _ids, _form, _io),
)
_op_dir = st.one_of(
    st.tuples(st.just("chmod"), st.just("path"), _mode, _form),
    st.tuples(st.just("utime"), st.just("path"), _times, _form),
    st.tuples(st.just("chown"), st.just("path"), _ids, _form),
)

_file_case = {"kind": st.just("file"), "pat": _pattern, "size": _sizes, "dir": _dir, "ops": st.lists(_op_file, min_size=1, max_size=4)}
case_st = st.one_of(
    st.fixed_dictionaries(_file_case),
    st.fixed_dictionaries(_file_case).map(lambda v: v),
    st.fixed_dictionaries(_file_case).map(lambda v: v),
    st.fixed_dictionaries({"kind": st.just("dir"), "pat": st.just(b"\x01"), "size": st.just(0), "dir": _dir, "ops": st.lists(_op_dir, min_size=1, max_size=3)}),
)


def _content(pat, size):
    if size == 0:
        return b""
    reps = size // len(pat) + 1
    return (pat * reps)[:size]


def _resolve_target(t, cur):
    kind, v = t
    if kind == "abs":
        return v
    if kind == "huge":
        return HUGE + v
    if v == "x2":
        return 2 * cur
    if v == "half":
        return cur // 2
    return max(0, cur + v)


# ----------------------------------------------------------------------------- execution

_counter = [0]
_scratch_dir = [None]


def scratch(ctx):
    """Directory for the served trees and twins: tmpfs when available (every case builds and removes a small tree, some
    with multi-GiB sparse files), else ctx.tmpdir().  Removed at interpreter exit."""
    if _scratch_dir[0] is None or not os.path.isdir(_scratch_dir[0]):
        import atexit
        import tempfile

        shm = "/dev/shm"
        if os.path.isdir(shm) and os.access(shm, os.W_OK):
            _scratch_dir[0] = tempfile.mkdtemp(prefix="verif-C31-", dir=shm)
            atexit.register(shutil.rmtree, _scratch_dir[0], True)
        else:
            _scratch_dir[0] = ctx.tmpdir()
    return _scratch_dir[0]


def _read_file(path, limit=4 << 20):
    """Whole content, or for sparse giants (first MiB without its trailing zeros, last 8 KiB, size).  Holes read as zeros, so
    only the data extents below 1 MiB are actually read (SEEK_DATA / SEEK_HOLE; the whole first MiB where unsupported)."""
    size = os.stat(path).st_size
    with open(path, "rb") as f:
        if size <= limit:
            return f.read()
        fd, top, end, pos = f.fileno(), 1 << 20, 0, 0
        try:
            while pos < top:
                a = os.lseek(fd, pos, os.SEEK_DATA)
                if a >= top:
                    break
                pos = os.lseek(fd, a, os.SEEK_HOLE)
                end = min(pos, top)
        except OSError as e:
            if e.errno != errno.ENXIO:  # ENXIO = no data after `pos`
                end = top
        f.seek(0)
        head = f.read(end).rstrip(b"\x00")
        f.seek(size - 8192)
        tail = f.read()
        return (head, tail, size)


def _mode_bits(st_mode):
    return st_mode & 0o7777


def _make_links(d, obj):
    """The symbolic links of NAMES next to the object ``obj`` in directory ``d``; returns their paths."""
    os.symlink("f", os.path.join(d, "lr"))
    os.symlink(obj, os.path.join(d, "la"))
    os.symlink("lr", os.path.join(d, "lc"))
    os.symlink(".", os.path.join(d, "ld"))
    return [os.path.join(d, x) for x in ("lr", "la", "lc", "ld")]


def _build_tree(root, dirs, kind, content, links=True):
    """root/<dirs...>/f is the object (file with `content`, or a directory).  Same-named decoys: "f" in the root and in every
    ancestor directory, and "sib/f" at every level (root, ancestors, the object's own directory).  Next to the object: the
    symbolic links of NAMES that resolve to it.
    Returns (path of the object, {decoy or link path: snapshot})."""
    levels = [root]
    for comp in dirs:
        levels.append(os.path.join(levels[-1], comp))
    os.makedirs(levels[-1], exist_ok=True)
    target = os.path.join(levels[-1], "f")
    places = []
    for i, lv in enumerate(levels):
        sib = os.path.join(lv, "sib")
        os.mkdir(sib)
        places.append(os.path.join(sib, "f"))
        if i < len(levels) - 1:
            places.append(os.path.join(lv, "f"))
    if kind == "file":
        with open(target, "wb") as f:
            f.write(content)
        os.chmod(target, 0o644)
    else:
        os.mkdir(target)
        os.chmod(target, 0o755)
    decoys = {}
    for i, p in enumerate(places):
        if kind == "file":
            with open(p, "wb") as f:
                f.write(b"decoy-%02d " % i * 40)
            os.chmod(p, 0o644)
        else:
            os.mkdir(p)
            os.chmod(p, 0o755)
        os.utime(p, (1000000000 + i, 1000000100 + i))
        decoys[p] = _snapshot(p)
    if links:
        for i, p in enumerate(_make_links(levels[-1], target)):
            os.utime(p, (1000000000 + i, 1000000200 + i), follow_symlinks=False)
            decoys[p] = _snapshot(p)
    return target, decoys


def _snapshot(p):
    try:
        s = os.lstat(p)
    except OSError as e:
        return ("missing", e.errno)
    if stat.S_ISLNK(s.st_mode):
        body = ("symlink", os.readlink(p))
        size = 0
    elif stat.S_ISDIR(s.st_mode):
        body = tuple(sorted(os.listdir(p)))
        size = 0
    else:
        with open(p, "rb") as f:
            body = f.read(1 << 16)
        size = s.st_size
    return (oct(s.st_mode), s.st_uid, s.st_gid, size, s.st_mtime_ns, body)


def _spell(dirs, form):
    """(working directory to chdir() into or None, path as given to the client) for an op's path form."""
    cwd, style = form[0], form[1]
    name = form[2] if len(form) > 2 else "f"
    depth = None if cwd is None else min(int(cwd), len(dirs))
    cwd_path = None if depth is None else "/" + "/".join(dirs[:depth])
    rel = "/".join(list(dirs[depth or 0 :]) + [name])
    if style == "abs":
        path = "/" + "/".join(list(dirs) + [name])
    elif style == "rel":
        path = rel
    elif style == "dot":
        path = "./" + rel
    elif style == "detour":
        path = "sib/../" + rel  # "sib" exists in the working directory (in the root when none is set)
    else:
        raise AssertionError(form)
    where = "none" if depth is None else ("root" if depth == 0 else ("own-dir" if depth == len(dirs) else "ancestor"))
    return cwd_path, path, where


def _wdata(seed, n):
    """Bytes written by a handle session's write op (aperiodic; contains line feeds now and then)."""
    return hashlib.shake_256(b"verif-c31-%d" % seed).digest(n)


class _TwinSession:
    """The local side of a handle session: an unbuffered local file object (the operating system's own read / write / seek /
    append semantics, nothing cached) opened in the same mode.  Runs the generated I/O ops and records the concrete script that is then
    replayed on the SFTPFile: ("w", data) | ("r", n) | ("rl",) | ("rl", size) | ("s", offset, whence) | ("fl",)."""

    def __init__(self, path, mode, bufsize=-1):
        self.raw = open(path, mode + "b", buffering=0)
        # readline() fetches bufsize (default 8192) bytes per request: lines that would take more than 64 requests are read with
        # an explicit size limit, readline(size), instead
        self.line_limit = 64 * (bufsize if bufsize > 1 else 8192)
        self.mode = mode
        self.can_read = "r" in mode or "+" in mode
        self.can_write = mode != "r"
        self.dirty = False  # written since the last positioning call / flush
        self.wrote = False
        self.write_end = 0  # furthest end of a write

    def run(self, ops, ctx, classes):
        script = []
        raw = self.raw
        for o in ops:
            k = o[0]
            if k == "w":
                if not self.can_write:
                    ctx.count("dropped:write-on-readonly-handle")
                    continue
                data = _wdata(o[2], o[1])
                view = memoryview(data)
                while len(view):
                    view = view[raw.write(view) :]
                script.append(("w", data))
                self.dirty = self.wrote = True
                self.write_end = max(self.write_end, raw.tell())
            elif k in ("r", "rl"):
                if not self.can_read:
                    ctx.count("dropped:read-on-writeonly-handle")
                    continue
                if self.dirty:
                    # stdio discipline: a positioning call between writing and reading
                    p = raw.tell()
                    raw.seek(p)
                    script.append(("s", p, 0))
                    self.dirty = False
                if k == "r":
                    raw.read(o[1])
                    script.append(("r", o[1]))
                else:
                    start = raw.tell()
                    if os.fstat(raw.fileno()).st_size - start > (1 << 20):
                        ctx.count("dropped:readline-in-sparse-giant")
                        continue
                    got = 0
                    while True:
                        chunk = raw.read(65536)
                        i = chunk.find(b"\n")
                        if i >= 0:
                            got += i + 1
                            break
                        got += len(chunk)
                        if not chunk:
                            break
                    if got > self.line_limit:
                        got = self.line_limit
                        script.append(("rl", got))
                        classes.add("handle-io:readline(size)")
                    else:
                        script.append(("rl",))
                    raw.seek(start + got)
            elif k == "s":
                whence, v = o[1], o[2]
                if whence == 0 and isinstance(v, str):
                    size = os.fstat(raw.fileno()).st_size
                    v = {"half": size // 2, "end": size, "end+10": size + 10}[v]
                try:
                    raw.seek(v, whence)
                except OSError:
                    ctx.count("dropped:seek-before-start-of-file")
                    continue
                script.append(("s", v, whence))
                classes.add("handle-io:seek-%s" % ("set", "cur", "end")[whence])
                self.dirty = False
            elif k == "fl":
                script.append(("fl",))
                self.dirty = False
            else:
                raise AssertionError(o)
        return script

    def close(self):
        self.raw.close()


def _replay_script(fh, script):
    for o in script:
        if o[0] == "w":
            fh.write(o[1])
        elif o[0] == "r":
            fh.read(o[1])
        elif o[0] == "rl":
            fh.readline(*o[1:])
        elif o[0] == "s":
            fh.seek(o[1], o[2])
        elif o[0] == "fl":
            fh.flush()


def _pending_model(bufsize, script):
    """Bytes the SFTPFile's documented write buffering (bufsize 1: up to the last line feed is sent; > 1: everything is sent once
    bufsize bytes have gathered; else unbuffered) still holds back after `script` - for evidence classes only."""
    pending = 0
    for o in script:
        if o[0] == "w":
            if bufsize == 1:
                i = o[1].rfind(b"\n")
                pending = pending + len(o[1]) if i < 0 else len(o[1]) - i - 1
            elif bufsize > 1:
                pending += len(o[1])
                if pending >= bufsize:
                    pending = 0
        elif o[0] in ("s", "fl"):
            pending = 0
    return pending


def execute(ctx, case):
    kind, pat, size, ops = case["kind"], case["pat"], case["size"], case["ops"]
    ops = [_jsonable(o) for o in ops]
    for o in ops:
        if len(o) > 4 and (o[1] == "path" or o[4] is None):
            del o[4:]  # (a handle session belongs to ops by handle only)
    jcase = {"kind": kind, "pat": pat, "size": size, "ops": ops}
    dirs = list(case.get("dir") or [])  # (cases of the first generation of this check: object at the root, absolute paths)
    if "dir" in case:
        jcase["dir"] = dirs

    _counter[0] += 1
    base = os.path.join(scratch(ctx), "c%d" % _counter[0])
    root = os.path.join(base, "root")
    os.makedirs(root)
    twin_dir = os.path.join(base, "twin")
    os.mkdir(twin_dir)
    twin_obj = os.path.join(twin_dir, "f")
    content = _content(pat, size)
    served, decoys = _build_tree(root, dirs, kind, content)
    if kind == "file":
        with open(twin_obj, "wb") as f:
            f.write(content)
        os.chmod(twin_obj, 0o644)
    else:
        os.mkdir(twin_obj)
        os.chmod(twin_obj, 0o755)
    _make_links(twin_dir, twin_obj)

    nontrivial = False
    classes = set()
    classes.add("depth:%d" % len(dirs))
    # unbuffered server-side files: a size change made by path (FSETSTAT -> set_file_attr(filename)) must be seen by later reads
    # through the handle, as with a pread()-based server
    env = sftpenv.SftpEnv(root, handle_buffering=0)
    cur_cwd = None
    try:
        c = env.client
        for idx, o in enumerate(ops):
            op, via, arg = o[0], o[1], o[2]
            form = o[3] if len(o) > 3 else [None, "abs"]
            io = o[4] if len(o) > 4 else None
            style = form[1]
            name = form[2] if len(form) > 2 else "f"
            twin = os.path.join(twin_dir, name)  # the local operation names the object the same way (own name / symlink)
            cwd_path, rpath, cwd_where = _spell(dirs, form)
            classes.add("path:" + style)
            classes.add("cwd:" + cwd_where)
            classes.add("name:" + NAMES[name])
            if style != "abs" and cwd_where in ("ancestor", "own-dir"):
                classes.add("relative-path-after-chdir-into-subdir")
            sfx = "" if style == "abs" else ":%s-path" % style
            if name != "f":
                sfx += ":" + NAMES[name]
            if cwd_path != cur_cwd:
                try:
                    c.chdir(cwd_path)
                except (IOError, OSError) as e:
                    ctx.inconc("chdir-failed:%s" % type(e).__name__)
                    return
                cur_cwd = cwd_path
            before = os.stat(twin_obj)
            old_len = before.st_size if kind == "file" else 0
            by_handle = via != "path"
            hmode = via.split(":")[1] if by_handle else None
            # -------- what the local filesystem does
            twin_exc = None
            tw = script_pre = script_post = None
            twin_at_change = None  # (stat, content or None) of the twin right after the change, handle still open
            t0 = time.time()
            try:
                if by_handle:
                    tw = _TwinSession(twin, hmode, io[0] if io is not None else -1)
                    if hmode.startswith("w"):
                        old_len = 0
                    if io is not None:
                        script_pre = tw.run(io[1], ctx, classes)
                if op == "truncate":
                    n = _resolve_target(arg, old_len)
                    os.truncate(twin, n)
                    cls = "shrink" if n < old_len else ("extend" if n > old_len else "same-size")
                    classes.add("truncate:" + cls)
                    if n >= HUGE:
                        classes.add("truncate:>=2^32")
                    if old_len > 0 and n != old_len:
                        nontrivial = True
                elif op == "chmod":
                    os.chmod(twin, arg)
                    if _mode_bits(before.st_mode) != arg:
                        nontrivial = True
                    tgt = "dir" if kind == "dir" else via.split(":")[0]
                    for bit, bname in ((0o4000, "setuid"), (0o2000, "setgid"), (0o1000, "sticky")):
                        if arg & bit:
                            classes.add("chmod:%s:%s" % (bname, tgt))
                        elif before.st_mode & bit:
                            classes.add("chmod:clears-%s" % bname)
                    if _mode_bits(os.stat(twin).st_mode) != arg:
                        classes.add("chmod:os-drops-requested-bits")
                elif op == "utime":
                    os.utime(twin, None if arg is None else tuple(arg))
                    nontrivial = True
                elif op == "chown":
                    os.chown(twin, arg[0], arg[1])
                    if (before.st_uid, before.st_gid) != tuple(arg):
                        nontrivial = True
                if tw is not None and io is not None:
                    twin_at_change = (os.stat(twin_obj), _read_file(twin_obj) if not tw.wrote else None)
                    script_post = tw.run(io[2], ctx, classes)
            except OSError as e:
                twin_exc = e
            finally:
                if tw is not None:
                    tw.close()
            classes.add("%s:%s" % (op, via.split(":")[0]))
            if by_handle:
                classes.add("handle-mode:" + hmode)
            if kind == "dir":
                classes.add("dir")
            where = "op %d %s via %s arg %r, path %r with working directory %r (object is /%s)" % (
                idx,
                op,
                via,
                n if op == "truncate" else arg,
                rpath,
                cwd_path,
                "/".join(dirs + ["f"]),
            )
            if twin_exc is not None:
                # the local filesystem refuses this too (e.g. EFBIG): nothing to compare for this op
                ctx.count("local-os-refused:%s:%s" % (op, type(twin_exc).__name__))
                return
            hsfx = ""
            if io is not None:
                bufsize = io[0]
                pending = _pending_model(bufsize, script_pre)
                classes.add("handle-io:bufsize-%s" % ("default" if bufsize < 0 else ("0" if bufsize == 0 else ("line" if bufsize == 1 else ">1"))))
                if pending:
                    classes.add("handle-io:written-data-buffered-at-change")
                    if op == "truncate":
                        classes.add("handle-io:truncate-with-buffered-data:" + ("below-end-of-written-data" if n < tw.write_end else "at-or-above-end-of-written-data"))
                elif any(x[0] == "w" for x in script_pre):
                    classes.add("handle-io:written-data-sent-before-change")
                if any(x[0] in ("r", "rl") for x in script_pre):
                    classes.add("handle-io:read-before-change")
                    if bufsize >= 1 or any(x[0] == "rl" for x in script_pre):
                        classes.add("handle-io:read-ahead-possible-at-change")
                if any(x[0] == "w" for x in script_post):
                    classes.add("handle-io:write-after-change")
                hsfx = ":handle-io(%s%s)" % (
                    "unbuffered" if bufsize < 1 else ("line-buffered" if bufsize == 1 else "buffered"),
                    ",data-pending" if pending else "",
                )
                where += " [handle opened %r bufsize %d; before the change: %s; after it: %s]" % (hmode, bufsize, _show_script(script_pre), _show_script(script_post))

            # -------- comparison of the served object with the twin
            def verify(t, want_content, times, content, when):
                """False after reporting a violation.  t = stat of the twin, want_content = its content (or None)."""
                s = os.stat(served)
                tag = sfx + hsfx + when
                if times:
                    got = (int(s.st_atime), int(s.st_mtime))
                    if arg is not None:
                        for tv in arg:
                            classes.add("utime:>=2^31" if tv >= 2**31 else "utime:<2^31")
                        want = (int(t.st_atime), int(t.st_mtime))
                        if got != want:
                            fld = "atime+mtime-swapped" if got == want[::-1] and want[0] != want[1] else ("atime" if got[0] != want[0] else "mtime")
                            ctx.violation("stat", "utime:%s%s" % (fld, tag), jcase, "%s: served (atime, mtime)=%r, os.utime twin=%r" % (where, got, want))
                            return False
                    else:
                        lo, hi = int(t0) - 1, int(t1) + 1
                        if not (lo <= got[0] <= hi and lo <= got[1] <= hi):
                            ctx.violation("stat", "utime:none-not-now" + hsfx + when, jcase, "%s: served (atime, mtime)=%r, now in [%d, %d]" % (where, got, lo, hi))
                            return False
                for fld, a, b in (
                    ("size", s.st_size, t.st_size) if kind == "file" else ("size", 0, 0),
                    ("mode", s.st_mode, t.st_mode),
                    ("uid", s.st_uid, t.st_uid),
                    ("gid", s.st_gid, t.st_gid),
                ):
                    if fld == "size" and not content:
                        continue  # (data may still be on its way: the size is compared once it has arrived)
                    if fld == "mode" and io is not None and not IS_ROOT:
                        a, b = a & ~0o6000, b & ~0o6000  # (an unprivileged write clears set-uid/set-gid whenever it happens)
                    if a != b:
                        if op == "chown" and fld in ("uid", "gid") and (s.st_uid, s.st_gid) == (t.st_gid, t.st_uid):
                            fld = "uid+gid-swapped"
                        if fld == "mode" and not ((a ^ b) & ~0o7000):
                            fld = "mode-special-bits"  # only set-uid / set-gid / sticky differ
                        if fld.startswith("mode"):
                            a, b = oct(a), oct(b)
                        ctx.violation("stat", "%s:%s%s" % (op, fld, tag), jcase, "%s: served st_%s=%r, twin st_%s=%r" % (where, fld, a, fld, b))
                        return False
                if kind == "file" and content:
                    got, want = _read_file(served), want_content
                    if got != want:
                        # sparse giants are compared by (first MiB, last 8 KiB, size)
                        unpack = lambda b: (b[0].ljust(min(1 << 20, b[2]), b"\x00"), b[2]) if isinstance(b, tuple) else (b, len(b))  # noqa: E731
                        ghead, glen = unpack(got)
                        whead, wlen = unpack(want)
                        if op == "truncate":
                            m = min(old_len, n, len(ghead), len(whead))
                            if glen != wlen:
                                bucket = "truncate:wrong-length"
                            elif ghead[:m] != whead[:m]:
                                bucket = "truncate:leading-bytes-zeroed" if ghead[:m].count(0) == m else "truncate:leading-bytes-changed"
                            else:
                                bucket = "truncate:extension-not-zero"
                        else:
                            bucket = "%s:content-changed" % op
                        show = lambda b: (b[0][:24], b[2]) if isinstance(b, tuple) else (b[:24], len(b))  # noqa: E731
                        ctx.violation("content", bucket + tag, jcase, "%s: old length %d; served now %r, os.%s twin %r" % (where, old_len, show(got), op, show(want)))
                        return False
                return True

            def others_untouched():
                for dp, snap in decoys.items():
                    now = _snapshot(dp)
                    if now != snap:
                        what = "symbolic link" if snap[5][:1] == ("symlink",) else "same-named object"
                        ctx.violation(
                            "wrong-object",
                            "%s:%s%s%s" % (op, via.split(":")[0], sfx, ":symlink-itself-changed" if what == "symbolic link" else ""),
                            jcase,
                            "%s: the %s %s changed: %r -> %r" % (where, what, dp[len(root) :], snap[:5], now[:5]),
                        )
                        return False
                return True

            # -------- the same through SFTP
            exc = None
            stage = "open"
            t1 = None
            try:
                if not by_handle:
                    stage = "change"
                    if op == "truncate":
                        c.truncate(rpath, n)
                    elif op == "chmod":
                        c.chmod(rpath, arg)
                    elif op == "utime":
                        c.utime(rpath, None if arg is None else tuple(arg))
                    elif op == "chown":
                        c.chown(rpath, arg[0], arg[1])
                    t1 = time.time()
                else:
                    fh = c.open(rpath, hmode) if io is None else c.open(rpath, hmode + "b", io[0])
                    try:
                        if io is not None:
                            stage = "io-before"
                            _replay_script(fh, script_pre)
                        stage = "change"
                        if op == "truncate":
                            fh.truncate(n)
                        elif op == "chmod":
                            fh.chmod(arg)
                        elif op == "utime":
                            fh.utime(None if arg is None else tuple(arg))
                        elif op == "chown":
                            fh.chown(arg[0], arg[1])
                        t1 = time.time()
                        if io is not None:
                            # right after the change, handle still open: attributes (times after utime); size and bytes when no
                            # data was written through the handle (else they are compared after close, when all of it has arrived)
                            stage = "io-after"
                            if not others_untouched():
                                return
                            if not verify(twin_at_change[0], twin_at_change[1], op == "utime", twin_at_change[1] is not None, ":handle-open"):
                                return
                            _replay_script(fh, script_post)
                            stage = "close"
                        fh.close()
                    finally:
                        try:
                            fh.close()
                        except Exception:
                            pass
            except (IOError, OSError) as e:
                exc = e
            if t1 is None:
                t1 = time.time()
            if exc is not None and stage != "change" and io is not None:
                # plain I/O on the handle failed: not this property's business
                ctx.inconc("handle-io-failed:%s:%s" % (stage, type(exc).__name__))
                return
            if exc is not None:
                ctx.violation("raises", "%s:%s:%s%s" % (op, via.split(":")[0], type(exc).__name__, sfx + hsfx), jcase, "%s: client raised %r, os.%s succeeded" % (where, exc, op))
                return
            # -------- no other object may have changed
            if not others_untouched():
                return
            # -------- compare (after a handle session: everything but the times, which later I/O legitimately moves)
            t = os.stat(twin_obj)
            if not verify(t, _read_file(twin_obj) if kind == "file" else None, op == "utime" and io is None, True, ":after-close" if io is not None else ""):
                return
    finally:
        env.close()
        alive = env.threads_alive()
        shutil.rmtree(base, ignore_errors=True)
        ctx.case(jcase, nontrivial, sorted(classes))
        if alive:
            raise RuntimeError("sftpenv server thread did not stop")


def _show_script(script):
    return ", ".join("write(%d bytes)" % len(o[1]) if o[0] == "w" else ("%s%r" % (o[0], tuple(o[1:]))) for o in script or []) or "-"


def _jsonable(x):
    return [_jsonable(y) for y in x] if isinstance(x, (tuple, list)) else x


def _explore_in_slices(ctx, strategy, body, total, shrink, slice_size=400):
    """ctx.explore in slices (own seed offset each), so that after a budget hit the run ends within one
    slice instead of letting hypothesis generate thousands of cases that are skipped."""
    done = k = 0
    while done < total and not ctx.out_of_time():
        n = min(slice_size, total - done)
        ctx.explore(strategy, body, n, shrink=shrink, seed_offset=k)
        done += n
        k += 1


def run(ctx):
    ctx.set_budget(60, 800)
    if not IS_ROOT:
        ctx.assume("not running as root: chown only to the current uid/gid")
    _explore_in_slices(ctx, case_st, lambda c: execute(ctx, c), ctx.scale(1500, 40000), shrink=True, slice_size=1500)


def replay(ctx, case):
    execute(ctx, case)
