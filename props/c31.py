"""C31 - SFTP attribute changes have their local-filesystem meaning.

Engine: E5 (production SFTPServer + SFTPClient over a socketpair; the server interface and its
file handles route every SETSTAT / FSETSTAT to the production helper SFTPServer.set_file_attr).

A case = initial content of a served file (or a served directory) + a short program of attribute
operations issued through the public client API:
    SFTPClient.truncate/chmod/utime/chown (by path)   SFTPFile.truncate/chmod/utime/chown (by handle)
Oracle: a *twin* file with the same initial content lives outside the served tree; the
corresponding os.truncate / os.chmod / os.utime / os.chown is applied to it.  After every
operation the served file must have the same bytes and the same st_size / st_mode / st_uid /
st_gid as the twin (st_mode compared in full: chmod arguments cover 0..0o7777, so whatever the local filesystem does
with set-uid / set-gid / sticky for this user, on files and on directories, is what the served object must show), and after utime also the same st_atime / st_mtime (whole seconds - SFTP v3
carries 32-bit seconds; for utime(None) the served times must lie between the wall-clock second
before and after the call, which is what "now" means for os.utime(path, None) as well).
Nothing is asserted about times after non-utime operations (mtime/ctime updates of truncate are
"now" on both sides and not comparable).

Path forms.  The served object "f" lives in a generated sub-directory (depth 0..2) of the served tree.  Every operation
names it (by path, or when opening the handle) in a generated FORM: the client's working directory is first brought to a
generated state with the documented SFTPClient.chdir() - none, "/", an ancestor, the object's own directory - and the path
is absolute, relative to that working directory ("f", "e/f"), "./"-prefixed, or takes a detour through an existing
directory ("sib/../f").  Same-named decoys "f" sit at the root of the served tree, in every ancestor directory and in a
sibling directory "sib" at every level.  Local-filesystem meaning (os.chdir(cwd); os.chmod(path, ...)): the object in the
working directory changes exactly like the twin, and NO decoy changes (mode, owner, size, mtime, bytes compared with a
snapshot after every operation).  Only existing directories are used for ".." detours, so that the server's lexical
path canonicalisation and the filesystem's physical one agree.
"""
import errno
import os
import shutil
import stat
import time

from hypothesis import strategies as st

from vlib import sftpenv

PROPERTY = "C31"
LEVEL = "exploration"
RULE = (
    "hypothesis-generated cases: served regular file (content = random non-zero pattern tiled to a size from "
    "{0,1,2,255..257,4095..4097,65535..65537,70000,100000, random 0..102400}) or a served directory, plus 1-4 "
    "attribute operations by path (SFTPClient) or by open handle (SFTPFile, opened 'r' or 'r+'): truncate to "
    "{0,1,len-1,len,len+1,2*len,70000,random 0..200000, 2^32+k sparse}, chmod 0..0o7777 (permission bits and set-uid/set-gid/sticky, "
    "files by path and by handle, directories by path), utime ints over the whole unsigned 32-bit range 0..2^32-1 (dense at 0, 2^31 +-2, "
    "2^32-1; atime and mtime independently) or None, "
    "chown to arbitrary ids (root) or own ids; the object lives in a generated sub-directory (depth 0..2) and each op names it in a generated "
    "path form: client working directory {unset, '/', an ancestor, the object's directory} set with SFTPClient.chdir(), path {absolute, "
    "relative to the working directory, './'-prefixed, detour 'sib/../'} - with same-named decoys at the root, in every ancestor and in a sibling "
    "directory at every level; oracle = twin file under os.truncate/os.chmod/os.utime/os.chown, compared "
    "after every op (bytes, size, mode, uid, gid; atime/mtime after utime) + no decoy changed. non-trivial = a truncate of a non-empty file to a "
    "different size, or a chmod/utime/chown that changes the attribute's value; distinct by SHA-1 of the case"
)
THOROUGH_WORKERS = 16

IS_ROOT = os.geteuid() == 0
HUGE = 1 << 32

# ----------------------------------------------------------------------------- generators

_sizes = st.one_of(
    st.sampled_from([0, 1, 2, 10, 255, 256, 257, 4095, 4096, 4097, 65535, 65536, 65537, 70000, 100000]),
    st.integers(0, 102400),
    st.integers(0, 300),
)
_pattern = st.binary(min_size=1, max_size=24).map(lambda b: bytes((x % 255) + 1 for x in b))

_via_file = st.sampled_from(["path", "handle:r", "handle:r+"])

_target = st.one_of(
    st.tuples(st.just("rel"), st.sampled_from([-1, 0, 1, "x2", "half"])),
    st.tuples(st.just("abs"), st.sampled_from([0, 1, 70000, 4096, 65536])),
    st.tuples(st.just("abs"), st.integers(0, 200000)),
    st.tuples(st.just("abs"), st.integers(0, 300)),
    st.tuples(st.just("huge"), st.integers(0, 5000)),
)
_weights_target = st.one_of(_target, _target, _target, _target)

# the whole os.chmod domain: permission bits and set-uid / set-gid / sticky (whatever the local filesystem does with
# the latter for this user on files / directories is what the twin shows)
_mode = st.one_of(
    st.integers(0, 0o777),
    st.integers(0, 0o7777),
    st.integers(0, 0o7777),
    st.builds(lambda hi, lo: (hi << 9) | lo, st.integers(1, 7), st.sampled_from([0, 0o777, 0o755, 0o644, 0o711, 0o070, 0o001])),
    st.sampled_from([0, 0o777, 0o644, 0o600, 0o755, 0o400, 0o200, 0o100, 0o007, 0o7777, 0o4755, 0o2755, 0o1777, 0o6711]),
)
# SFTP v3 times are unsigned 32-bit seconds: the whole range, dense at the ends and around 2^31
_time = st.one_of(
    st.integers(0, 2**32 - 1),
    st.integers(0, 2**31 - 1),
    st.integers(2**31, 2**32 - 1),
    st.sampled_from([0, 1, 86400, 1000000000, 2**31 - 2, 2**31 - 1, 2**31, 2**31 + 1, 3000000000, 2**32 - 2, 2**32 - 1]),
)
_times = st.one_of(st.none(), st.tuples(_time, _time), st.tuples(_time, _time).map(lambda v: v))
if IS_ROOT:
    _id = st.one_of(st.integers(0, 65534), st.sampled_from([0, 1, 1000, 65534, 100000, 2**31 - 1]))
    _ids = st.tuples(_id, _id)
else:  # an unprivileged user may only "change" to what it already is
    _ids = st.just((os.geteuid(), os.getegid()))

# path form of one operation: (working directory, style).  Working directory: None = none set (chdir(None)), k = chdir() into the
# first k components of the object's directory (0 = "/"; clipped to the depth of the directory); style: how the path is spelled
# relative to it.  Half of the operations keep the plain absolute path without a working directory.
STYLES = ["abs", "rel", "dot", "detour"]
_cwd = st.sampled_from([None, 0, 1, 2, 2, 2])
_form = st.one_of(
    st.just((None, "abs")),
    st.just((None, "abs")).map(lambda v: v),
    st.tuples(_cwd, st.sampled_from(STYLES)),
    st.tuples(_cwd, st.sampled_from(["rel", "rel", "dot", "detour"])),
)
_comp = st.sampled_from(["d", "e", "sub", "a b", "x.y", "\u00fc"])
_dir = st.one_of(st.just([]), st.lists(_comp, min_size=1, max_size=2), st.lists(_comp, min_size=1, max_size=2).map(lambda v: v))

_op_file = st.one_of(
    st.tuples(st.just("truncate"), _via_file, _weights_target, _form),
    st.tuples(st.just("truncate"), _via_file, _weights_target, _form),
    st.tuples(st.just("chmod"), _via_file, _mode, _form),
    st.tuples(st.just("utime"), _via_file, _times, _form),
    st.tuples(st.just("chown"), _via_file, _ids, _form),
)
_op_dir = st.one_of(
    st.tuples(st.just("chmod"), st.just("path"), _mode, _form),
    st.tuples(st.just("utime"), st.just("path"), _times, _form),
    st.tuples(st.just("chown"), st.just("path"), _ids, _form),
)

_file_case = {"kind": st.just("file"), "pat": _pattern, "size": _sizes, "dir": _dir, "ops": st.lists(_op_file, min_size=1, max_size=4)}
case_st = st.one_of(
    st.fixed_dictionaries(_file_case),
    st.fixed_dictionaries(_file_case).map(lambda v: v),
    st.fixed_dictionaries(_file_case).map(lambda v: v),
    st.fixed_dictionaries({"kind": st.just("dir"), "pat": st.just(b"\x01"), "size": st.just(0), "dir": _dir, "ops": st.lists(_op_dir, min_size=1, max_size=3)}),
)


def _content(pat, size):
    if size == 0:
        return b""
    reps = size // len(pat) + 1
    return (pat * reps)[:size]


def _resolve_target(t, cur):
    kind, v = t
    if kind == "abs":
        return v
    if kind == "huge":
        return HUGE + v
    if v == "x2":
        return 2 * cur
    if v == "half":
        return cur // 2
    return max(0, cur + v)


# ----------------------------------------------------------------------------- execution

_counter = [0]
_scratch_dir = [None]


def scratch(ctx):
    """Directory for the served trees and twins: tmpfs when available (every case builds and removes a small tree, some
    with multi-GiB sparse files), else ctx.tmpdir().  Removed at interpreter exit."""
    if _scratch_dir[0] is None or not os.path.isdir(_scratch_dir[0]):
        import atexit
        import tempfile

        shm = "/dev/shm"
        if os.path.isdir(shm) and os.access(shm, os.W_OK):
            _scratch_dir[0] = tempfile.mkdtemp(prefix="verif-C31-", dir=shm)
            atexit.register(shutil.rmtree, _scratch_dir[0], True)
        else:
            _scratch_dir[0] = ctx.tmpdir()
    return _scratch_dir[0]


def _read_file(path, limit=4 << 20):
    """Whole content, or for sparse giants (first MiB without its trailing zeros, last 8 KiB, size).  Holes read as zeros, so
    only the data extents below 1 MiB are actually read (SEEK_DATA / SEEK_HOLE; the whole first MiB where unsupported)."""
    size = os.stat(path).st_size
    with open(path, "rb") as f:
        if size <= limit:
            return f.read()
        fd, top, end, pos = f.fileno(), 1 << 20, 0, 0
        try:
            while pos < top:
                a = os.lseek(fd, pos, os.SEEK_DATA)
                if a >= top:
                    break
                pos = os.lseek(fd, a, os.SEEK_HOLE)
                end = min(pos, top)
        except OSError as e:
            if e.errno != errno.ENXIO:  # ENXIO = no data after `pos`
                end = top
        f.seek(0)
        head = f.read(end).rstrip(b"\x00")
        f.seek(size - 8192)
        tail = f.read()
        return (head, tail, size)


def _mode_bits(st_mode):
    return st_mode & 0o7777


def _build_tree(root, dirs, kind, content):
    """root/<dirs...>/f is the object (file with `content`, or a directory).  Same-named decoys: "f" in the root and in every
    ancestor directory, and "sib/f" at every level (root, ancestors, the object's own directory).
    Returns (path of the object, {decoy path: snapshot})."""
    levels = [root]
    for comp in dirs:
        levels.append(os.path.join(levels[-1], comp))
    os.makedirs(levels[-1], exist_ok=True)
    target = os.path.join(levels[-1], "f")
    places = []
    for i, lv in enumerate(levels):
        sib = os.path.join(lv, "sib")
        os.mkdir(sib)
        places.append(os.path.join(sib, "f"))
        if i < len(levels) - 1:
            places.append(os.path.join(lv, "f"))
    if kind == "file":
        with open(target, "wb") as f:
            f.write(content)
        os.chmod(target, 0o644)
    else:
        os.mkdir(target)
        os.chmod(target, 0o755)
    decoys = {}
    for i, p in enumerate(places):
        if kind == "file":
            with open(p, "wb") as f:
                f.write(b"decoy-%02d " % i * 40)
            os.chmod(p, 0o644)
        else:
            os.mkdir(p)
            os.chmod(p, 0o755)
        os.utime(p, (1000000000 + i, 1000000100 + i))
        decoys[p] = _snapshot(p)
    return target, decoys


def _snapshot(p):
    try:
        s = os.lstat(p)
    except OSError as e:
        return ("missing", e.errno)
    if stat.S_ISDIR(s.st_mode):
        body = tuple(sorted(os.listdir(p)))
        size = 0
    else:
        with open(p, "rb") as f:
            body = f.read(1 << 16)
        size = s.st_size
    return (oct(s.st_mode), s.st_uid, s.st_gid, size, s.st_mtime_ns, body)


def _spell(dirs, form):
    """(working directory to chdir() into or None, path as given to the client) for an op's path form."""
    cwd, style = form
    depth = None if cwd is None else min(int(cwd), len(dirs))
    cwd_path = None if depth is None else "/" + "/".join(dirs[:depth])
    rel = "/".join(list(dirs[depth or 0 :]) + ["f"])
    if style == "abs":
        path = "/" + "/".join(list(dirs) + ["f"])
    elif style == "rel":
        path = rel
    elif style == "dot":
        path = "./" + rel
    elif style == "detour":
        path = "sib/../" + rel  # "sib" exists in the working directory (in the root when none is set)
    else:
        raise AssertionError(form)
    where = "none" if depth is None else ("root" if depth == 0 else ("own-dir" if depth == len(dirs) else "ancestor"))
    return cwd_path, path, where


def execute(ctx, case):
    kind, pat, size, ops = case["kind"], case["pat"], case["size"], case["ops"]
    ops = [[list(x) if isinstance(x, tuple) else x for x in o] for o in ops]
    jcase = {"kind": kind, "pat": pat, "size": size, "ops": ops}
    dirs = list(case.get("dir") or [])  # (cases of the first generation of this check: object at the root, absolute paths)
    if "dir" in case:
        jcase["dir"] = dirs

    _counter[0] += 1
    base = os.path.join(scratch(ctx), "c%d" % _counter[0])
    root = os.path.join(base, "root")
    os.makedirs(root)
    twin = os.path.join(base, "twin")
    content = _content(pat, size)
    served, decoys = _build_tree(root, dirs, kind, content)
    if kind == "file":
        with open(twin, "wb") as f:
            f.write(content)
        os.chmod(twin, 0o644)
    else:
        os.mkdir(twin)
        os.chmod(twin, 0o755)

    nontrivial = False
    classes = set()
    classes.add("depth:%d" % len(dirs))
    env = sftpenv.SftpEnv(root)
    cur_cwd = None
    try:
        c = env.client
        for idx, o in enumerate(ops):
            op, via, arg = o[0], o[1], o[2]
            form = o[3] if len(o) > 3 else [None, "abs"]
            style = form[1]
            cwd_path, rpath, cwd_where = _spell(dirs, form)
            classes.add("path:" + style)
            classes.add("cwd:" + cwd_where)
            if style != "abs" and cwd_where in ("ancestor", "own-dir"):
                classes.add("relative-path-after-chdir-into-subdir")
            sfx = "" if style == "abs" else ":%s-path" % style
            if cwd_path != cur_cwd:
                try:
                    c.chdir(cwd_path)
                except (IOError, OSError) as e:
                    ctx.inconc("chdir-failed:%s" % type(e).__name__)
                    return
                cur_cwd = cwd_path
            before = os.stat(twin)
            old_len = before.st_size if kind == "file" else 0
            # -------- what the local filesystem does
            twin_exc = None
            t0 = time.time()
            try:
                if op == "truncate":
                    n = _resolve_target(arg, old_len)
                    os.truncate(twin, n)
                    cls = "shrink" if n < old_len else ("extend" if n > old_len else "same-size")
                    classes.add("truncate:" + cls)
                    if n >= HUGE:
                        classes.add("truncate:>=2^32")
                    if old_len > 0 and n != old_len:
                        nontrivial = True
                elif op == "chmod":
                    os.chmod(twin, arg)
                    if _mode_bits(before.st_mode) != arg:
                        nontrivial = True
                    tgt = "dir" if kind == "dir" else via.split(":")[0]
                    for bit, name in ((0o4000, "setuid"), (0o2000, "setgid"), (0o1000, "sticky")):
                        if arg & bit:
                            classes.add("chmod:%s:%s" % (name, tgt))
                        elif before.st_mode & bit:
                            classes.add("chmod:clears-%s" % name)
                    if _mode_bits(os.stat(twin).st_mode) != arg:
                        classes.add("chmod:os-drops-requested-bits")
                elif op == "utime":
                    os.utime(twin, None if arg is None else tuple(arg))
                    nontrivial = True
                elif op == "chown":
                    os.chown(twin, arg[0], arg[1])
                    if (before.st_uid, before.st_gid) != tuple(arg):
                        nontrivial = True
            except OSError as e:
                twin_exc = e
            classes.add("%s:%s" % (op, via.split(":")[0]))
            if kind == "dir":
                classes.add("dir")
            # -------- the same through SFTP
            exc = None
            try:
                if via == "path":
                    if op == "truncate":
                        c.truncate(rpath, n)
                    elif op == "chmod":
                        c.chmod(rpath, arg)
                    elif op == "utime":
                        c.utime(rpath, None if arg is None else tuple(arg))
                    elif op == "chown":
                        c.chown(rpath, arg[0], arg[1])
                else:
                    with c.open(rpath, via.split(":")[1]) as fh:
                        if op == "truncate":
                            fh.truncate(n)
                        elif op == "chmod":
                            fh.chmod(arg)
                        elif op == "utime":
                            fh.utime(None if arg is None else tuple(arg))
                        elif op == "chown":
                            fh.chown(arg[0], arg[1])
            except (IOError, OSError) as e:
                exc = e
            t1 = time.time()
            where = "op %d %s via %s arg %r, path %r with working directory %r (object is /%s)" % (
                idx,
                op,
                via,
                n if op == "truncate" else arg,
                rpath,
                cwd_path,
                "/".join(dirs + ["f"]),
            )
            if twin_exc is not None:
                # the local filesystem refuses this too (e.g. EFBIG): nothing to compare for this op
                ctx.count("local-os-refused:%s:%s" % (op, type(twin_exc).__name__))
                if exc is None:
                    ctx.inconc("sftp-accepted-what-os-refused:%s" % op)
                return
            if exc is not None:
                ctx.violation("raises", "%s:%s:%s%s" % (op, via.split(":")[0], type(exc).__name__, sfx), jcase, "%s: client raised %r, os.%s succeeded" % (where, exc, op))
                return
            # -------- no other object may have changed
            for dp, snap in decoys.items():
                now = _snapshot(dp)
                if now != snap:
                    ctx.violation(
                        "wrong-object",
                        "%s:%s%s" % (op, via.split(":")[0], sfx),
                        jcase,
                        "%s: the same-named object %s changed: %r -> %r" % (where, dp[len(root) :], snap[:5], now[:5]),
                    )
                    return
            # -------- compare
            s, t = os.stat(served), os.stat(twin)
            if op == "utime":
                got = (int(s.st_atime), int(s.st_mtime))
                if arg is not None:
                    for tv in arg:
                        classes.add("utime:>=2^31" if tv >= 2**31 else "utime:<2^31")
                    want = (int(t.st_atime), int(t.st_mtime))
                    if got != want:
                        fld = "atime+mtime-swapped" if got == want[::-1] and want[0] != want[1] else ("atime" if got[0] != want[0] else "mtime")
                        ctx.violation("stat", "utime:%s%s" % (fld, sfx), jcase, "%s: served (atime, mtime)=%r, os.utime twin=%r" % (where, got, want))
                        return
                else:
                    lo, hi = int(t0) - 1, int(t1) + 1
                    if not (lo <= got[0] <= hi and lo <= got[1] <= hi):
                        ctx.violation("stat", "utime:none-not-now", jcase, "%s: served (atime, mtime)=%r, now in [%d, %d]" % (where, got, lo, hi))
                        return
            for fld, a, b in (
                ("size", s.st_size, t.st_size) if kind == "file" else ("size", 0, 0),
                ("mode", s.st_mode, t.st_mode),
                ("uid", s.st_uid, t.st_uid),
                ("gid", s.st_gid, t.st_gid),
            ):
                if a != b:
                    if op == "chown" and fld in ("uid", "gid") and (s.st_uid, s.st_gid) == (t.st_gid, t.st_uid):
                        fld = "uid+gid-swapped"
                    if fld == "mode" and not ((a ^ b) & ~0o7000):
                        fld = "mode-special-bits"  # only set-uid / set-gid / sticky differ
                    if fld.startswith("mode"):
                        a, b = oct(a), oct(b)
                    ctx.violation("stat", "%s:%s%s" % (op, fld, sfx), jcase, "%s: served st_%s=%r, twin st_%s=%r" % (where, fld, a, fld, b))
                    return
            if kind == "file":
                got, want = _read_file(served), _read_file(twin)
                if got != want:
                    # sparse giants are compared by (first MiB, last 8 KiB, size)
                    unpack = lambda b: (b[0].ljust(min(1 << 20, b[2]), b"\x00"), b[2]) if isinstance(b, tuple) else (b, len(b))  # noqa: E731
                    ghead, glen = unpack(got)
                    whead, wlen = unpack(want)
                    if op == "truncate":
                        m = min(old_len, n, len(ghead), len(whead))
                        if glen != wlen:
                            bucket = "truncate:wrong-length"
                        elif ghead[:m] != whead[:m]:
                            bucket = "truncate:leading-bytes-zeroed" if ghead[:m].count(0) == m else "truncate:leading-bytes-changed"
                        else:
                            bucket = "truncate:extension-not-zero"
                    else:
                        bucket = "%s:content-changed" % op
                    show = lambda b: (b[0][:24], b[2]) if isinstance(b, tuple) else (b[:24], len(b))
                    ctx.violation("content", bucket + sfx, jcase, "%s: old length %d; served now %r, os.%s twin %r" % (where, old_len, show(got), op, show(want)))
                    return
    finally:
        env.close()
        alive = env.threads_alive()
        shutil.rmtree(base, ignore_errors=True)
        ctx.case(jcase, nontrivial, sorted(classes))
        if alive:
            raise RuntimeError("sftpenv server thread did not stop")


def _explore_in_slices(ctx, strategy, body, total, shrink, slice_size=400):
    """ctx.explore in slices (own seed offset each), so that after a budget hit the run ends within one
    slice instead of letting hypothesis generate thousands of cases that are skipped."""
    done = k = 0
    while done < total and not ctx.out_of_time():
        n = min(slice_size, total - done)
        ctx.explore(strategy, body, n, shrink=shrink, seed_offset=k)
        done += n
        k += 1


def run(ctx):
    ctx.set_budget(60, 800)
    if not IS_ROOT:
        ctx.assume("not running as root: chown only to the current uid/gid")
    _explore_in_slices(ctx, case_st, lambda c: execute(ctx, c), ctx.scale(1500, 40000), shrink=True, slice_size=1500)


def replay(ctx, case):
    execute(ctx, case)
