"""C23 - live channel ids are unique within a transport and fit in 24 bits.

Engine: two production transports (client + server, both under test: each allocates ids for the
channels it opens and for the channels its peer opens) on the in-memory link. A hypothesis
RuleBasedStateMachine generates histories of

  local open      client open_session (server side allocates an id for it, too)
  peer open       server open_forwarded_tcpip_channel after the client enabled port forwarding
  close           close() on the client end / server end / both; the harness waits until both ends are
                  closed and unlinked before the next step
  drop            drop the last reference without closing (ChannelMap is weak; __del__ closes)
  jump            counter wrap-around preset: `_channel_counter` of one side is moved (under the transport
                  lock) to 2^24-1, 2^24-2, 2^24-3 or onto / just below the id of a live channel. Any such value is a
                  state the counter reaches after enough opens while the listed channels stay open.
  gated race      a peer open (client open_session) is held inside the server application's
                  check_channel_request callback, i.e. after the transport thread took an id and before
                  the channel is registered; meanwhile another thread opens a channel locally on the
                  same transport. The interleaving is forced with events, not hoped for.
  free race       local and peer open released together from two threads.

Oracle: per transport the model keeps {id: Channel object} of channels that were opened and not yet
closed/dropped. Every id handed out is an int in [0, 2^24), is not in that set at allocation time,
both ends agree (remote_chanid of one end == chanid of the other), and afterwards every modelled
live channel is still the object registered under its id (nothing was overwritten).
"""
import gc
import threading
import time

from hypothesis import strategies as st
from hypothesis.stateful import RuleBasedStateMachine, initialize, precondition, rule

from vlib import peers

PROPERTY = "C23"
LEVEL = "exploration"
RULE = (
    "hypothesis RuleBasedStateMachine on a real client/server pair, both `_channel_counter`s preset from {0, 2^24-3, 2^24-1}: "
    "rules local open, peer open (forwarded-tcpip), close client end/server end/both, drop reference, counter jump (to 2^24-1, 2^24-2, "
    "onto or just below a live id), gated race (peer open held in check_channel_request while a local open runs on the same "
    "transport), free race (two threads); non-trivial = an allocation after the counter wrapped / was moved onto live ids, or >= 3 "
    "channels live at an allocation; distinct by the operation list"
)

TO = 15.0
MAXID = 1 << 24
PRESETS = [0, MAXID - 3, MAXID - 1]


class Stop(Exception):
    pass


class Sess:
    def __init__(self, ctx, cc, sc):
        self.ctx = ctx
        self.ops = [{"op": "init", "cc": cc, "sc": sc}]
        self.gate_on = False
        self.gate_in = threading.Event()
        self.gate_go = threading.Event()
        srv = peers.OpenServer()
        srv.policy["check_channel_request"] = self._check_channel_request
        self.link, self.tc, self.ts, self.srv = peers.connected_pair(server_obj=srv)
        self.T = {"c": self.tc, "s": self.ts}
        self.tc._channel_counter = cc
        self.ts._channel_counter = sc
        self.tc.request_port_forward("", 0)  # enables forwarded-tcpip; accepted channels go to tc.accept()
        self.live = {"c": {}, "s": {}}
        self.pairs = []  # [c_chan, s_chan]
        self.nontrivial = False
        self.classes = []
        self.dead = False
        self.hot = {"c": False, "s": False}  # the next allocation on that side meets occupied ids / a wrap

    def _check_channel_request(self, kind, chanid):
        if self.gate_on:
            self.gate_on = False
            self.gate_in.set()
            self.gate_go.wait(TO)
        return peers.OPEN_SUCCEEDED

    def close(self):
        self.gate_go.set()
        self.pairs = []
        self.live = {"c": {}, "s": {}}
        peers.shutdown(self.tc, self.ts)

    def fail(self, clause, bucket, detail):
        self.dead = True
        self.ctx.violation(clause, bucket, {"ops": self.ops}, detail)
        raise Stop()

    def do(self, op):
        if self.dead:
            return
        if op["op"] in ("close", "drop") and not self.pairs:
            return
        self.ops.append(op)
        getattr(self, "op_" + op["op"])(op)
        self.check_maps(op["op"])

    # ------------------------------------------------------------------ oracle pieces
    def new_id(self, side, chan, how, live_before):
        cid = chan.get_id()
        if not isinstance(cid, int) or not (0 <= cid < MAXID):
            self.fail("id-in-24-bit-space", "%s:%s" % (side, how), "transport %s handed out id %r" % (side, cid))
        if cid in live_before:
            self.fail("id-unique-among-live", "%s:%s" % (side, how), "transport %s handed out id %d while live ids are %r" % (side, cid, sorted(live_before)))
        if len(live_before) >= 3:
            self.nontrivial = True
            self.classes.append("alloc-with>=3-live")
        if self.hot[side]:
            self.nontrivial = True
            self.classes.append("alloc-after-wrap-or-jump")
            self.hot[side] = False
        self.live[side][cid] = chan

    def register(self, c, s, how):
        if c.remote_chanid != s.get_id() or s.remote_chanid != c.get_id():
            self.fail("peer-view-agrees", how, "client end id=%d remote=%d; server end id=%d remote=%d" % (c.get_id(), c.remote_chanid, s.get_id(), s.remote_chanid))
        self.pairs.append([c, s])

    def check_maps(self, how):
        for side in ("c", "s"):
            t = self.T[side]
            ctr = t._channel_counter
            if not (0 <= ctr < MAXID):
                self.fail("id-in-24-bit-space", "%s:counter" % side, "counter %r" % ctr)
            for cid, ch in self.live[side].items():
                got = t._channels.get(cid)
                if got is not ch:
                    self.fail("id-unique-among-live", "%s:%s:map-entry-replaced" % (side, how), "id %d of transport %s maps to %r, the live channel is %r" % (cid, side, got, ch))

    def wait(self, pred, what):
        end = time.time() + TO
        while not pred():
            if time.time() > end:
                raise peers.core.HarnessError("C23 harness: timeout waiting for %s" % what)
            time.sleep(0.001)

    def thread(self, fn):
        res = {}

        def body():
            try:
                res["v"] = fn()
            except Exception as e:
                res["e"] = e

        th = threading.Thread(target=body, daemon=True)
        th.start()
        return th, res

    def join(self, th, res, what):
        th.join(TO)
        if th.is_alive() or "v" not in res:
            raise peers.core.HarnessError("C23 harness: %s failed: alive=%s %r" % (what, th.is_alive(), res.get("e")))
        return res["v"]

    def accept(self, side, what):
        ch = self.T[side].accept(TO)
        if ch is None:
            raise peers.core.HarnessError("C23 harness: nothing to accept after %s" % what)
        return ch

    def mark_hot(self):
        for side in ("c", "s"):
            ctr = self.T[side]._channel_counter
            if ctr in self.live[side]:
                self.hot[side] = True

    # ------------------------------------------------------------------ operations
    def op_lopen(self, op):
        self.mark_hot()
        lc, ls = set(self.live["c"]), set(self.live["s"])
        before = self.tc._channel_counter, self.ts._channel_counter
        c = self.tc.open_session(timeout=TO)
        s = self.accept("s", "open_session")
        self._wrapped(before, c, s)
        self.new_id("c", c, "local-open", lc)
        self.new_id("s", s, "peer-open", ls)
        self.register(c, s, "local-open")
        self.classes.append("local-open")

    def _wrapped(self, before, c, s):
        if c.get_id() < before[0]:
            self.hot["c"] = True
        if s.get_id() < before[1]:
            self.hot["s"] = True

    def op_popen(self, op):
        self.mark_hot()
        lc, ls = set(self.live["c"]), set(self.live["s"])
        before = self.tc._channel_counter, self.ts._channel_counter
        s = self.ts.open_channel("forwarded-tcpip", ("", 4242), ("10.1.1.1", 40000), timeout=TO)
        c = self.accept("c", "open_forwarded_tcpip_channel")
        self._wrapped(before, c, s)
        self.new_id("s", s, "local-open", ls)
        self.new_id("c", c, "peer-open", lc)
        self.register(c, s, "peer-open")
        self.classes.append("peer-open")

    def _forget(self, pair):
        c, s = pair
        self.pairs.remove(pair)
        self.live["c"].pop(c.get_id(), None)
        self.live["s"].pop(s.get_id(), None)

    def op_close(self, op):
        pair = self.pairs[op["idx"] % len(self.pairs)]
        c, s = pair
        self._forget(pair)
        if op["side"] in ("c", "both"):
            c.close()
        if op["side"] in ("s", "both"):
            s.close()
        cid, sid = c.get_id(), s.get_id()
        self.wait(lambda: c.closed and s.closed and self.tc._channels.get(cid) is None and self.ts._channels.get(sid) is None, "both ends closed and unlinked")
        self.classes.append("close:" + op["side"])

    def op_drop(self, op):
        i = op["idx"] % len(self.pairs)
        pair = self.pairs[i]
        self._forget(pair)
        side = 0 if op["side"] == "c" else 1
        other = pair[1 - side]
        oid = other.get_id()
        ot = self.ts if side == 0 else self.tc
        mine_t = self.tc if side == 0 else self.ts
        mid = pair[side].get_id()
        pair[side] = None
        del pair
        gc.collect()
        self.wait(lambda: mine_t._channels.get(mid) is None and other.closed and ot._channels.get(oid) is None, "dropped channel collected and peer end closed")
        # the peer's CLOSE for the collected channel is still on its way (the weak ChannelMap released the id
        # at collection time); wait until it has been consumed, otherwise it would hit whichever channel
        # gets that id next - an id-reuse hazard of its own that is outside this property's statement
        if not self.link.wait_quiescent(TO):
            raise peers.core.HarnessError("C23 harness: link not quiescent after drop")
        self.classes.append("drop:" + op["side"])

    def op_jump(self, op):
        side = op["side"]
        t = self.T[side]
        ids = sorted(self.live[side])
        how = op["to"]
        if how in ("live", "below-live") and not ids:
            how = "max"
        if how == "max":
            v = MAXID - 1
        elif how == "max-1":
            v = MAXID - 2
        elif how == "max-2":
            v = MAXID - 3
        else:
            v = ids[op["pick"] % len(ids)]
            if how == "below-live":
                v = (v - 1) % MAXID
        with t.lock:
            t._channel_counter = v
        self.hot[side] = True
        self.classes.append("jump:" + how)

    def op_gated(self, op):
        """peer open (client open_session) held in the server's check_channel_request while the server
        opens a channel locally."""
        self.mark_hot()
        lc, ls = set(self.live["c"]), set(self.live["s"])
        before = self.tc._channel_counter, self.ts._channel_counter
        self.gate_in.clear()
        self.gate_go.clear()
        self.gate_on = True
        ta, ra = self.thread(lambda: self.tc.open_session(timeout=TO))
        if not self.gate_in.wait(TO):
            raise peers.core.HarnessError("C23 harness: gate not reached")
        n_sent = len(self.link.ba.sent)
        tb, rb = self.thread(lambda: self.ts.open_channel("forwarded-tcpip", ("", 4242), ("10.1.1.1", 40001), timeout=TO))
        if not self.link.ba.wait_sent(n_sent + 1, TO):
            raise peers.core.HarnessError("C23 harness: server-side open did not send CHANNEL_OPEN")
        self.gate_go.set()
        c_a = self.join(ta, ra, "gated open_session")
        s_b = self.join(tb, rb, "gated server open")
        s_a = self.accept("s", "gated open_session")
        c_b = self.accept("c", "gated server open")
        self._wrapped(before, c_a, s_a)
        self._wrapped(before, c_b, s_b)
        self.nontrivial = True
        # allocation order on the server: s_a (transport thread), then s_b; on the client: c_a, then c_b
        self.new_id("c", c_a, "local-open", lc)
        self.new_id("s", s_a, "gated-peer-open", ls)
        self.register(c_a, s_a, "gated")
        self.new_id("s", s_b, "local-open-during-gated-peer-open", set(self.live["s"]))
        self.new_id("c", c_b, "peer-open", set(self.live["c"]))
        self.register(c_b, s_b, "gated")
        self.classes.append("gated-race")

    def op_race(self, op):
        self.mark_hot()
        before = self.tc._channel_counter, self.ts._channel_counter
        go = threading.Event()

        def a():
            go.wait(TO)
            return self.tc.open_session(timeout=TO)

        def b():
            go.wait(TO)
            return self.ts.open_channel("forwarded-tcpip", ("", 4242), ("10.1.1.1", 40002), timeout=TO)

        ta, ra = self.thread(a)
        tb, rb = self.thread(b)
        go.set()
        c_a = self.join(ta, ra, "race open_session")
        s_b = self.join(tb, rb, "race server open")
        s_a = self.accept("s", "race open_session")
        c_b = self.accept("c", "race server open")
        self._wrapped(before, c_a, s_a)
        self._wrapped(before, c_b, s_b)
        # order of allocation unknown: check each new id against the old live set, then against each other
        lc, ls = set(self.live["c"]), set(self.live["s"])
        self.new_id("c", c_a, "race", lc)
        self.new_id("c", c_b, "race", set(self.live["c"]))
        self.new_id("s", s_a, "race", ls)
        self.new_id("s", s_b, "race", set(self.live["s"]))
        self.register(c_a, s_a, "race")
        self.register(c_b, s_b, "race")
        self.classes.append("free-race")


def run(ctx):
    ctx.set_budget(85, 780)
    ctx.assume("counter jump rule: moving _channel_counter stands for the 2^24 opens it would take to get there; every value is reachable with the modelled channels still open")

    class Machine(RuleBasedStateMachine):
        def __init__(self):
            RuleBasedStateMachine.__init__(self)
            self.s = None

        @initialize(cc=st.sampled_from(PRESETS), sc=st.sampled_from(PRESETS))
        def init(self, cc, sc):
            if ctx.out_of_time():
                return
            self.s = Sess(ctx, cc, sc)

        def _do(self, op):
            if self.s is None or self.s.dead:
                return
            try:
                self.s.do(op)
            except Stop:
                pass

        @precondition(lambda self: self.s is not None and len(self.s.pairs) < 8)
        @rule()
        def local_open(self):
            self._do({"op": "lopen"})

        @precondition(lambda self: self.s is not None and len(self.s.pairs) < 8)
        @rule()
        def peer_open(self):
            self._do({"op": "popen"})

        @precondition(lambda self: self.s is not None and self.s.pairs)
        @rule(idx=st.integers(0, 7), side=st.sampled_from(["c", "s", "both"]))
        def close(self, idx, side):
            self._do({"op": "close", "idx": idx, "side": side})

        @precondition(lambda self: self.s is not None and self.s.pairs)
        @rule(idx=st.integers(0, 7), side=st.sampled_from(["c", "s"]))
        def drop(self, idx, side):
            self._do({"op": "drop", "idx": idx, "side": side})

        @rule(side=st.sampled_from(["c", "s"]), to=st.sampled_from(["max", "max-1", "max-2", "live", "live", "below-live"]), pick=st.integers(0, 7))
        def jump(self, side, to, pick):
            self._do({"op": "jump", "side": side, "to": to, "pick": pick})

        @precondition(lambda self: self.s is not None and len(self.s.pairs) < 7)
        @rule()
        def gated(self):
            self._do({"op": "gated"})

        @precondition(lambda self: self.s is not None and len(self.s.pairs) < 7)
        @rule()
        def race(self):
            self._do({"op": "race"})

        def teardown(self):
            s = self.s
            if s is None:
                return
            try:
                ctx.case({"ops": s.ops}, s.nontrivial and not s.dead, sorted(set(s.classes)))
            finally:
                s.close()

    try:
        ctx.explore_machine(Machine, ctx.scale(70, 700), steps=40)
    except Exception as e:
        # Once the safety-net budget is exhausted the machine turns into a no-op, which hypothesis reports as
        # flaky data generation when it happens while a failing history is being shrunk/replayed. That says
        # nothing about paramiko: keep the (unshrunk) failure if there is one, else the run is inconclusive.
        import hypothesis.errors as HE

        if not (ctx.budget_hit and isinstance(e, HE.Flaky)):
            raise
        ctx.inconc("budget-hit-while-shrinking")
        if ctx._last_fail is not None and ctx._last_fail[0] not in ctx.unknown and ctx._last_fail[0] not in ctx.known_hits:
            ctx._record_unknown(*ctx._last_fail)


def replay(ctx, case):
    ops = case["ops"]
    s = Sess(ctx, ops[0]["cc"], ops[0]["sc"])
    try:
        for op in ops[1:]:
            try:
                s.do(op)
            except Stop:
                break
        ctx.case({"ops": s.ops}, s.nontrivial, sorted(set(s.classes)))
    finally:
        s.close()
