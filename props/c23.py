"""C23 - live channel ids are unique within a transport and fit in 24 bits.

Engine: two production transports (client + server, both under test: each allocates ids for the
channels it opens and for the channels its peer opens) on the in-memory link. A hypothesis
RuleBasedStateMachine generates histories of

  local open      client open_session (server side allocates an id for it, too)
  peer open       server open_forwarded_tcpip_channel after the client enabled port forwarding
  close           close() on the client end / server end / both; the harness waits until both ends are
                  closed and unlinked before the next step
  drop            drop the last reference without closing (ChannelMap is weak; __del__ closes)
  jump            counter wrap-around preset: `_channel_counter` of one side is moved (under the transport
                  lock) to 2^24-1, 2^24-2, 2^24-3 or onto / just below the id of a live channel. Any such value is a
                  state the counter reaches after enough opens while the listed channels stay open.
  gated race      a peer open (client open_session) is held inside the server application's
                  check_channel_request callback, i.e. after the transport thread took an id and before
                  the channel is registered; meanwhile another thread opens a channel locally on the
                  same transport. The interleaving is forced with events, not hoped for.
  free race       local and peer open released together from two threads.

Oracle: per transport the model keeps {id: Channel object} of channels that were opened and not yet
closed/dropped. Every id handed out is an int in [0, 2^24), is not in that set at allocation time,
both ends agree (remote_chanid of one end == chanid of the other), and afterwards every modelled
live channel is still the object registered under its id (nothing was overwritten).

Second engine ("pup"): ONE production transport (client or server role) against a raw puppet peer that answers nothing by
itself.  Rules: start a local open and leave it unanswered (up to 3 at a time) / answer one of them (confirmation or failure, in
any order, as late as the history likes) / peer open / close (local first, peer first) / counter jump (2^24-1, 2^24-2, onto or
just below the id of an established channel or of an UNANSWERED open) / stray OPEN_CONFIRMATION or OPEN_FAILURE naming the id of
an established channel or an id nobody is opening / data probe.  Oracle without the transport's private table: the harness'
own list of Channel OBJECTS handed out and not closed (get_id() distinct and unchanged) + the ids of the unanswered opens as
seen on the wire (CHANNEL_OPEN sender field): a new id (on the wire) is in 24 bits and in neither set; and data routing: bytes
the puppet addresses to the id of live channel A come out of A and of no other live channel (after every open, confirmation,
stray message and data rule).

Third engine ("sch", round 3): ONE real Transport that is never started, under the deterministic scheduler (vlib.sched).  The
transport-thread task dispatches inbound messages through the transport's own tables (peer CHANNEL_OPEN of every kind the role
accepts - client: forwarded-tcpip / x11 / auth-agent@openssh.com, i.e. the opens that go straight to one of the transport's
handlers; server: session / direct-tcpip -, OPEN_CONFIRMATION / OPEN_FAILURE for local opens, peer CLOSE), 1-2 application tasks
call open_channel() and Channel.close(); pre-state: 0-5 sequential peer opens / peer closes / counter jumps, counter preset
{0, 5, 2^24-3, 2^24-1}.  Switch points: operations of Transport.lock, of the channel table's lock, of the channels' locks, of the
events open_channel waits on, the send points and (trace = "alloc" | all) the source lines of the allocation / registration code
in transport.py.  Schedules: generated preemption lists (<=3 anywhere + <=2 placed at the n-th switch point INSIDE the id
allocation), and for 10 small programs (one peer open of each kind || one local open, fresh counter / counter moved onto live
ids) all schedules with <=1 preemption at line level and <=2 at lock level (thorough: <=2 with allocation lines, <=1 with all
lines).  Oracle on the wire: ids in the sender field of CHANNEL_OPEN / OPEN_CONFIRMATION, in send order, are in 24 bits and not
in use (an id is released when an operation starts closing its channel or the peer refuses the open); the Channel objects the
application holds are distinct objects with distinct ids; open_channel returns the id its CHANNEL_OPEN carried.

Round 4 dimensions (all three engines):
  * peer opens / local opens the OTHER side turns down.  Pair engine: rule "refused" - the client asks for a kind the server object
    refuses (the server transport takes an id first, then asks), or the server asks for an x11 channel the client has no handler
    for; nothing becomes live, the two sides' counters move out of step, every live channel must still be the object registered
    under its id.  Puppet engine: rule peer_open_refused (client role: "session" / x11 without handler / unknown kind; server role:
    kinds the server object refuses) - the answer must be OPEN_FAILURE and afterwards EVERY established channel is still
    reachable under its id (data routing).  Scheduler engine: op ("prefused", kind, peer id) in the pre-state and in the
    transport-thread task.
  * the PEER's ids are no longer kept apart from the local ones (puppet 500+, scheduler 700+): the sender id of a peer open (accepted
    or refused) and of an OPEN_CONFIRMATION is "fresh" | the value of a local id in use (established channel / unanswered open) |
    the value the local counter stands at (lockstep) | a value above 2^24 (the peer's ids are any uint32) - never a value the
    peer already uses for a live channel of its own.  Classes pup:peer-id-equals-*, pup:peer-id-above-24-bits,
    pup:peer-open-refused[-whose-sender-id-equals-a-local-id-in-use], refused-open:c|s, refused-open-sender-id-equals-live-local-id,
    sch:peer-open-refused, sch:peer-id-equals-local-id-in-use, sch:peer-id-above-24-bits.
"""
import contextlib
import gc
import threading
import time

from hypothesis import strategies as st
from hypothesis.stateful import RuleBasedStateMachine, initialize, precondition, rule

from vlib import peers

PROPERTY = "C23"
LEVEL = "exploration"
RULE = (
    "hypothesis RuleBasedStateMachine on a real client/server pair, both `_channel_counter`s preset from {0, 2^24-3, 2^24-1}: "
    "rules local open, peer open (forwarded-tcpip), close client end/server end/both, drop reference, counter jump (to 2^24-1, 2^24-2, "
    "onto or just below a live id), gated race (peer open held in check_channel_request while a local open runs on the same "
    "transport), free race (two threads); non-trivial = an allocation after the counter wrapped / was moved onto live ids, or >= 3 "
    "channels live at an allocation; distinct by the operation list. Second machine (one transport, client|server role, vs a raw puppet peer): rules start local "
    "open (left unanswered, <=3 pending), answer a pending open (confirm/failure, any order), peer open, close local-first/peer-first, counter jump (2^24-1, "
    "2^24-2, onto/below an established id, onto/below the id of an unanswered open), stray OPEN_CONFIRMATION/OPEN_FAILURE for an established or unused id, data "
    "probe; oracle on the harness' own live Channel objects + wire ids of unanswered opens + data routing (bytes sent to A's id come out of A only). "
    "Third family 'sch' (deterministic scheduler, one un-started real Transport, client|server role): pre-state (<=5 of peer open / peer close / counter jump, "
    "counter from {0,5,2^24-3,2^24-1}) x [transport-thread task: 1-3 of peer CHANNEL_OPEN (client: forwarded-tcpip, x11, auth-agent -> the transport's handlers; "
    "server: session, direct-tcpip) / answer a local open (confirm|refuse) / peer CLOSE, then answers everything outstanding || 1-2 application tasks: 1-3 of "
    "open_channel / close] x generated preemption list (<=3 + <=2 aimed inside _next_channel / the table lookup) x switch points {locks, locks + allocation lines, "
    "locks + all lines of the open/registration code} x open_channel poll {timed, until-set}; plus ALL schedules with <=1 preemption (line level) and <=2 "
    "(lock level) of 10 programs 'one peer open of kind k || one local open'; oracle: ids on the wire (CHANNEL_OPEN / OPEN_CONFIRMATION sender), in send order, in "
    "24 bits and not in use + the application's Channel objects distinct; non-trivial there = a task was preempted inside the id allocation, or an allocation "
    "after a jump/wrap; classes sch:*. Round 4, all engines: opens the other side REFUSES (pair: rule refused c|s; puppet: rule peer_open_refused - kinds without handler / "
    "kinds the server object turns down - followed by a data probe of every established channel; sch: op prefused in pre-state and transport task) and the peer's sender "
    "ids drawn from {fresh, value of a local id in use (established / unanswered), value of the local counter, above 2^24} for peer opens, refused peer opens and OPEN_CONFIRMATIONs"
)

TO = 15.0
MAXID = 1 << 24
PRESETS = [0, MAXID - 3, MAXID - 1]


class Stop(Exception):
    pass


class Sess:
    def __init__(self, ctx, cc, sc):
        self.ctx = ctx
        self.ops = [{"op": "init", "cc": cc, "sc": sc}]
        self.gate_on = False
        self.gate_in = threading.Event()
        self.gate_go = threading.Event()
        srv = peers.OpenServer()
        srv.policy["check_channel_request"] = self._check_channel_request
        self.link, self.tc, self.ts, self.srv = peers.connected_pair(server_obj=srv)
        self.T = {"c": self.tc, "s": self.ts}
        self.tc._channel_counter = cc
        self.ts._channel_counter = sc
        self.tc.request_port_forward("", 0)  # enables forwarded-tcpip; accepted channels go to tc.accept()
        self.live = {"c": {}, "s": {}}
        self.pairs = []  # [c_chan, s_chan]
        self.nontrivial = False
        self.classes = []
        self.dead = False
        self.hot = {"c": False, "s": False}  # the next allocation on that side meets occupied ids / a wrap

    def _check_channel_request(self, kind, chanid):
        if self.gate_on:
            self.gate_on = False
            self.gate_in.set()
            self.gate_go.wait(TO)
        # every history opens "session" channels; any other kind the client asks for is turned down (rule "refused")
        return peers.OPEN_SUCCEEDED if kind == "session" else peers.OPEN_FAILED_ADMINISTRATIVELY_PROHIBITED

    def close(self):
        self.gate_go.set()
        self.pairs = []
        self.live = {"c": {}, "s": {}}
        peers.shutdown(self.tc, self.ts)

    def fail(self, clause, bucket, detail):
        self.dead = True
        self.ctx.violation(clause, bucket, {"ops": self.ops}, detail)
        raise Stop()

    def do(self, op):
        if self.dead:
            return
        if op["op"] in ("close", "drop") and not self.pairs:
            return
        self.ops.append(op)
        getattr(self, "op_" + op["op"])(op)
        self.check_maps(op["op"])

    # ------------------------------------------------------------------ oracle pieces
    def new_id(self, side, chan, how, live_before):
        cid = chan.get_id()
        if not isinstance(cid, int) or not (0 <= cid < MAXID):
            self.fail("id-in-24-bit-space", "%s:%s" % (side, how), "transport %s handed out id %r" % (side, cid))
        if cid in live_before:
            self.fail("id-unique-among-live", "%s:%s" % (side, how), "transport %s handed out id %d while live ids are %r" % (side, cid, sorted(live_before)))
        if len(live_before) >= 3:
            self.nontrivial = True
            self.classes.append("alloc-with>=3-live")
        if self.hot[side]:
            self.nontrivial = True
            self.classes.append("alloc-after-wrap-or-jump")
            self.hot[side] = False
        self.live[side][cid] = chan

    def register(self, c, s, how):
        if c.remote_chanid != s.get_id() or s.remote_chanid != c.get_id():
            self.fail("peer-view-agrees", how, "client end id=%d remote=%d; server end id=%d remote=%d" % (c.get_id(), c.remote_chanid, s.get_id(), s.remote_chanid))
        self.pairs.append([c, s])

    def check_maps(self, how):
        for side in ("c", "s"):
            t = self.T[side]
            ctr = t._channel_counter
            if not (0 <= ctr < MAXID):
                self.fail("id-in-24-bit-space", "%s:counter" % side, "counter %r" % ctr)
            for cid, ch in self.live[side].items():
                got = t._channels.get(cid)
                if got is not ch:
                    self.fail("id-unique-among-live", "%s:%s:map-entry-replaced" % (side, how), "id %d of transport %s maps to %r, the live channel is %r" % (cid, side, got, ch))

    def wait(self, pred, what):
        end = time.time() + TO
        while not pred():
            if time.time() > end:
                raise peers.core.HarnessError("C23 harness: timeout waiting for %s" % what)
            time.sleep(0.001)

    def thread(self, fn):
        res = {}

        def body():
            try:
                res["v"] = fn()
            except Exception as e:
                res["e"] = e

        th = threading.Thread(target=body, daemon=True)
        th.start()
        return th, res

    def join(self, th, res, what):
        th.join(TO)
        if th.is_alive() or "v" not in res:
            raise peers.core.HarnessError("C23 harness: %s failed: alive=%s %r" % (what, th.is_alive(), res.get("e")))
        return res["v"]

    def accept(self, side, what):
        ch = self.T[side].accept(TO)
        if ch is None:
            raise peers.core.HarnessError("C23 harness: nothing to accept after %s" % what)
        return ch

    def mark_hot(self):
        for side in ("c", "s"):
            ctr = self.T[side]._channel_counter
            if ctr in self.live[side]:
                self.hot[side] = True

    # ------------------------------------------------------------------ operations
    def op_lopen(self, op):
        self.mark_hot()
        lc, ls = set(self.live["c"]), set(self.live["s"])
        before = self.tc._channel_counter, self.ts._channel_counter
        c = self.tc.open_session(timeout=TO)
        s = self.accept("s", "open_session")
        self._wrapped(before, c, s)
        self.new_id("c", c, "local-open", lc)
        self.new_id("s", s, "peer-open", ls)
        self.register(c, s, "local-open")
        self.classes.append("local-open")

    def _wrapped(self, before, c, s):
        if c.get_id() < before[0]:
            self.hot["c"] = True
        if s.get_id() < before[1]:
            self.hot["s"] = True

    def op_popen(self, op):
        self.mark_hot()
        lc, ls = set(self.live["c"]), set(self.live["s"])
        before = self.tc._channel_counter, self.ts._channel_counter
        s = self.ts.open_channel("forwarded-tcpip", ("", 4242), ("10.1.1.1", 40000), timeout=TO)
        c = self.accept("c", "open_forwarded_tcpip_channel")
        self._wrapped(before, c, s)
        self.new_id("s", s, "local-open", ls)
        self.new_id("c", c, "peer-open", lc)
        self.register(c, s, "peer-open")
        self.classes.append("peer-open")

    def op_refused(self, op):
        """An open the OTHER side turns down: side "c" - the client asks for a channel kind the server object refuses (the server
        transport took an id for it before asking); side "s" - the server asks for an x11 channel, for which this client has no
        handler.  Nothing becomes live; every live channel must stay what and where it was (check_maps), and the ids the two
        sides burnt move their counters out of step."""
        import paramiko

        side = op["side"]
        req = side
        oth = "s" if side == "c" else "c"
        self.mark_hot()
        # the sender id the refusing side will see: first id free on the requesting side from its counter on (label only)
        v = self.T[req]._channel_counter
        for _ in range(len(self.live[req]) + 1):
            if v not in self.live[req]:
                break
            v = (v + 1) % MAXID
        try:
            if side == "c":
                ch = self.tc.open_channel("refused@verif", timeout=TO)
            else:
                ch = self.ts.open_channel("x11", src_addr=("10.1.1.1", 6010), timeout=TO)
        except paramiko.ChannelException:
            ch = None
        if ch is not None:
            raise peers.core.HarnessError("C23 harness: open of a kind the other side refuses succeeded: %r" % (ch,))
        if not self.link.wait_quiescent(TO):
            raise peers.core.HarnessError("C23 harness: link not quiescent after refused open")
        self.classes.append("refused-open:" + side)
        if v in self.live[oth]:
            self.nontrivial = True
            self.classes.append("refused-open-sender-id-equals-live-local-id")

    def _forget(self, pair):
        c, s = pair
        self.pairs.remove(pair)
        self.live["c"].pop(c.get_id(), None)
        self.live["s"].pop(s.get_id(), None)

    def op_close(self, op):
        pair = self.pairs[op["idx"] % len(self.pairs)]
        c, s = pair
        self._forget(pair)
        if op["side"] in ("c", "both"):
            c.close()
        if op["side"] in ("s", "both"):
            s.close()
        cid, sid = c.get_id(), s.get_id()
        self.wait(lambda: c.closed and s.closed and self.tc._channels.get(cid) is None and self.ts._channels.get(sid) is None, "both ends closed and unlinked")
        self.classes.append("close:" + op["side"])

    def op_drop(self, op):
        i = op["idx"] % len(self.pairs)
        pair = self.pairs[i]
        self._forget(pair)
        side = 0 if op["side"] == "c" else 1
        other = pair[1 - side]
        oid = other.get_id()
        ot = self.ts if side == 0 else self.tc
        mine_t = self.tc if side == 0 else self.ts
        mid = pair[side].get_id()
        pair[side] = None
        del pair
        gc.collect()
        self.wait(lambda: mine_t._channels.get(mid) is None and other.closed and ot._channels.get(oid) is None, "dropped channel collected and peer end closed")
        # the peer's CLOSE for the collected channel is still on its way (the weak ChannelMap released the id
        # at collection time); wait until it has been consumed, otherwise it would hit whichever channel
        # gets that id next - an id-reuse hazard of its own that is outside this property's statement
        if not self.link.wait_quiescent(TO):
            raise peers.core.HarnessError("C23 harness: link not quiescent after drop")
        self.classes.append("drop:" + op["side"])

    def op_jump(self, op):
        side = op["side"]
        t = self.T[side]
        ids = sorted(self.live[side])
        how = op["to"]
        if how in ("live", "below-live") and not ids:
            how = "max"
        if how == "max":
            v = MAXID - 1
        elif how == "max-1":
            v = MAXID - 2
        elif how == "max-2":
            v = MAXID - 3
        else:
            v = ids[op["pick"] % len(ids)]
            if how == "below-live":
                v = (v - 1) % MAXID
        with t.lock:
            t._channel_counter = v
        self.hot[side] = True
        self.classes.append("jump:" + how)

    def op_gated(self, op):
        """peer open (client open_session) held in the server's check_channel_request while the server
        opens a channel locally."""
        self.mark_hot()
        lc, ls = set(self.live["c"]), set(self.live["s"])
        before = self.tc._channel_counter, self.ts._channel_counter
        self.gate_in.clear()
        self.gate_go.clear()
        self.gate_on = True
        ta, ra = self.thread(lambda: self.tc.open_session(timeout=TO))
        if not self.gate_in.wait(TO):
            raise peers.core.HarnessError("C23 harness: gate not reached")
        n_sent = len(self.link.ba.sent)
        tb, rb = self.thread(lambda: self.ts.open_channel("forwarded-tcpip", ("", 4242), ("10.1.1.1", 40001), timeout=TO))
        if not self.link.ba.wait_sent(n_sent + 1, TO):
            raise peers.core.HarnessError("C23 harness: server-side open did not send CHANNEL_OPEN")
        self.gate_go.set()
        c_a = self.join(ta, ra, "gated open_session")
        s_b = self.join(tb, rb, "gated server open")
        s_a = self.accept("s", "gated open_session")
        c_b = self.accept("c", "gated server open")
        self._wrapped(before, c_a, s_a)
        self._wrapped(before, c_b, s_b)
        self.nontrivial = True
        # allocation order on the server: s_a (transport thread), then s_b; on the client: c_a, then c_b
        self.new_id("c", c_a, "local-open", lc)
        self.new_id("s", s_a, "gated-peer-open", ls)
        self.register(c_a, s_a, "gated")
        self.new_id("s", s_b, "local-open-during-gated-peer-open", set(self.live["s"]))
        self.new_id("c", c_b, "peer-open", set(self.live["c"]))
        self.register(c_b, s_b, "gated")
        self.classes.append("gated-race")

    def op_race(self, op):
        self.mark_hot()
        before = self.tc._channel_counter, self.ts._channel_counter
        go = threading.Event()

        def a():
            go.wait(TO)
            return self.tc.open_session(timeout=TO)

        def b():
            go.wait(TO)
            return self.ts.open_channel("forwarded-tcpip", ("", 4242), ("10.1.1.1", 40002), timeout=TO)

        ta, ra = self.thread(a)
        tb, rb = self.thread(b)
        go.set()
        c_a = self.join(ta, ra, "race open_session")
        s_b = self.join(tb, rb, "race server open")
        s_a = self.accept("s", "race open_session")
        c_b = self.accept("c", "race server open")
        self._wrapped(before, c_a, s_a)
        self._wrapped(before, c_b, s_b)
        # order of allocation unknown: check each new id against the old live set, then against each other
        lc, ls = set(self.live["c"]), set(self.live["s"])
        self.new_id("c", c_a, "race", lc)
        self.new_id("c", c_b, "race", set(self.live["c"]))
        self.new_id("s", s_a, "race", ls)
        self.new_id("s", s_b, "race", set(self.live["s"]))
        self.register(c_a, s_a, "race")
        self.register(c_b, s_b, "race")
        self.classes.append("free-race")


# ----------------------------------------------------------------------------- puppet-peer family
#
# One production transport (client or server role) against a raw puppet peer: the puppet answers nothing by itself, so the
# harness decides WHEN a local open is answered (opens stay unanswered while other opens, closes and counter wrap-arounds
# happen), and it can send what a confused peer sends: OPEN_CONFIRMATION / OPEN_FAILURE naming ids of established channels
# or ids nobody asked for.  The oracle does not look into the transport's channel table at all: it keeps its own list of the
# Channel OBJECTS that were handed out and not closed (get_id(), closed) plus the ids of the unanswered opens as seen on
# the wire, and it watches where data goes: bytes the puppet addresses to the id of live channel A must come out of A.

SENTINEL_TYPE = 193


class PupSess:
    MAX_LIVE = 6
    MAX_PENDING = 3

    def __init__(self, ctx, role, ctr):
        from vlib import refssh as R

        self.R = R
        self.ctx = ctx
        self.role = role
        self.ops = [{"op": "init", "fam": "pup", "role": role, "ctr": ctr}]
        if role == "client":
            self.link, tc, ts, _ = peers.connected_pair(client_cls=peers.VTransport, server_cls=peers.Puppet)
            self.tested, self.puppet = tc, ts
        else:
            srv = peers.OpenServer()
            # the tested server's application accepts "session" channels and turns every other kind down
            srv.policy["check_channel_request"] = lambda kind, chanid: peers.OPEN_SUCCEEDED if kind == "session" else peers.OPEN_FAILED_ADMINISTRATIVELY_PROHIBITED
            self.link, tc, ts, _ = peers.connected_pair(client_cls=peers.Puppet, server_cls=peers.VTransport, server_obj=srv)
            self.tested, self.puppet = ts, tc
        self.puppet.raw()
        self.seen = 0
        self.live = []  # dict(ch=Channel, id=local id, pid=puppet id)
        self.pending = []  # dict(th, res, id)
        self.next_pid = 500
        self.salt = 0
        self.nontrivial = False
        self.classes = []
        self.dead = False
        self.hot = False
        with self.tested.lock:
            self.tested._channel_counter = ctr
        if role == "client":
            th, res = self.thread(lambda: self.tested.request_port_forward("", 0))
            self.wait_msg(lambda e: e[1] == 80, "tcpip-forward request")
            self.puppet.send_raw_seq(peers.m_request_success(R.u32(4242)))
            th.join(TO)
            if "v" not in res:
                raise peers.core.HarnessError("C23 harness: request_port_forward failed %r" % (res.get("e"),))
        self.sync()

    # ------------------------------------------------------------------ plumbing
    def close(self):
        peers.shutdown(self.tested, self.puppet)
        for p in self.pending:
            p["th"].join(TO)
        self.live = []
        self.pending = []

    def fail(self, clause, bucket, detail):
        self.dead = True
        self.ctx.violation(clause, bucket, {"ops": self.ops}, detail)
        raise Stop()

    def thread(self, fn):
        res = {}

        def body():
            try:
                res["v"] = fn()
            except Exception as e:
                res["e"] = e

        th = threading.Thread(target=body, daemon=True)
        th.start()
        return th, res

    def wait_msg(self, pred, what):
        start = self.seen

        def got(lg):
            for i in range(start, len(lg)):
                if pred(lg[i]):
                    return i + 1
            return None

        r = self.puppet.wait_log(got, timeout=TO)
        if not r:
            raise peers.core.HarnessError("C23 harness: tested side never sent %s" % what)
        return self.puppet.log[r - 1]

    def sync(self):
        s = self.puppet.send_raw_seq(bytes([SENTINEL_TYPE]) + b"verif")
        echo = self.R.u32(s)
        start = self.seen

        def got(lg):
            for i in range(start, len(lg)):
                if lg[i][1] == 3 and lg[i][2] == echo:
                    return i + 1
            return None

        r = self.puppet.wait_log(got, timeout=TO)
        if not r:
            raise peers.core.HarnessError("C23 harness: no sentinel echo (active=%s exc=%r)" % (self.tested.is_active(), self.tested.get_exception()))
        new = list(self.puppet.log)[start : r - 1]
        self.seen = r
        return new

    def ids_in_use(self):
        return [c["id"] for c in self.live] + [p["id"] for p in self.pending]

    def new_id(self, cid, how):
        if not isinstance(cid, int) or not (0 <= cid < MAXID):
            self.fail("id-in-24-bit-space", "pup:%s" % how, "tested transport used id %r" % (cid,))
        live = [c["id"] for c in self.live]
        pend = [p["id"] for p in self.pending]
        if cid in live:
            self.fail("id-unique-among-live", "pup:%s:id-of-established-channel" % how, "id %d assigned while established channels %r (unanswered opens %r) are in use" % (cid, sorted(live), sorted(pend)))
        if cid in pend:
            self.fail("id-unique-among-live", "pup:%s:id-of-unanswered-open" % how, "id %d assigned while it belongs to an open still waiting for the peer's answer (unanswered %r, established %r)" % (cid, sorted(pend), sorted(live)))
        if len(live) + len(pend) >= 3:
            self.nontrivial = True
            self.classes.append("pup:alloc-with>=3-in-use")
        if pend:
            self.classes.append("pup:alloc-while-an-open-is-unanswered")
        if self.hot:
            self.nontrivial = True
            self.classes.append("pup:alloc-after-wrap-or-jump")
            if pend:
                self.classes.append("pup:alloc-after-wrap-or-jump-while-an-open-is-unanswered")
            self.hot = False

    def invariant(self, how):
        """The harness' own live OBJECTS: distinct ids, still open."""
        for c in list(self.live):
            if c["ch"].closed:
                # closed by the transport itself (not by an operation of this history): its id is free again
                self.live.remove(c)
                self.classes.append("pup:live-channel-closed-by-transport")
        seen = {}
        for c in self.live:
            i = c["ch"].get_id()
            if i != c["id"]:
                self.fail("id-unique-among-live", "pup:%s:id-of-live-object-changed" % how, "channel handed out with id %d now reports %r" % (c["id"], i))
            if i in seen:
                self.fail("id-unique-among-live", "pup:%s:two-live-objects-one-id" % how, "two open Channel objects report id %d" % i)
            seen[i] = c

    def route(self, c, how):
        """Bytes addressed to live channel c's id come out of c and of nobody else."""
        self.salt = (self.salt + 1) % 250
        data = bytes([self.salt + 1, c["id"] & 0xFF, 0x5A]) * 3
        self.puppet.send_raw_seq(peers.m_channel_data(c["id"], data))
        self.sync()
        got = {}
        for o in self.live:
            o["ch"].settimeout(0.0)
            if o["ch"].recv_ready():
                got[id(o)] = o["ch"].recv(4096)
        mine = got.pop(id(c), b"")
        if got:
            other = [o for o in self.live if id(o) in got][0]
            self.fail("id-unique-among-live", "pup:%s:data-for-one-channel-delivered-to-another" % how, "bytes sent to id %d (channel handed out as %r) came out of %r (id %d)" % (c["id"], c["ch"], other["ch"], other["id"]))
        if mine != data:
            self.fail("id-unique-among-live", "pup:%s:live-channel-no-longer-reachable-under-its-id" % how, "bytes sent to id %d did not come out of the open channel that owns it (got %r)" % (c["id"], mine))
        self.classes.append("pup:data-routed")

    # ------------------------------------------------------------------ operations
    def runnable(self, op):
        k = op["op"]
        if k == "start":
            return len(self.pending) < self.MAX_PENDING and len(self.live) + len(self.pending) < self.MAX_LIVE
        if k == "answer":
            return bool(self.pending)
        if k == "popen":
            return len(self.live) + len(self.pending) < self.MAX_LIVE
        if k in ("close", "pclose", "data"):
            return bool(self.live)
        if k == "stray":
            return True
        return True

    def do(self, op):
        if self.dead or not self.runnable(op):
            return
        self.ops.append(op)
        getattr(self, "op_" + op["op"])(op)
        self.invariant(op["op"])

    def mark_hot(self):
        if self.tested._channel_counter in self.ids_in_use():
            self.hot = True

    def op_start(self, op):
        self.mark_hot()
        before = self.tested._channel_counter
        if self.role == "client":
            th, res = self.thread(lambda: self.tested.open_session(timeout=TO))
        else:
            th, res = self.thread(lambda: self.tested.open_channel("forwarded-tcpip", ("", 4242), ("10.1.1.1", 40000), timeout=TO))
        e = self.wait_msg(lambda e: e[1] == 90, "CHANNEL_OPEN")
        rd = self.R.Reader(e[2])
        rd.string()
        cid = rd.u32()
        if cid < before:
            self.hot = True
        self.new_id(cid, "local-open")
        self.pending.append(dict(th=th, res=res, id=cid))
        self.classes.append("pup:local-open-started")
        self.sync()

    def pick_pid(self, op):
        """The id the PEER uses for its end of a channel (sender field of its CHANNEL_OPEN / OPEN_CONFIRMATION).  The two sides
        number their channels independently, from the same small integers: "fresh" = a value no local id ever has here (500+);
        "local" = the value of the local id of an established channel / of an unanswered open; "counter" = the value the tested
        side's counter stands at (two sides counting in lockstep); "high" = a value above 2^24 (the peer's ids are any uint32;
        only OUR ids are confined to 24 bits).  A peer never uses one of its ids for two live channels."""
        how = op.get("pid") or "fresh"
        pid = None
        if how == "local":
            pool = self.ids_in_use()
            if pool:
                pid = pool[op.get("pidx", 0) % len(pool)]
        elif how == "counter":
            pid = getattr(self.tested, "_channel_counter", None)
        elif how == "high":
            pid = 0xFFFFFF00 + (self.next_pid % 200)
            self.next_pid += 1
            if not any(c["pid"] == pid for c in self.live):
                self.classes.append("pup:peer-id-above-24-bits")
                return pid
        if pid is None or any(c["pid"] == pid for c in self.live):
            pid = self.next_pid
            self.next_pid += 1
            return pid
        if pid in [c["id"] for c in self.live]:
            self.classes.append("pup:peer-id-equals-id-of-established-local-channel")
        elif pid in [p["id"] for p in self.pending]:
            self.classes.append("pup:peer-id-equals-id-of-unanswered-local-open")
        else:
            self.classes.append("pup:peer-id-equals-local-counter")
        return pid

    def op_answer(self, op):
        p = self.pending.pop(op["idx"] % len(self.pending))
        if op["ok"]:
            pid = self.pick_pid(op)
            self.puppet.send_raw_seq(peers.m_channel_open_confirm(p["id"], pid))
        else:
            self.puppet.send_raw_seq(peers.m_channel_open_failure(p["id"]))
        p["th"].join(TO)
        if p["th"].is_alive():
            raise peers.core.HarnessError("C23 harness: answered open did not return")
        self.sync()
        if op["ok"]:
            ch = p["res"].get("v")
            if ch is None:
                self.fail("id-unique-among-live", "pup:confirmed-open-lost", "open with id %d was confirmed by the peer but open_channel raised %r (somebody else holds its id?)" % (p["id"], p["res"].get("e")))
            if ch.get_id() != p["id"]:
                self.fail("id-unique-among-live", "pup:confirmed-open-other-id", "CHANNEL_OPEN carried id %d, the Channel returned reports %r" % (p["id"], ch.get_id()))
            c = dict(ch=ch, id=p["id"], pid=pid)
            self.live.append(c)
            self.classes.append("pup:open-confirmed-late" if op.get("late") else "pup:open-confirmed")
            self.route(c, "after-confirm")
        else:
            self.classes.append("pup:open-refused")

    REFUSED_KINDS = {"client": [b"session", b"x11", b"unknown@verif"], "server": [b"refused@verif", b"x11"]}

    def op_popen(self, op):
        self.mark_hot()
        before = self.tested._channel_counter
        pid = self.pick_pid(op)
        refuse = bool(op.get("refuse"))
        R = self.R
        if refuse:
            # a kind this side turns down: client role - kinds without a handler on this transport ("session", x11 without an x11
            # handler, an unknown kind); server role - kinds the server object refuses (it is asked AFTER an id was taken)
            kinds = self.REFUSED_KINDS[self.role]
            kind = kinds[op.get("kind", 0) % len(kinds)]
            rest = R.string(b"10.9.8.7") + R.u32(6010) if kind == b"x11" else b""
            self.puppet.send_raw_seq(peers.m_channel_open(kind, pid, rest=rest))
        elif self.role == "client":
            rest = R.string(b"") + R.u32(4242) + R.string(b"10.9.8.7") + R.u32(4711)
            self.puppet.send_raw_seq(peers.m_channel_open(b"forwarded-tcpip", pid, rest=rest))
        else:
            self.puppet.send_raw_seq(peers.m_channel_open(b"session", pid))
        new = self.sync()
        rep = [e for e in new if e[1] in (91, 92) and e[2][:4] == R.u32(pid)]
        if len(rep) != 1 or (rep[0][1] != 91 and not refuse):
            raise peers.core.HarnessError("C23 harness: peer open not confirmed: %r" % ([(e[1], e[2][:12].hex()) for e in new],))
        if rep[0][1] == 92:
            # turned down: no channel came into being, and every established channel is still reachable under its id
            self.classes.append("pup:peer-open-refused")
            if pid in self.ids_in_use():
                self.nontrivial = True
                self.classes.append("pup:peer-open-refused-whose-sender-id-equals-a-local-id-in-use")
            for c in list(self.live):
                self.route(c, "after-refused-peer-open")
            return
        rd = R.Reader(rep[0][2])
        rd.u32()
        cid = rd.u32()
        if cid < before:
            self.hot = True
        self.new_id(cid, "peer-open")
        ch = self.tested.accept(TO)
        if ch is None:
            raise peers.core.HarnessError("C23 harness: accept() returned nothing")
        if ch.get_id() != cid:
            self.fail("id-unique-among-live", "pup:peer-open-other-id", "OPEN_CONFIRMATION carried id %d, the accepted Channel reports %r" % (cid, ch.get_id()))
        c = dict(ch=ch, id=cid, pid=pid)
        self.live.append(c)
        self.classes.append("pup:peer-open")
        self.route(c, "after-peer-open")

    def op_close(self, op):
        c = self.live.pop(op["idx"] % len(self.live))
        c["ch"].close()
        self.wait_msg(lambda e: e[1] == 97 and e[2][:4] == self.R.u32(c["pid"]), "CHANNEL_CLOSE")
        self.puppet.send_raw_seq(peers.m_channel_close(c["id"]))
        self.sync()
        self.classes.append("pup:close-local-first")

    def op_pclose(self, op):
        c = self.live.pop(op["idx"] % len(self.live))
        self.puppet.send_raw_seq(peers.m_channel_close(c["id"]))
        self.wait_msg(lambda e: e[1] == 97 and e[2][:4] == self.R.u32(c["pid"]), "CHANNEL_CLOSE reply")
        self.sync()
        self.classes.append("pup:close-peer-first")

    def op_data(self, op):
        self.route(self.live[op["idx"] % len(self.live)], "data")

    def op_jump(self, op):
        how = op["to"]
        live = sorted(c["id"] for c in self.live)
        pend = sorted(p["id"] for p in self.pending)
        pool = pend if how.endswith("pending") else live
        if how not in ("max", "max-1") and not pool:
            how = "max"
        if how == "max":
            v = MAXID - 1
        elif how == "max-1":
            v = MAXID - 2
        else:
            v = pool[op["pick"] % len(pool)]
            if how.startswith("below"):
                v = (v - 1) % MAXID
        with self.tested.lock:
            self.tested._channel_counter = v
        self.hot = True
        self.classes.append("pup:jump:" + how)

    def op_stray(self, op):
        """What a confused peer sends: OPEN_CONFIRMATION / OPEN_FAILURE for the id of an ESTABLISHED channel or for an id nobody
        is opening.  (For an unanswered open these messages are the answer: rule "answer".)"""
        if op["target"] == "live" and self.live:
            c = self.live[op["idx"] % len(self.live)]
            cid, pid, what = c["id"], c["pid"], "established"
        else:
            used = set(self.ids_in_use())
            cid = next(i for i in ((self.tested._channel_counter + op["idx"]) % MAXID, 77777, 77778, 77779, 77780, 77781, 77782, 77783) if i not in used)
            pid, what, c = 499, "unused", None
        if op["kind"] == "confirm":
            self.puppet.send_raw_seq(peers.m_channel_open_confirm(cid, pid))
        else:
            self.puppet.send_raw_seq(peers.m_channel_open_failure(cid))
        self.sync()
        self.classes.append("pup:stray-open-%s-for-%s-id" % (op["kind"], what))
        if c is not None:
            self.route(c, "after-stray-open-%s" % op["kind"])


# ----------------------------------------------------------------------------- scheduler family
#
# The two families above run production transports on real threads: an interleaving of a PEER-opened channel with a local
# open_channel() is only forced where the application gets a callback in between (check_channel_request, server mode).  The
# peer opens that go straight to one of the transport's own handlers (client side: forwarded-tcpip -> port-forward handler,
# x11 -> x11 handler, auth-agent@openssh.com -> agent handler) offer no such hook, and the window inside the id allocation is
# a few bytecodes wide.  This family owns the schedule instead (vlib.sched): ONE real Transport that is never started; what
# its thread would do with an inbound message (dispatch through Transport._handler_table / _channel_handler_table, as
# Transport.run does) is one task, application threads calling open_channel() / Channel.close() are the other tasks.  The
# transport's locks (Transport.lock, the channel table's lock, the accept condition) and the Events open_channel() waits on are
# cooperative; switch points = their operations, the send points and (optionally) every source line of the allocation /
# registration code in transport.py.  Schedules: generated preemption lists, and for small programs ALL schedules with <= 1
# preemption.
#
# Oracle on the wire only: every id the transport hands out appears as the sender field of a CHANNEL_OPEN (local open) or of
# a CHANNEL_OPEN_CONFIRMATION (peer open).  In send order, a new id must be in 24 bits and must not be in the set of ids in
# use; an id leaves that set when an operation of the history starts closing its channel or the peer refuses the open.  Plus:
# the Channel objects the application got (from open_channel, from the handlers) and did not close are distinct objects with
# distinct get_id(), and open_channel returns a channel with the id its CHANNEL_OPEN carried.

from vlib import sched as S  # noqa: E402

SCH_TO = 3.0
SCH_TRACED = {"_next_channel", "open_channel", "_parse_channel_open", "_parse_channel_open_success", "_parse_channel_open_failure", "_unlink_channel", "get", "put", "delete", "_queue_incoming_channel"}
SCH_TRACED_ALLOC = {"_next_channel", "get", "put"}  # trace == "alloc": line-level switch points in the allocation / table code only
SCH_PEER_KINDS = {"client": ["forwarded-tcpip", "x11", "auth-agent@openssh.com"], "server": ["session", "direct-tcpip"]}
SCH_LOCAL_KINDS = {"client": ["session", "direct-tcpip"], "server": ["forwarded-tcpip", "x11"]}
# peer opens this side turns down: client - kinds without a handler on the transport; server - kinds the server object refuses
# (after the transport took an id for the channel)
SCH_REFUSED_KINDS = {"client": ["session", "unknown@verif"], "server": ["refused@verif", "x11"]}


def sch_hot(tag):
    """Yield points inside the id allocation: lines of _next_channel / of the table lookup, operations of the table's lock."""
    if tag[0] == "line":
        return tag[2] in ("_next_channel", "get")
    return tag[0] in ("acquire", "release") and "channels" in str(tag[1])


class _ThreadingShim:
    """``threading`` for paramiko.transport while a case runs: Event() gives a cooperative event (open_channel / global_request
    wait on one with a 0.1 s poll), everything else is the real module."""

    def __init__(self, sched, poll=True):
        self._s = sched
        self._poll = poll

    def __getattr__(self, name):
        return getattr(threading, name)

    def Event(self):
        ev = self._s.Event("transport-event")
        if not self._poll:
            # poll == False: the 0.1 s poll of open_channel never wakes up by itself (such a wake-up only re-checks `active`
            # and the deadline and waits again); opens then never time out, and an enumeration does not branch on every poll
            real_wait = ev.wait
            ev.wait = lambda timeout=None: real_wait(None)
        return ev


class _ChanThreadingShim:
    """``threading`` for paramiko.channel while a case runs: the locks / conditions / events of the Channels the transport creates
    are cooperative (Channel._handle_close holds the channel lock across Transport._unlink_channel, a switch point)."""

    def __init__(self, sched):
        self._s = sched
        self._n = 0

    def __getattr__(self, name):
        return getattr(threading, name)

    def Lock(self):
        self._n += 1
        return self._s.Lock("chan%d.lock" % self._n)

    def Condition(self, lock=None):
        return self._s.Condition(lock, "chan%d.cv" % self._n)

    def Event(self):
        return self._s.Event("chan%d.event" % self._n)


@contextlib.contextmanager
def _sch_patched(bench):
    import paramiko.channel as PC

    PT = bench.PT
    saved = PT.threading, PC.threading
    PT.threading = _ThreadingShim(bench.s, bench.case.get("poll", True))
    PC.threading = bench.chan_shim
    try:
        yield
    finally:
        PT.threading, PC.threading = saved


class SchBench:
    def __init__(self, case, strategy):
        import socket as _socket

        import paramiko.transport as PT
        from paramiko.message import Message
        from paramiko.server import ServerInterface

        from vlib import refssh as R

        self.R, self.PT, self.Message = R, PT, Message
        self.case = case
        self.role = case["role"]
        tr = case.get("trace")
        tf = {PT.__file__: (SCH_TRACED_ALLOC if tr == "alloc" else SCH_TRACED)} if tr else None
        self.s = S.Scheduler(strategy, trace_files=tf, max_steps=40000)
        self.chan_shim = _ChanThreadingShim(self.s)
        self.socks = _socket.socketpair()
        t = self.t = PT.Transport(self.socks[0])
        t.active = True
        self.viol = []
        self.classes = set()
        self.nontrivial = False
        self.inuse = {}  # local id -> how it was allocated
        self.wire_open = {}  # task name -> id of its last CHANNEL_OPEN
        self.pending = []  # local ids of CHANNEL_OPENs the peer has not answered yet
        self.closes = []  # peer-side ids (recipient field) of CHANNEL_CLOSEs the transport sent and the peer has not answered
        self.pid2cid = {}  # the peer's live channel records: its id -> our id (removed when the CLOSE handshake is complete)
        self.peer_closed = set()  # peer ids whose CLOSE the peer has already sent (peer-first close): our CLOSE completes the handshake
        self.next_pid = 700
        self.objects = []  # [Channel, id at hand-over, closed by an op?, origin]
        self.napps = len(case["apps"])
        self.apps_done = 0
        self.hot = False
        self.in_tasks = False
        memo = {}
        got = S.coopify(self.s, t, memo, prefix="transport.")
        if "lock" not in got:
            raise peers.core.HarnessError("C23 sched family: Transport.lock is not a plain lock any more (%r)" % (got,))
        S.coopify(self.s, t._channels, memo, prefix="channels.")
        for name in ("_send_user_message", "_send_message", "_send_or_defer"):
            setattr(t, name, self._send)
        if self.role == "server":
            class Srv(ServerInterface):
                def check_channel_request(self, kind, chanid):
                    return PT.OPEN_SUCCEEDED if kind == "session" else PT.OPEN_FAILED_ADMINISTRATIVELY_PROHIBITED

                def check_channel_direct_tcpip_request(self, chanid, origin, destination):
                    return PT.OPEN_SUCCEEDED

            t.server_mode = True
            t.server_object = Srv()

    # ------------------------------------------------------------------ the wire
    def _send(self, data):
        raw = data.asbytes() if hasattr(data, "asbytes") else bytes(data)
        ptype = raw[0]
        self.s.yield_point(("send", ptype))
        R = self.R
        me = self.s.current_name() or "<setup>"
        if ptype == 90:
            rd = R.Reader(raw[1:])
            rd.string()
            cid = rd.u32()
            self.alloc(cid, "local-open", me)
            self.wire_open[me] = cid
            self.pending.append(cid)
        elif ptype == 91:
            rd = R.Reader(raw[1:])
            pid = rd.u32()
            cid = rd.u32()
            self.alloc(cid, "peer-open", me)
            self.pid2cid[pid] = cid
        elif ptype == 97:
            pid = R.Reader(raw[1:]).u32()
            if pid in self.peer_closed:
                # our answer to the peer's CLOSE: that channel is gone on both sides, the peer may use the id again
                self.peer_closed.discard(pid)
                self.pid2cid.pop(pid, None)
            else:
                self.closes.append(pid)
        elif ptype == 80 and not self.in_tasks:
            # set-up only: the peer grants the tcpip-forward request at once (what the transport thread does with the reply)
            self.dispatch(peers.m_request_success(R.u32(4242)))
        self.s.note(("wire", ptype, me))

    def alloc(self, cid, how, who):
        if not isinstance(cid, int) or not (0 <= cid < MAXID):
            self.viol.append(("id-in-24-bit-space", "sch:%s" % how, "transport used id %r" % (cid,)))
        if cid in self.inuse:
            self.viol.append(("id-unique-among-live", "sch:%s:id-of-%s-channel" % (how, self.inuse[cid]), "id %d handed out for a %s (task %s) while ids in use are %r" % (cid, how, who, dict(self.inuse))))
        if len(self.inuse) >= 3:
            self.classes.add("sch:alloc-with>=3-in-use")
        if self.hot:
            self.nontrivial = True
            self.classes.add("sch:alloc-after-wrap-or-jump")
            self.hot = False
        self.inuse[cid] = how

    def dispatch(self, payload):
        """An inbound message, handled the way Transport.run hands it to its tables."""
        t = self.t
        ptype = payload[0]
        m = self.Message(payload[1:])
        if ptype in t._handler_table:
            t._handler_table[ptype](m)
        elif ptype in t._channel_handler_table:
            chan = t._channels.get(m.get_int())
            if chan is not None:
                t._channel_handler_table[ptype](chan, m)
        else:
            raise peers.core.HarnessError("C23 sched family: no handler for message type %d" % ptype)

    # ------------------------------------------------------------------ handlers = what the application receives
    def handed(self, chan, origin):
        self.objects.append([chan, chan.get_id(), False, origin])

    def setup(self):
        t, case = self.t, self.case
        with _sch_patched(self):
            if self.role == "client":
                t.request_port_forward("", 0, lambda chan, origin, server: self.handed(chan, "tcp-handler"))
                # what Channel.request_x11(handler=...) / AgentRequestHandler do on their transport
                t._set_x11_handler(lambda chan, origin: self.handed(chan, "x11-handler"))
                t._set_forward_agent_handler(lambda chan: self.handed(chan, "agent-handler"))
            with t.lock:
                t._channel_counter = case["ctr"]
            for op in case["pre"]:
                self.do_peer(tuple(op), sequential=True)

    # ------------------------------------------------------------------ operations
    def peer_open_payload(self, kind, pidsel=None):
        """pidsel: None - the peer's id for the channel is a value no local id has here (700+); n - it is the value of the n-th
        local id in use (the two sides number their channels independently, from the same small integers), unless the peer
        already uses that value for a live channel of its own; "high" - a value above 2^24 (the peer's ids are any uint32)."""
        R = self.R
        pid = None
        if pidsel == "high":
            pid = 0xFFFFFF00 + (self.next_pid % 200)
            self.next_pid += 1
            self.classes.add("sch:peer-id-above-24-bits")
        elif pidsel is not None and self.inuse:
            ids = sorted(self.inuse)
            pid = ids[pidsel % len(ids)]
            if pid in self.pid2cid:
                pid = None
            else:
                self.classes.add("sch:peer-id-equals-local-id-in-use")
        if pid is None:
            pid = self.next_pid
            self.next_pid += 1
        rest = b""
        if kind == "forwarded-tcpip":
            rest = R.string(b"") + R.u32(4242) + R.string(b"10.9.8.7") + R.u32(4711)
        elif kind == "x11":
            rest = R.string(b"10.9.8.7") + R.u32(6010)
        elif kind == "direct-tcpip":
            rest = R.string(b"10.0.0.1") + R.u32(80) + R.string(b"10.9.8.7") + R.u32(4711)
        return peers.m_channel_open(kind.encode(), pid, rest=rest)

    def mark_hot(self):
        if self.t._channel_counter in self.inuse:
            self.hot = True

    def established(self):
        return [o for o in self.objects if not o[2] and not o[0].closed]

    def do_peer(self, op, sequential=False):
        k = op[0]
        t = self.t
        if k == "popen":
            self.mark_hot()
            self.dispatch(self.peer_open_payload(op[1], op[2] if len(op) > 2 else None))
            self.classes.add("sch:peer-open:" + op[1])
        elif k == "prefused":
            # a peer open this side turns down (kind index, peer id selector): nothing becomes live
            self.mark_hot()
            kinds = SCH_REFUSED_KINDS[self.role]
            self.dispatch(self.peer_open_payload(kinds[op[1] % len(kinds)], op[2] if len(op) > 2 else None))
            self.classes.add("sch:peer-open-refused")
        elif k == "pclose":
            live = self.established()
            if live:
                o = live[op[1] % len(live)]
                o[2] = True
                self.inuse.pop(o[1], None)
                self.peer_closed.update(p for p, c in self.pid2cid.items() if c == o[1])
                self.dispatch(peers.m_channel_close(o[1]))
                self.classes.add("sch:close-peer-first")
        elif k == "jump":
            ids = sorted(self.inuse)
            how = op[1]
            if how in ("live", "below-live") and not ids:
                how = "max"
            if how == "max":
                v = MAXID - 1
            elif how == "max-1":
                v = MAXID - 2
            else:
                v = ids[op[2] % len(ids)]
                if how == "below-live":
                    v = (v - 1) % MAXID
            with t.lock:
                t._channel_counter = v
            self.hot = True
            self.classes.add("sch:jump:" + how)
        elif k == "answer":
            self.s.block_until(lambda: self.pending or self.apps_done >= self.napps, ("peer", "waiting-for-a-CHANNEL_OPEN"))
            if self.pending:
                self.answer(self.pending.pop(0), bool(op[1]))
        elif k == "serve":
            # the peer answers whatever is outstanding (opens: confirmation; closes: its own CLOSE) until the applications are done
            while True:
                self.s.block_until(lambda: self.pending or self.closes or self.apps_done >= self.napps, ("peer", "idle"))
                if self.pending:
                    self.answer(self.pending.pop(0), True)
                elif self.closes:
                    pid = self.closes.pop(0)
                    cid = self.pid2cid.pop(pid, None)
                    if cid is not None:
                        self.dispatch(peers.m_channel_close(cid))
                else:
                    break
        else:
            raise peers.core.HarnessError("bad op %r" % (op,))

    def answer(self, cid, ok):
        if ok:
            pid = self.next_pid
            self.next_pid += 1
            self.pid2cid[pid] = cid
            self.dispatch(peers.m_channel_open_confirm(cid, pid))
            self.classes.add("sch:open-confirmed")
        else:
            self.inuse.pop(cid, None)
            self.dispatch(peers.m_channel_open_failure(cid))
            self.classes.add("sch:open-refused")

    def do_app(self, op, tname, mine):
        k = op[0]
        t = self.t
        if k == "open":
            self.mark_hot()
            kind = op[1]
            try:
                ch = t.open_channel(kind, ("10.1.1.1", 4242), ("10.2.2.2", 40000), timeout=SCH_TO)
            except S.HarnessAbort:
                raise
            except Exception as e:
                if isinstance(e, peers.core.HarnessError):
                    raise
                self.classes.add("sch:open-raised:" + type(e).__name__)
                return
            want = self.wire_open.get(tname)
            if ch.get_id() != want:
                self.viol.append(("id-unique-among-live", "sch:confirmed-open-other-id", "CHANNEL_OPEN of %s carried id %r, open_channel returned a channel with id %r" % (tname, want, ch.get_id())))
            o = [ch, ch.get_id(), False, "open_channel:" + tname]
            self.objects.append(o)
            mine.append(o)
            self.classes.add("sch:local-open:" + kind)
        elif k == "close":
            live = [o for o in mine if not o[2]]
            if live:
                o = live[op[1] % len(live)]
                o[2] = True
                self.inuse.pop(o[1], None)
                o[0].close()
                self.classes.add("sch:close-local-first")
        else:
            raise peers.core.HarnessError("bad op %r" % (op,))

    # ------------------------------------------------------------------ run
    def run(self):
        case, s = self.case, self.s
        PT = self.PT

        def peer_body():
            for op in case["peer"]:
                self.do_peer(tuple(op))
            self.do_peer(("serve",))

        def mk(tname, ops):
            def body():
                mine = []
                try:
                    for op in ops:
                        self.do_app(tuple(op), tname, mine)
                finally:
                    self.apps_done += 1

            return body

        s.spawn("transport", peer_body)
        for ai, ops in enumerate(case["apps"]):
            s.spawn("app%d" % ai, mk("app%d" % ai, ops))
        self.in_tasks = True
        try:
            with _sch_patched(self), S.patch_time(s, PT):
                res = s.run()
        finally:
            self.in_tasks = False
        return res

    def judge(self, res):
        viol = list(self.viol)
        if res.outcome == "deadlock":
            viol.append(("no-deadlock", "sch:" + "+".join(sorted(set(str(w[0] if isinstance(w, tuple) else w) for w in res.waits.values()))), "waits=%r" % (res.waits,)))
        elif res.outcome == "budget":
            viol.append(("no-termination", "sch:step-budget", "waits=%r" % (res.waits,)))
        elif res.outcome != "ok":
            raise peers.core.HarnessError("outcome %r" % res.outcome)
        for name, info in res.tasks.items():
            if info.exc is not None:
                viol.append(("operation-raised", "sch:%s" % type(info.exc).__name__, "%s: %s" % (name, info.tb)))
        seen = {}
        for ch, cid, closed_by_op, origin in self.objects:
            if closed_by_op or ch.closed:
                continue
            i = ch.get_id()
            if i != cid:
                viol.append(("id-unique-among-live", "sch:id-of-live-object-changed", "channel from %s handed out with id %d now reports %r" % (origin, cid, i)))
            if i in seen:
                same = seen[i][0] is ch
                viol.append(("id-unique-among-live", "sch:two-live-handles-one-id", "%s and %s hold %s with id %d" % (seen[i][1], origin, "the SAME Channel object" if same else "two open Channel objects", i)))
            seen[i] = (ch, origin)
        if res.switched_in(sch_hot, preempt_only=True):
            self.nontrivial = True
            self.classes.add("sch:preempted-inside-id-allocation")
        if any(sw[0] == "transport" and sch_hot(sw[3]) for sw in res.switches if sw[4]):
            self.classes.add("sch:transport-thread-preempted-inside-id-allocation")
        if res.switched_in(lambda tag: tag[0] == "line", preempt_only=True):
            self.classes.add("sch:preempted-at-transport.py-line")
        return viol

    def cleanup(self):
        t = self.t
        t.active = False
        try:
            t.packetizer.close()
        except Exception:
            pass
        for so in self.socks:
            try:
                so.close()
            except OSError:
                pass


def sch_execute(ctx, case, strategy=None, extra_classes=()):
    strat = strategy if strategy is not None else S.strategy_from_case(case["sched"], sch_hot)
    b = SchBench(case, strat)
    try:
        b.setup()
        res = b.run()
        viol = b.judge(res)
    finally:
        b.cleanup()
    if strategy is not None and isinstance(strategy, S.DFSStrategy):
        case = dict(case)
        case["sched"] = {"dfs": [t[2] for t in strategy.trace]}
    ctx.case(case, b.nontrivial, sorted(b.classes) + ["sch:role-" + case["role"]] + list(extra_classes))
    seen = set()
    for clause, bucket, detail in viol:
        if (clause, bucket) not in seen:
            seen.add((clause, bucket))
            ctx.violation(clause, bucket, case, detail)


def _sch_case(role):
    pk = st.sampled_from(SCH_PEER_KINDS[role])
    lk = st.sampled_from(SCH_LOCAL_KINDS[role])
    pidsel = st.sampled_from([None, None, 0, 1, 2, 3, "high"])
    popen = st.tuples(st.just("popen"), pk, pidsel)
    prefused = st.tuples(st.just("prefused"), st.integers(0, 1), pidsel)
    jump = st.tuples(st.just("jump"), st.sampled_from(["max", "max-1", "live", "live", "below-live"]), st.integers(0, 7))
    pre_op = st.one_of(popen, popen.map(lambda v: v), st.tuples(st.just("pclose"), st.integers(0, 7)), jump, prefused)
    peer_op = st.one_of(popen, popen.map(lambda v: v), popen.map(lambda v: (v)), st.tuples(st.just("answer"), st.sampled_from([True, True, False])), st.tuples(st.just("pclose"), st.integers(0, 7)), prefused)
    app_op = st.one_of(st.tuples(st.just("open"), lk), st.tuples(st.just("open"), lk).map(lambda v: v), st.tuples(st.just("close"), st.integers(0, 3)))
    app = st.tuples(st.tuples(st.just("open"), lk), st.lists(app_op, max_size=2)).map(lambda t: [t[0]] + list(t[1]))
    return st.fixed_dictionaries(
        {
            "fam": st.just("sch"),
            "role": st.just(role),
            "ctr": st.sampled_from(PRESETS + [5]),
            "pre": st.lists(pre_op, max_size=5),
            "peer": st.lists(peer_op, min_size=1, max_size=3),
            "apps": st.lists(app, min_size=1, max_size=2),
            "sched": S.schedule_strategy(max_pre=3, max_gap=70, max_forced=8, max_hot=2, hot_range=16),
            "trace": st.sampled_from([False, "alloc", True]),
            "poll": st.booleans(),
        }
    )


sch_case_st = st.sampled_from(["client", "client", "server"]).flatmap(_sch_case)


def sch_dfs_programs(trace="alloc"):
    """Small programs: one peer open of each kind (per role) || one local open, from a fresh counter and from a counter that was
    moved onto a run of live ids."""
    progs = []
    for role in ("client", "server"):
        for pk in SCH_PEER_KINDS[role]:
            for pre, ctr in (([], 0), ([["popen", pk], ["popen", pk], ["jump", "live", 0]], MAXID - 1)):
                progs.append({"fam": "sch", "role": role, "ctr": ctr, "pre": pre, "peer": [["popen", pk]], "apps": [[["open", SCH_LOCAL_KINDS[role][0]]]], "sched": None, "trace": trace, "poll": False})
    return progs


def sch_run_dfs(ctx, programs, k, limit, label):
    complete = True
    for prog in programs:
        if ctx.out_of_time():
            return False

        def one(strategy, prog=prog):
            sch_execute(ctx, dict(prog), strategy=strategy, extra_classes=("sch:dfs-" + label,))

        gen = S.enumerate_schedules(one, k, limit=limit)
        while True:
            try:
                next(gen)
            except StopIteration as e:
                if not e.value:
                    complete = False
                    ctx.inconc("sch-dfs-program-truncated-" + label)
                break
        ctx.count("sch:dfs-programs-" + label)
    return complete


def run(ctx):
    ctx.set_budget(85, 780)
    ctx.assume("counter jump rule: moving _channel_counter stands for the 2^24 opens it would take to get there; every value is reachable with the modelled channels still open")

    class Machine(RuleBasedStateMachine):
        def __init__(self):
            RuleBasedStateMachine.__init__(self)
            self.s = None

        @initialize(cc=st.sampled_from(PRESETS), sc=st.sampled_from(PRESETS))
        def init(self, cc, sc):
            if ctx.out_of_time():
                return
            self.s = Sess(ctx, cc, sc)

        def _do(self, op):
            if self.s is None or self.s.dead:
                return
            try:
                self.s.do(op)
            except Stop:
                pass

        @precondition(lambda self: self.s is not None and len(self.s.pairs) < 8)
        @rule()
        def local_open(self):
            self._do({"op": "lopen"})

        @precondition(lambda self: self.s is not None and len(self.s.pairs) < 8)
        @rule()
        def peer_open(self):
            self._do({"op": "popen"})

        @precondition(lambda self: self.s is not None and self.s.pairs)
        @rule(idx=st.integers(0, 7), side=st.sampled_from(["c", "s", "both"]))
        def close(self, idx, side):
            self._do({"op": "close", "idx": idx, "side": side})

        @precondition(lambda self: self.s is not None and self.s.pairs)
        @rule(idx=st.integers(0, 7), side=st.sampled_from(["c", "s"]))
        def drop(self, idx, side):
            self._do({"op": "drop", "idx": idx, "side": side})

        @rule(side=st.sampled_from(["c", "s"]), to=st.sampled_from(["max", "max-1", "max-2", "live", "live", "below-live"]), pick=st.integers(0, 7))
        def jump(self, side, to, pick):
            self._do({"op": "jump", "side": side, "to": to, "pick": pick})

        @rule(side=st.sampled_from(["c", "s"]))
        def refused(self, side):
            self._do({"op": "refused", "side": side})

        @precondition(lambda self: self.s is not None and len(self.s.pairs) < 7)
        @rule()
        def gated(self):
            self._do({"op": "gated"})

        @precondition(lambda self: self.s is not None and len(self.s.pairs) < 7)
        @rule()
        def race(self):
            self._do({"op": "race"})

        def teardown(self):
            s = self.s
            if s is None:
                return
            try:
                ctx.case({"ops": s.ops}, s.nontrivial and not s.dead, sorted(set(s.classes)))
            finally:
                s.close()

    class PupMachine(RuleBasedStateMachine):
        def __init__(self):
            RuleBasedStateMachine.__init__(self)
            self.s = None

        @initialize(role=st.sampled_from(["client", "server"]), ctr=st.sampled_from(PRESETS))
        def init(self, role, ctr):
            if ctx.out_of_time():
                return
            self.s = PupSess(ctx, role, ctr)

        def _do(self, op):
            if self.s is None or self.s.dead:
                return
            try:
                self.s.do(op)
            except Stop:
                pass

        @rule()
        def start_local_open(self):
            self._do({"op": "start"})

        @rule()
        def start_local_open_(self):  # twice as likely as the other rules: unanswered opens are the point of this family
            self._do({"op": "start"})

        @rule(idx=st.integers(0, 3), ok=st.sampled_from([True, True, True, False]), pid=st.sampled_from(["fresh", "fresh", "local", "counter", "high"]), pidx=st.integers(0, 7))
        def answer(self, idx, ok, pid, pidx):
            self._do({"op": "answer", "idx": idx, "ok": ok, "pid": pid, "pidx": pidx})

        @rule(pid=st.sampled_from(["fresh", "fresh", "local", "counter", "high"]), pidx=st.integers(0, 7))
        def peer_open(self, pid, pidx):
            self._do({"op": "popen", "pid": pid, "pidx": pidx})

        @rule(pid=st.sampled_from(["fresh", "local", "local", "counter"]), pidx=st.integers(0, 7), kind=st.integers(0, 2))
        def peer_open_refused(self, pid, pidx, kind):
            self._do({"op": "popen", "refuse": True, "pid": pid, "pidx": pidx, "kind": kind})

        @rule(idx=st.integers(0, 7))
        def close(self, idx):
            self._do({"op": "close", "idx": idx})

        @rule(idx=st.integers(0, 7))
        def peer_close(self, idx):
            self._do({"op": "pclose", "idx": idx})

        @rule(idx=st.integers(0, 7))
        def data(self, idx):
            self._do({"op": "data", "idx": idx})

        @rule(to=st.sampled_from(["max", "max-1", "live", "below-live", "pending", "pending", "below-pending"]), pick=st.integers(0, 7))
        def jump(self, to, pick):
            self._do({"op": "jump", "to": to, "pick": pick})

        @rule(kind=st.sampled_from(["confirm", "failure", "failure"]), which=st.sampled_from(["live", "live", "unused"]), idx=st.integers(0, 7))
        def stray(self, kind, which, idx):
            self._do({"op": "stray", "kind": kind, "target": which, "idx": idx})

        def teardown(self):
            s = self.s
            if s is None:
                return
            try:
                ctx.case({"ops": s.ops}, s.nontrivial and not s.dead, sorted(set(s.classes)))
            finally:
                s.close()

    for M, n in ((Machine, ctx.scale(50, 600)), (PupMachine, ctx.scale(60, 600))):
        try:
            ctx.explore_machine(M, n, steps=40)
        except Exception as e:
            # Once the safety-net budget is exhausted the machine turns into a no-op, which hypothesis reports as
            # flaky data generation when it happens while a failing history is being shrunk/replayed. That says
            # nothing about paramiko: keep the (unshrunk) failure if there is one, else the run is inconclusive.
            # The same report without the budget: the race rules depend on thread timing, so a history that showed a violation
            # need not show it again when hypothesis re-executes it.  What was observed stays a violation; it is kept unshrunk.
            import hypothesis.errors as HE

            flaky = tuple(getattr(HE, n) for n in ("Flaky", "FlakyStrategyDefinition", "FlakyFailure", "FlakyReplay") if hasattr(HE, n))
            if not isinstance(e, flaky) or (ctx._last_fail is None and not ctx.budget_hit):
                raise
            ctx.inconc("budget-hit-while-shrinking" if ctx.budget_hit else "failure-not-reproduced-on-re-execution")
            if ctx._last_fail is not None and ctx._last_fail[0] not in ctx.unknown and ctx._last_fail[0] not in ctx.known_hits:
                ctx._record_unknown(*ctx._last_fail)
    # scheduler family (deterministic): generated programs + schedules, then all schedules with few preemptions of small programs
    ctx.explore(sch_case_st, lambda c: sch_execute(ctx, c), ctx.scale(600, 8000), seed_offset=7)
    if ctx.tier == "thorough":
        sch_run_dfs(ctx, sch_dfs_programs("alloc")[ctx.worker :: ctx.nworkers], 2, 300000, "k2-alloc-lines")
        sch_run_dfs(ctx, sch_dfs_programs(True)[ctx.worker :: ctx.nworkers], 1, 300000, "k1-all-lines")
    else:
        sch_run_dfs(ctx, sch_dfs_programs(True), 1, 2000, "k1-all-lines")
        sch_run_dfs(ctx, sch_dfs_programs(False), 2, 2000, "k2-lock-level")


def replay(ctx, case):
    if case.get("fam") == "sch":
        sch_execute(ctx, case)
        return
    ops = case["ops"]
    if ops[0].get("fam") == "pup":
        s = PupSess(ctx, ops[0]["role"], ops[0]["ctr"])
    else:
        s = Sess(ctx, ops[0]["cc"], ops[0]["sc"])
    try:
        for op in ops[1:]:
            try:
                s.do(op)
            except Stop:
                break
        ctx.case({"ops": s.ops}, s.nontrivial, sorted(set(s.classes)))
    finally:
        s.close()
