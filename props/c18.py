"""C18 - a client refuses server-initiated actions it did not enable.

Engine: production client Transport against a raw-mode puppet server on the in-memory link
(vlib.peers). A hypothesis RuleBasedStateMachine generates histories of

  server-initiated actions            client-side enables / cancels
  - GLOBAL_REQUEST (any name, 0/1)    - Channel.request_x11 (puppet grants or refuses)
  - CHANNEL_OPEN of any kind          - Channel.request_forward_agent
  - CHANNEL_REQUEST of any type       - Transport.request_port_forward (granted / refused)
    on any live channel               - Transport.cancel_port_forward
                                      - open / close further client channels
                                      - server-mode configuration applied to the CLIENT transport through the
                                        public API: set_subsystem_handler(name, handler), add_server_key(key)

A history runs on 1-3 client transports living in ONE process (each against its own puppet server): every operation names
the transport it acts on; transports are added and closed in the middle of a history ("newconn"/"closeconn"), so a kind may be
enabled on one transport while ANOTHER one (concurrent, or created after the enabling one was closed) receives the CHANNEL_OPEN.
The model is per transport: what counts is what *that* client enabled itself.  A refused open must not surface on any transport.
The verdict uses the wire replies and accept()/handler deliveries only (the private channel table is an optional extra observation).
A failure that hypothesis cannot reproduce from the history alone (state left behind by transports of an earlier history of
the process) is still reported: the case file then carries "earlier_in_process" and replay() re-creates that state first.

Server messages may also arrive WHILE a client request is in flight: request_x11 / request_port_forward / cancel_port_forward
carry a generated list of 0-2 server-initiated actions (CHANNEL_OPEN of any kind, GLOBAL_REQUEST, CHANNEL_REQUEST) that the puppet
sends after it has received the client's request and BEFORE it answers it (grant or refusal, as drawn). A request that has not
been answered has enabled nothing: an open arriving inside the window of a request that is then REFUSED must be refused (the
kind was never enabled); inside the window of a request that is then granted acceptance is tolerated, not demanded (whether
"enabled" starts with the request or with the reply the statement does not say).

The harness drives one operation at a time and closes it with a sentinel (an unhandled message
type whose UNIMPLEMENTED echo carries the sentinel's sequence number), so that everything the client
sent in reaction to the operation is in the puppet's log when the oracle runs: no sleeps.

Model: x11 enabled after a *granted* x11 request; agent after request_forward_agent; forwarded-tcpip
while at least one granted port forward has not been cancelled.
Request payloads are drawn too: the subsystem name of a "subsystem" request comes from the names the client registered
handlers for (when it did), a fixed pool, or is random; exec commands / terminal names from small pools.
Oracle (statement only):
  global request        -> never REQUEST_SUCCESS; REQUEST_FAILURE when a reply was asked for
  channel open          -> kind not enabled: CHANNEL_OPEN_FAILURE for our sender id, no channel
                           handed to accept()/handlers, no new channel in the client's table
  exec/shell/subsystem/pty-req channel request -> never CHANNEL_SUCCESS; CHANNEL_FAILURE when a
                           reply was asked for; no subsystem handler registered on the client is ever
                           instantiated / started by a server request
The session must stay usable (sentinel answered) after every server-initiated action.
Accepting an enabled kind is recorded (class counts) but not demanded: the statement is about refusal.
"""
import threading

from hypothesis import strategies as st
from hypothesis.stateful import RuleBasedStateMachine, initialize, precondition, rule

from vlib import peers
from vlib import refssh as R

PROPERTY = "C18"
LEVEL = "exploration"
RULE = (
    "hypothesis RuleBasedStateMachine over 1-3 client transports in one process (each vs its own raw puppet server; transports are "
    "added (half of them with 1-2 subsystem handlers registered at set-up) and closed mid-history, every rule draws the transport it acts on, model per transport): rules = server GLOBAL_REQUEST (tcpip-forward, "
    "cancel-tcpip-forward, keepalive, no-more-sessions, random name; want_reply 0/1), server CHANNEL_OPEN (session, x11, "
    "auth-agent@openssh.com, forwarded-tcpip, direct-tcpip, random kind), server CHANNEL_REQUEST (exec, shell, subsystem, pty-req, env, "
    "x11-req, auth-agent-req, window-change, exit-status, xon-xoff, random; want_reply 0/1; subsystem name = one the client registered a "
    "handler for / pool / random, exec command and terminal name from pools) on client- or server-opened channels, "
    "server-mode configuration of the client transport (set_subsystem_handler(name) with a recording handler, add_server_key), "
    "client request_x11 (granted/refused), request_forward_agent, request_port_forward (granted/refused, handler/accept queue), "
    "cancel_port_forward, open/close client channel, new transport, close transport; request_x11 / request_port_forward / cancel_port_forward "
    "carry 0-2 generated server actions (open / global request / channel request) that the server sends while the client's request is in flight, "
    "i.e. between receiving it and answering it (an open inside the window of a request that is then refused must be refused); "
    "non-trivial = history with a server-initiated "
    "action after an enable (on this or another transport of the history), after a cancel, after a server-mode configuration call or inside "
    "the in-flight window of a client request; "
    "distinct by the operation list"
)

TO = 15.0  # "never" detector on a shared machine, not a performance bound
SENTINEL_TYPE = 193  # no handler anywhere -> UNIMPLEMENTED(seq)
RUN_REQS = ("exec", "shell", "subsystem", "pty-req")


class Stop(Exception):
    """A violation was reported in collect mode (replay): stop executing this history."""


_PROCESS_ENABLED = set()  # forwarding kinds any client transport of this process has ever enabled (harness bookkeeping)


class Sess:
    """One history: several client transports in ONE process (each with its own raw puppet server).  Every operation
    names the connection it acts on; the model (which kinds were enabled) is kept per connection, because the statement
    is about what *that* client enabled itself."""

    MAX_CONNS = 3

    def __init__(self, ctx):
        self.ctx = ctx
        self.ops = []
        self.conns = []  # live connections
        self.n_made = 0
        self.n_closed = 0
        self.nontrivial = False
        self.classes = []
        self.dead = False
        # kinds some connection of this history has enabled (and not cancelled) / had enabled when it was closed
        self.closed_enabled = set()
        self.earlier = sorted(_PROCESS_ENABLED)

    def close(self):
        for c in self.conns:
            c.close()
        self.conns = []

    def fail(self, clause, bucket, detail):
        self.dead = True
        case = {"ops": self.ops}
        if self.earlier:
            # what transports of EARLIER histories in this process had enabled: replay() re-creates it with a throw-away
            # transport first, so that a leak across Transport objects reproduces from the file alone
            case["earlier_in_process"] = self.earlier
        self.ctx.violation(clause, bucket, case, detail)  # raises in machine mode
        raise Stop()

    def prelude(self, kinds):
        """replay only: a transport that enables ``kinds`` and is closed again before the history starts."""
        c = Conn(self, -1)
        try:
            c.op_copen({})
            for kind in kinds:
                if kind == "x11":
                    c.op_x11({"chan": 0, "grant": True, "handler": False})
                elif kind == "auth-agent@openssh.com":
                    c.op_agent({"chan": 0})
                elif kind == "forwarded-tcpip":
                    c.op_fwd({"addr": "", "port": 8080, "grant": True, "handler": False})
        finally:
            c.close()
        del self.classes[:]

    def conn(self, idx):
        return self.conns[idx % len(self.conns)]

    def needs_chan(self, op):
        return op["op"] in ("creq", "x11", "agent", "cclose")

    def runnable(self, op):
        k = op["op"]
        if k == "newconn":
            return len(self.conns) < self.MAX_CONNS
        if not self.conns:
            return False
        if k == "closeconn":
            return len(self.conns) >= 2
        c = self.conn(op.get("conn", 0))
        if self.needs_chan(op) and not c.chans:
            return False
        if k == "cancel":
            return bool(c.tcp) or not c.after_cancel
        if k == "copen":
            return len(c.chans) < 4
        if k == "cclose":
            return len(c.chans) > 1
        return True

    def do(self, op):
        if self.dead or not self.runnable(op):
            return
        self.ops.append(op)
        k = op["op"]
        if k == "newconn":
            c = Conn(self, self.n_made)
            self.n_made += 1
            self.conns.append(c)
            if self.n_closed:
                self.classes.append("transport-created-after-another-was-closed")
            if len(self.conns) >= 2:
                self.classes.append("transports-live=%d" % len(self.conns))
            # server-mode configuration done when the transport is set up (before anything else happens on it)
            for name in op.get("subsys", ()):
                c.op_srvconf({"what": "subsystem-handler", "name": name})
                self.classes.append("config:at-transport-setup")
            c.op_copen(op)
            return
        c = self.conn(op.get("conn", 0))
        if k == "closeconn":
            self.conns.remove(c)
            for kind in FORWARD_KINDS:
                if c.enabled(kind):
                    self.closed_enabled.add(kind)
            c.close()
            self.n_closed += 1
            self.classes.append("transport-closed")
            return
        getattr(c, "op_" + k)(op)

    def elsewhere(self, me, kind):
        """Where else in this process the kind is/was enabled: 'live-other' / 'closed-other' / None."""
        if any(c is not me and c.enabled(kind) for c in self.conns):
            return "live-other"
        if kind in self.closed_enabled:
            return "closed-other"
        return None


class Conn:
    def __init__(self, sess, no):
        self.sess = sess
        self.ctx = sess.ctx
        self.no = no
        self.classes = sess.classes  # shared list
        self.link, self.tc, self.ts, _ = peers.connected_pair(client_cls=peers.VTransport, server_cls=peers.Puppet)
        self.ts.raw()
        self.seen = 0
        self.chans = []  # dict(c=Channel, cid=client id, pid=puppet id, origin="c"/"s")
        self.next_pid = 1000
        self.x11 = False
        self.agent = False
        self.tcp = set()
        self.handled = []  # channels handed to explicit handlers
        self.after_enable = False
        self.after_cancel = False
        self.after_config = False
        self.subsys = set()  # names this client registered a subsystem handler for (set_subsystem_handler on a CLIENT transport)
        self.started = []  # (name, stage) of registered handlers a server request got instantiated / started
        self.inflight = None  # (client op, "granted"/"refused", kind it would enable) while a client request awaits its reply

    # ------------------------------------------------------------------ plumbing
    def close(self):
        for ch in self.chans:
            ch["c"] = None
        peers.shutdown(self.tc, self.ts)

    def fail(self, clause, bucket, detail):
        self.sess.fail(clause, bucket, "[transport #%d] %s" % (self.no, detail))

    def sync(self, what):
        """Returns the log entries the client produced since the last sync (sentinel echo removed)."""
        s = self.ts.send_raw_seq(bytes([SENTINEL_TYPE]) + b"verif")
        echo = R.u32(s)
        start = self.seen

        def got(lg):
            for i in range(start, len(lg)):
                if lg[i][1] == 3 and lg[i][2] == echo:
                    return i + 1
            if not self.tc.is_active():
                return -1
            return None

        r = self.ts.wait_log(got, timeout=TO)
        if not r or r < 0:
            lg = list(self.ts.log)[start:]
            self.fail(
                "session-continues",
                "%s:%s" % (what, "session-died:%s" % type(self.tc.get_exception()).__name__ if not self.tc.is_active() else "no-sentinel-echo"),
                "client active=%s exception=%r; messages since last sync: %r" % (self.tc.is_active(), self.tc.get_exception(), [(e[1], e[2][:12].hex()) for e in lg]),
            )
        new = list(self.ts.log)[start : r - 1]
        self.seen = r
        return new

    def wait_msg(self, pred, what):
        start = self.seen

        def got(lg):
            for i in range(start, len(lg)):
                if pred(lg[i]):
                    return i + 1
            return None

        r = self.ts.wait_log(got, timeout=TO)
        if not r:
            raise peers.core.HarnessError("C18 harness: client never sent %s (log %r)" % (what, [(e[1], e[2][:12].hex()) for e in list(self.ts.log)[start:]]))
        return self.ts.log[r - 1]

    def call(self, fn):
        res = {}

        def body():
            try:
                res["v"] = fn()
            except Exception as e:
                res["e"] = e

        th = threading.Thread(target=body, daemon=True)
        th.start()
        return th, res

    def join(self, th, what):
        th.join(TO)
        if th.is_alive():
            raise peers.core.HarnessError("C18 harness: client call %s did not return" % what)

    def n_client_channels(self):
        # observation only (private table): when it is not there the wire replies + accept()/handler deliveries decide
        try:
            return len(self.tc._channels)
        except Exception:
            return None

    def drain_accept(self):
        out = []
        while True:
            c = self.tc.accept(0)
            if c is None:
                return out
            out.append(c)

    def chan(self, idx):
        return self.chans[idx % len(self.chans)]

    # ------------------------------------------------------------------ operations
    def _server_action(self):
        if self.after_enable or self.after_cancel or self.after_config or any(c.after_enable for c in self.sess.conns) or self.sess.closed_enabled:
            self.sess.nontrivial = True
        if self.inflight:
            self.sess.nontrivial = True
            self.classes.append("action-while-client-request-in-flight")
        if self.after_config:
            self.classes.append("action-after-server-mode-config")
        if self.after_enable:
            self.classes.append("action-after-enable")
        if self.after_cancel:
            self.classes.append("action-after-cancel")

    def _during(self, op, name, granted, kind):
        """The server-initiated actions the puppet sends between receiving the client's request and answering it."""
        subs = op.get("inflight") or []
        if not subs:
            return
        self.inflight = (name, "granted" if granted else "refused", kind)
        try:
            for sub in subs:
                if sub["op"] not in ("sopen", "global", "creq") or (sub["op"] == "creq" and not self.chans):
                    continue
                what = sub.get("kind") if sub["op"] == "sopen" else sub.get("name")
                known = OPEN_KINDS if sub["op"] == "sopen" else GLOBAL_NAMES if sub["op"] == "global" else REQ_NAMES
                self.classes.append("inflight:%s-%s:%s:%s" % (name, self.inflight[1], sub["op"], _name_class(what, known)))
                getattr(self, "op_" + sub["op"])(sub)
        finally:
            self.inflight = None

    def _pending(self, kind):
        """The kind would be enabled by the request in flight, which the server is going to grant."""
        return bool(self.inflight) and self.inflight[1] == "granted" and self.inflight[2] == kind

    def op_copen(self, op):
        th, res = self.call(lambda: self.tc.open_session(timeout=TO))
        e = self.wait_msg(lambda e: e[1] == 90, "CHANNEL_OPEN")
        rd = R.Reader(e[2])
        rd.string()
        cid = rd.u32()
        pid = self.next_pid
        self.next_pid += 1
        self.ts.send_raw_seq(peers.m_channel_open_confirm(cid, pid))
        self.join(th, "open_session")
        if "v" not in res:
            raise peers.core.HarnessError("C18 harness: open_session failed: %r" % (res.get("e"),))
        self.chans.append(dict(c=res["v"], cid=cid, pid=pid, origin="c"))
        self.sync("copen")

    def op_cclose(self, op):
        ch = self.chan(op["chan"])
        self.chans.remove(ch)
        ch["c"].close()
        self.wait_msg(lambda e: e[1] == 97 and e[2][:4] == R.u32(ch["pid"]), "CHANNEL_CLOSE")
        self.ts.send_raw_seq(peers.m_channel_close(ch["cid"]))
        self.sync("cclose")

    def op_global(self, op):
        self._server_action()
        self.classes.append("global:" + ("reply" if op["want"] else "noreply"))
        self.ts.send_raw_seq(peers.m_global_request(op["name"].encode("utf-8"), op["want"], op["rest"]))
        new = self.sync("global")
        replies = [e[1] for e in new if e[1] in (81, 82)]
        if 81 in replies:
            self.fail("global-request-refused", "REQUEST_SUCCESS:" + _name_class(op["name"], GLOBAL_NAMES), "client answered %r with %r" % (op["name"], replies))
        if op["want"] and replies != [82]:
            self.fail("global-request-refused", "no-REQUEST_FAILURE", "client answered %r (want_reply) with %r" % (op["name"], [(e[1], e[2][:12].hex()) for e in new]))
        if not op["want"] and replies:
            self.fail("global-request-refused", "reply-not-asked-for", "client answered %r (no reply wanted) with %r" % (op["name"], replies))

    def _open_rest(self, op):
        k = op["kind"]
        if k == "x11":
            return R.string(b"10.9.8.7") + R.u32(op["port"])
        if k in ("forwarded-tcpip", "direct-tcpip"):
            return R.string(op["addr"].encode()) + R.u32(op["port"]) + R.string(b"10.9.8.7") + R.u32(4711)
        if k in OPEN_KINDS:
            return b""
        return op["rest"]

    def enabled(self, kind):
        return (kind == "x11" and self.x11) or (kind == "auth-agent@openssh.com" and self.agent) or (kind == "forwarded-tcpip" and bool(self.tcp))

    def op_sopen(self, op):
        self._server_action()
        kind = op["kind"]
        pid = self.next_pid
        self.next_pid += 1
        before = self.n_client_channels()
        self.ts.send_raw_seq(peers.m_channel_open(kind.encode("utf-8"), pid, op["window"], op["maxpkt"], self._open_rest(op)))
        new = self.sync("sopen")
        replies = [e for e in new if e[1] in (91, 92) and e[2][:4] == R.u32(pid)]
        delivered = self.drain_accept() + self.handled
        self.handled = []
        en = self.enabled(kind)
        kc = _name_class(kind, OPEN_KINDS)
        if not en and self._pending(kind):
            # the request that enables the kind is in flight and will be granted: acceptance tolerated, not demanded
            en = True
            self.classes.append("open:%s:request-enabling-it-in-flight" % kc)
        self.classes.append("open:%s:%s" % (kc, "enabled" if en else "not-enabled"))
        if not en and self.inflight and self.inflight[2] == kind:
            self.classes.append("open:%s:inside-window-of-a-request-that-is-refused" % kc)
        if kind == "forwarded-tcpip" and self.after_cancel and not en:
            self.classes.append("open:forwarded-tcpip:after-cancel")
        if not en:
            other = self.sess.elsewhere(self, kind)
            if other:
                self.classes.append("open:%s:not-enabled-here-but-on-%s-transport" % (kc, other))
            # a channel of a refused kind must not surface anywhere in the process: not on this client, not on another one
            stray = []
            for c in self.sess.conns:
                if c is not self:
                    got = c.drain_accept() + c.handled
                    c.handled = []
                    stray += got
            if any(e[1] == 91 for e in replies):
                self.fail("channel-open-refused", "OPEN_CONFIRMATION:%s:%s" % (kc, self._state()), "kind %r confirmed although not enabled on this transport (elsewhere: %s): %r" % (kind, other, [(e[1], e[2].hex()) for e in replies]))
            if len(replies) != 1:
                self.fail("channel-open-refused", "no-OPEN_FAILURE:%s" % kc, "kind %r: replies %r" % (kind, [(e[1], e[2][:16].hex()) for e in new]))
            after = self.n_client_channels()
            if delivered or stray or (before is not None and after is not None and after != before):
                self.fail("channel-open-refused", "channel-created:%s" % kc, "kind %r refused on the wire but delivered=%d (other transports: %d) table %r->%r" % (kind, len(delivered), len(stray), before, after))
            return
        # enabled kind: acceptance is allowed; keep the model in step with what the client did
        if len(replies) == 1 and replies[0][1] == 91:
            rd = R.Reader(replies[0][2])
            rd.u32()
            cid = rd.u32()
            if len(delivered) != 1 or delivered[0].get_id() != cid:
                self.fail("channel-open-delivery", "accepted-channel-not-delivered:%s" % kc, "confirmed id %d, delivered %r" % (cid, [c.get_id() for c in delivered]))
            self.chans.append(dict(c=delivered[0], cid=cid, pid=pid, origin="s"))
            self.classes.append("open-accepted:" + kc)
        else:
            self.classes.append("open-enabled-but-refused:" + kc)
            if delivered:
                self.fail("channel-open-delivery", "refused-channel-delivered:%s" % kc, "replies %r delivered %d" % ([(e[1]) for e in replies], len(delivered)))

    def _state(self):
        st_ = "x11=%d,agent=%d,tcp=%d,cancelled=%d" % (self.x11, self.agent, bool(self.tcp), self.after_cancel)
        if self.inflight:
            st_ += ",in-flight=%s-%s" % self.inflight[:2]
        return st_

    def _req_rest(self, op):
        n = op["name"]
        if n == "exec":
            return R.string(EXEC_CMDS[op.get("arg", 0) % len(EXEC_CMDS)])
        if n == "subsystem":
            return R.string(self._subsystem_name(op).encode("utf-8"))
        if n == "pty-req":
            return R.string(TERMS[op.get("arg", 0) % len(TERMS)]) + R.u32(80) + R.u32(24) + R.u32(0) + R.u32(0) + R.string(b"")
        if n == "env":
            return R.string(b"LANG") + R.string(b"C")
        if n == "x11-req":
            return R.boolean(False) + R.string(b"MIT-MAGIC-COOKIE-1") + R.string(b"00" * 16) + R.u32(0)
        if n == "window-change":
            return R.u32(80) + R.u32(24) + R.u32(0) + R.u32(0)
        if n == "exit-status":
            return R.u32(op.get("status", 0))
        if n == "xon-xoff":
            return R.boolean(True)
        if n in ("shell", "auth-agent-req@openssh.com"):
            return b""
        return op["rest"]

    def _subsystem_name(self, op):
        """op["sub"]: int = index into the names this client registered handlers for (pool when it registered none),
        str = literal name; absent (histories saved earlier) = "sftp"."""
        sub = op.get("sub", "sftp")
        if isinstance(sub, int):
            names = sorted(self.subsys) or list(SUBSYS_POOL)
            return names[sub % len(names)]
        return sub

    def op_srvconf(self, op):
        """Server-mode configuration applied to the client transport through the public API (an application that sets up
        client and server transports with one helper, or acts as both): what the client 'enabled itself' does not change."""
        if op["what"] == "subsystem-handler":
            name = op["name"]
            self.tc.set_subsystem_handler(name, _recording_handler(), self.started)
            self.subsys.add(name)
            self.classes.append("config:set_subsystem_handler:" + _name_class(name, SUBSYS_POOL))
        else:
            self.tc.add_server_key(peers.keypool()[SERVER_KEYS[op.get("key", 0) % len(SERVER_KEYS)]])
            self.classes.append("config:add_server_key")
        self.after_config = True

    def op_creq(self, op):
        self._server_action()
        ch = self.chan(op["chan"])
        name = op["name"]
        if name == "subsystem":
            self.classes.append("chanreq:subsystem:%s" % ("handler-registered-for-name" if self._subsystem_name(op) in self.subsys else "no-handler-for-name"))
        self.ts.send_raw_seq(peers.m_channel_request(ch["cid"], name.encode("utf-8"), op["want"], self._req_rest(op)))
        new = self.sync("creq")
        replies = [e[1] for e in new if e[1] in (99, 100) and e[2][:4] == R.u32(ch["pid"])]
        nc = _name_class(name, REQ_NAMES)
        self.classes.append("chanreq:%s:%s:%s" % (nc, "reply" if op["want"] else "noreply", ch["origin"]))
        if name in RUN_REQS:
            if 99 in replies:
                self.fail("channel-request-refused", "CHANNEL_SUCCESS:%s" % name, "client approved %r on channel %d: %r" % (name, ch["cid"], replies))
            if op["want"] and replies != [100]:
                self.fail("channel-request-refused", "no-CHANNEL_FAILURE:%s" % name, "client answered %r (want_reply) with %r" % (name, [(e[1], e[2][:12].hex()) for e in new]))
            if not op["want"] and replies:
                self.fail("channel-request-refused", "reply-not-asked-for:%s" % name, "replies %r" % replies)
        if self.started:
            # also without a reply (want_reply 0): a handler the client registered must never be run on the server's command
            self.fail("channel-request-refused", "subsystem-handler-started:%s" % name, "request %r (subsystem name %r) made the client instantiate/start registered handlers: %r" % (name, self._subsystem_name(op) if name == "subsystem" else None, self.started))

    def op_x11(self, op):
        ch = self.chan(op["chan"])
        handler = (lambda chan, addr: self.handled.append(chan)) if op["handler"] else None
        th, res = self.call(lambda: ch["c"].request_x11(screen_number=op.get("screen", 0), handler=handler))
        self.wait_msg(lambda e: e[1] == 98 and e[2][:4] == R.u32(ch["pid"]) and b"x11-req" in e[2][:16], "x11-req")
        self._during(op, "x11-req", op["grant"], "x11")
        if op["grant"]:
            self.ts.send_raw_seq(peers.m_channel_success(ch["cid"]))
            self.join(th, "request_x11")
            if "e" in res:
                raise peers.core.HarnessError("C18 harness: granted request_x11 raised %r" % (res["e"],))
            self.x11 = True
            _PROCESS_ENABLED.add("x11")
            self.after_enable = True
            self.classes.append("enable:x11")
        else:
            self.ts.send_raw_seq(peers.m_channel_failure(ch["cid"]))
            self.join(th, "request_x11")
            # a refused request closes the channel (documented: SSHException "if the request was rejected")
            self.wait_msg(lambda e: e[1] == 97 and e[2][:4] == R.u32(ch["pid"]), "CHANNEL_CLOSE after refused x11-req")
            self.ts.send_raw_seq(peers.m_channel_close(ch["cid"]))
            self.chans.remove(ch)
            self.classes.append("x11-refused")
        self.sync("x11")

    def op_agent(self, op):
        ch = self.chan(op["chan"])
        r = ch["c"].request_forward_agent(lambda chan: self.handled.append(chan))
        self.wait_msg(lambda e: e[1] == 98 and e[2][:4] == R.u32(ch["pid"]) and b"auth-agent-req@openssh.com" in e[2], "auth-agent-req")
        if r:
            self.agent = True
            _PROCESS_ENABLED.add("auth-agent@openssh.com")
            self.after_enable = True
            self.classes.append("enable:agent")
        self.sync("agent")

    def op_fwd(self, op):
        handler = (lambda chan, src, dst: self.handled.append(chan)) if op["handler"] else None
        th, res = self.call(lambda: self.tc.request_port_forward(op["addr"], op["port"], handler))
        self.wait_msg(lambda e: e[1] == 80 and e[2][4:17] == b"tcpip-forward", "tcpip-forward")
        self._during(op, "tcpip-forward", op["grant"], "forwarded-tcpip")
        if op["grant"]:
            self.ts.send_raw_seq(peers.m_request_success(R.u32(5555) if op["port"] == 0 else b""))
        else:
            self.ts.send_raw_seq(peers.m_request_failure())
        self.join(th, "request_port_forward")
        if op["grant"]:
            if "e" in res:
                raise peers.core.HarnessError("C18 harness: granted request_port_forward raised %r" % (res["e"],))
            self.tcp.add((op["addr"], res["v"]))
            _PROCESS_ENABLED.add("forwarded-tcpip")
            self.after_enable = True
            self.classes.append("enable:tcp")
        else:
            self.classes.append("tcp-refused")
        self.sync("fwd")

    def op_cancel(self, op):
        if self.tcp:
            addr, port = sorted(self.tcp)[op["which"] % len(self.tcp)]
        else:
            addr, port = "0.0.0.0", 1
        th, res = self.call(lambda: self.tc.cancel_port_forward(addr, port))
        self.wait_msg(lambda e: e[1] == 80 and e[2][4:24] == b"cancel-tcpip-forward", "cancel-tcpip-forward")
        self._during(op, "cancel-tcpip-forward", op["grant"], None)
        self.ts.send_raw_seq(peers.m_request_success() if op["grant"] else peers.m_request_failure())
        self.join(th, "cancel_port_forward")
        if op["grant"]:
            # a refused cancel leaves the forward active on the server: the model stays lenient
            self.tcp.discard((addr, port))
        if not self.tcp:
            self.after_cancel = True
        self.classes.append("cancel:tcp")
        self.sync("cancel")


GLOBAL_NAMES = ("tcpip-forward", "cancel-tcpip-forward", "keepalive@openssh.com", "no-more-sessions@openssh.com", "hostkeys-00@openssh.com")
OPEN_KINDS = ("session", "x11", "auth-agent@openssh.com", "forwarded-tcpip", "direct-tcpip")
FORWARD_KINDS = ("x11", "auth-agent@openssh.com", "forwarded-tcpip")
REQ_NAMES = ("exec", "shell", "subsystem", "pty-req", "env", "x11-req", "auth-agent-req@openssh.com", "window-change", "exit-status", "xon-xoff")


SUBSYS_POOL = ("sftp", "netconf", "echo@verif")
EXEC_CMDS = (b"/bin/sh -c id", b"ls", b"", b"scp -t /tmp")
TERMS = (b"vt100", b"xterm-256color", b"")
SERVER_KEYS = ("ed25519", "ecdsa256", "rsa2048")


def _recording_handler():
    """A SubsystemHandler subclass that records being instantiated / started in the list registered with it."""
    from paramiko.server import SubsystemHandler

    class Recording(SubsystemHandler):
        def __init__(self, channel, name, server, started, *a, **kw):
            started.append((name, "instantiated"))
            self._started = started
            SubsystemHandler.__init__(self, channel, name, server)

        def start_subsystem(self, name, transport, channel):
            self._started.append((name, "started"))

    return Recording


def _name_class(name, known):
    return name if name in known else "other"


rand_name = st.text(alphabet="abcdefghijklmnopqrstuvwxyz0123456789-@._", min_size=1, max_size=24)
small_rest = st.binary(max_size=40)
win = st.sampled_from([0, 1, 32768, 2097152, 0xFFFFFFFF])
pkt = st.sampled_from([0, 1, 4096, 32768, 0xFFFFFFFF])
addrs = st.sampled_from(["", "0.0.0.0", "localhost", "127.0.0.1"])
ports = st.sampled_from([0, 22, 8080, 65535])


def run(ctx):
    ctx.set_budget(85, 780)
    ctx.assume("the puppet server answers the client's own requests (x11-req, tcpip-forward, cancel) as drawn; well-formed payloads for known request/open names")
    conn_ix = st.integers(0, Sess.MAX_CONNS - 1)
    # subsystem name of a server-sent "subsystem" request: index into the names the client registered (int) / pool / random
    sub_name = st.one_of(st.integers(0, 3), st.integers(0, 3).map(lambda v: v), st.integers(0, 3).map(lambda v: v), st.sampled_from(SUBSYS_POOL), rand_name)
    # subsystem handlers registered while a transport is set up: none (half of the transports) or 1-2 names
    setup_subsys = st.one_of(st.just([]), st.lists(st.one_of(st.sampled_from(SUBSYS_POOL), rand_name), min_size=1, max_size=2, unique=True))

    # server-initiated actions sent while a client request is in flight (same shapes as the rules below; same transport)
    open_act = lambda kinds: st.builds(  # noqa: E731
        lambda kind, window, maxpkt, addr, port, rest: {"op": "sopen", "kind": kind, "window": window, "maxpkt": maxpkt, "addr": addr, "port": port, "rest": rest},
        kinds, win, pkt, addrs, ports, small_rest,
    )
    other_action = st.one_of(
        open_act(st.sampled_from(FORWARD_KINDS)),
        open_act(st.one_of(st.sampled_from(OPEN_KINDS), rand_name)),
        st.builds(
            lambda name, want, rest, addr, port: {"op": "global", "name": name, "want": want, "rest": R.string(addr.encode()) + R.u32(port) if name in ("tcpip-forward", "cancel-tcpip-forward") else rest},
            st.one_of(st.sampled_from(GLOBAL_NAMES), rand_name), st.booleans(), small_rest, addrs, ports,
        ),
        st.builds(
            lambda chan, name, want, sub, arg: {"op": "creq", "chan": chan, "name": name, "want": want, "rest": b"", "status": 0, "sub": sub, "arg": arg},
            st.integers(0, 7), st.one_of(st.sampled_from(REQ_NAMES), st.sampled_from(RUN_REQS)), st.booleans(), sub_name, st.integers(0, 3),
        ),
    )

    def inflight(kind, empty=True):
        """0-2 actions for the window of a request that would enable `kind` (None: a cancel): one action in three is an open
        of exactly that kind."""
        act = other_action if kind is None else st.integers(0, 2).flatmap(lambda k: open_act(st.just(kind)) if k == 0 else other_action)
        some = st.lists(act, min_size=1, max_size=2)
        return st.one_of(st.just([]), some) if empty else some

    class Machine(RuleBasedStateMachine):
        def __init__(self):
            RuleBasedStateMachine.__init__(self)
            self.s = None
            if ctx.out_of_time():
                return
            self.s = Sess(ctx)

        def _do(self, op):
            if self.s is None or self.s.dead:
                return
            try:
                self.s.do(op)
            except Stop:  # only reachable when ctx.violation did not raise (listed finding)
                pass

        @initialize(n=st.sampled_from([1, 1, 2, 3]), subsys=st.lists(setup_subsys, min_size=3, max_size=3))
        def connect(self, n, subsys):
            for i in range(n):
                self._do({"op": "newconn", "subsys": subsys[i]})

        @precondition(lambda self: self.s is not None and len(self.s.conns) < Sess.MAX_CONNS)
        @rule(subsys=setup_subsys)
        def new_transport(self, subsys):
            self._do({"op": "newconn", "subsys": subsys})

        @precondition(lambda self: self.s is not None and len(self.s.conns) >= 2)
        @rule(conn=conn_ix)
        def close_transport(self, conn):
            self._do({"op": "closeconn", "conn": conn})

        @rule(conn=conn_ix, name=st.one_of(st.sampled_from(GLOBAL_NAMES), rand_name), want=st.booleans(), rest=small_rest, addr=addrs, port=ports)
        def server_global(self, conn, name, want, rest, addr, port):
            if name in ("tcpip-forward", "cancel-tcpip-forward"):
                rest = R.string(addr.encode()) + R.u32(port)
            self._do({"op": "global", "conn": conn, "name": name, "want": want, "rest": rest})

        @rule(conn=conn_ix, kind=st.one_of(st.sampled_from(OPEN_KINDS), st.sampled_from(FORWARD_KINDS), rand_name), window=win, maxpkt=pkt, addr=addrs, port=ports, rest=small_rest)
        def server_open(self, conn, kind, window, maxpkt, addr, port, rest):
            self._do({"op": "sopen", "conn": conn, "kind": kind, "window": window, "maxpkt": maxpkt, "addr": addr, "port": port, "rest": rest})

        @rule(conn=conn_ix, kind=st.sampled_from(FORWARD_KINDS), window=win, maxpkt=pkt, addr=addrs, port=ports)
        def server_open_feature(self, conn, kind, window, maxpkt, addr, port):
            self._do({"op": "sopen", "conn": conn, "kind": kind, "window": window, "maxpkt": maxpkt, "addr": addr, "port": port, "rest": b""})

        @rule(conn=conn_ix, chan=st.integers(0, 7), name=st.one_of(st.sampled_from(REQ_NAMES), st.sampled_from(RUN_REQS), rand_name), want=st.booleans(), rest=small_rest, status=st.integers(0, 0xFFFFFFFF), sub=sub_name, arg=st.integers(0, 3))
        def server_chan_request(self, conn, chan, name, want, rest, status, sub, arg):
            self._do({"op": "creq", "conn": conn, "chan": chan, "name": name, "want": want, "rest": rest, "status": status, "sub": sub, "arg": arg})

        @rule(conn=conn_ix, chan=st.integers(0, 7), name=st.sampled_from(RUN_REQS), want=st.booleans(), sub=sub_name, arg=st.integers(0, 3))
        def server_run_request(self, conn, chan, name, want, sub, arg):
            self._do({"op": "creq", "conn": conn, "chan": chan, "name": name, "want": want, "rest": b"", "status": 0, "sub": sub, "arg": arg})

        @rule(conn=conn_ix, what=st.sampled_from(["subsystem-handler", "subsystem-handler", "subsystem-handler", "server-key"]), name=st.one_of(st.sampled_from(SUBSYS_POOL), rand_name), key=st.integers(0, 2))
        def client_server_mode_config(self, conn, what, name, key):
            self._do({"op": "srvconf", "conn": conn, "what": what, "name": name, "key": key})

        @rule(conn=conn_ix, chan=st.integers(0, 7), grant=st.booleans(), handler=st.booleans(), screen=st.integers(0, 3), during=inflight("x11"))
        def client_x11(self, conn, chan, grant, handler, screen, during):
            self._do({"op": "x11", "conn": conn, "chan": chan, "grant": grant, "handler": handler, "screen": screen, "inflight": during})

        @rule(conn=conn_ix, chan=st.integers(0, 7))
        def client_agent(self, conn, chan):
            self._do({"op": "agent", "conn": conn, "chan": chan})

        @rule(conn=conn_ix, addr=addrs, port=ports, grant=st.sampled_from([True, True, True, False]), handler=st.booleans(), during=inflight("forwarded-tcpip"))
        def client_forward(self, conn, addr, port, grant, handler, during):
            self._do({"op": "fwd", "conn": conn, "addr": addr, "port": port, "grant": grant, "handler": handler, "inflight": during})

        @rule(conn=conn_ix, which=st.integers(0, 3), grant=st.sampled_from([True, True, True, False]), during=inflight(None))
        def client_cancel(self, conn, which, grant, during):
            self._do({"op": "cancel", "conn": conn, "which": which, "grant": grant, "inflight": during})

        @rule(conn=conn_ix, what=st.sampled_from(["fwd", "fwd", "x11"]), chan=st.integers(0, 7), addr=addrs, port=ports, grant=st.booleans(), handler=st.booleans(), data=st.data())
        def client_enable_with_server_traffic_in_flight(self, conn, what, chan, addr, port, grant, handler, data):
            during = data.draw(inflight("forwarded-tcpip" if what == "fwd" else "x11", empty=False))
            if what == "fwd":
                self._do({"op": "fwd", "conn": conn, "addr": addr, "port": port, "grant": grant, "handler": handler, "inflight": during})
            else:
                self._do({"op": "x11", "conn": conn, "chan": chan, "grant": grant, "handler": handler, "screen": 0, "inflight": during})

        @rule(conn=conn_ix)
        def client_open(self, conn):
            self._do({"op": "copen", "conn": conn})

        @rule(conn=conn_ix, chan=st.integers(0, 7))
        def client_close(self, conn, chan):
            self._do({"op": "cclose", "conn": conn, "chan": chan})

        def teardown(self):
            s = self.s
            if s is None:
                return
            try:
                ctx.case({"ops": s.ops}, s.nontrivial and not s.dead, sorted(set(s.classes)))
            finally:
                s.close()

    try:
        ctx.explore_machine(Machine, ctx.scale(100, 1000), steps=30)
    except Exception as e:
        # hypothesis reports "flaky" when a failing history does not fail again (or draws differently) on re-execution:
        #  * the safety-net budget ran out and the machine turned into a no-op while shrinking: says nothing about paramiko;
        #  * the client's behaviour depends on something outside the history - state shared by the Transport objects of the
        #    process that an EARLIER history left behind.  The refusal was observed on the wire all the same: a client that
        #    accepts what this history never enabled violates the statement whether or not the history alone reproduces it.
        # Keep the (unshrunk) failure in both cases; without one the run is inconclusive.
        import hypothesis.errors as HE

        flaky = tuple(getattr(HE, n) for n in ("Flaky", "FlakyStrategyDefinition", "FlakyFailure", "FlakyReplay") if hasattr(HE, n))
        if not isinstance(e, flaky):
            raise
        ctx.inconc("budget-hit-while-shrinking" if ctx.budget_hit else "failure-not-reproducible-from-its-history-alone")
        if ctx._last_fail is not None and ctx._last_fail[0] not in ctx.unknown and ctx._last_fail[0] not in ctx.known_hits:
            ctx._record_unknown(*ctx._last_fail)
        elif ctx._last_fail is None:
            raise


def replay(ctx, case):
    s = Sess(ctx)
    try:
        if case.get("earlier_in_process"):
            s.prelude(case["earlier_in_process"])
        ops = case["ops"]
        if not any(op["op"] == "newconn" for op in ops):
            ops = [{"op": "newconn"}] + list(ops)  # histories saved before several transports per history existed
        for op in ops:
            try:
                s.do(op)
            except Stop:
                break
        ctx.case({"ops": s.ops}, s.nontrivial, sorted(set(s.classes)))
    finally:
        s.close()
