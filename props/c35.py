"""C35 - signatures verify exactly when they are genuine, for every key object.

Domain: a signer (key material x provenance of the paramiko object), a message, a signature
algorithm (RSA), a verifier (same object / same key obtained another way / another key), the
data given to the verifier (same / altered), the SHAPE of the genuine signature that is selected
among several produced by the signer (ECDSA: r / s / both / neither carry the 0x00 sign byte of a
top-bit-set mpint, r or s one byte shorter than the field; RSA: leading zero octet) and a mutation
of the signature blob (none, bit flip, truncation, extension, algorithm name replaced by another one, the
GENUINE algorithm name edited in place - bytes that are / are not valid UTF-8, NUL, blanks, separators spliced in at
any gap, appended, prepended, one character replaced / deleted / doubled, case changes, with the length prefix
recomputed so that only the name differs from the genuine message -, inner-encoding
edits, structure-aware re-encodings of the genuine integers - sign byte dropped (= negative on the
wire), zero-padded (same value), 0xff-padded / sign-extended, first byte dropped - random bytes; and a JOINT
alteration of signature and data: 1..all bytes moved across the boundary between the two, at either end and in
either direction (sig[:-k] with sig[-k:]+data, sig+data[:k] with data[k:], sig[k:] with data+sig[:k], data[-k:]+sig
with data[:-k]), on the signature string (length prefix recomputed: a well-formed blob) or on the raw blob - each of
the two is altered although their concatenation is unchanged).
Key material includes RSA moduli whose bit length is NOT a multiple of 8 (committed sub-pool keys/rsa-oddbits:
1025-1031, 1535, 2047, 2052 bits, i.e. every residue 1..7 modulo 8; written once by keys/gen_rsa_oddbits.py): the
signature has ceil(bits/8) bytes, more bits than the key, and starts with a zero octet far more often.
Oracle: verify_ssh_sig returns exactly True or False and never raises; the value equals the
independent strict verifier vlib.keys.RefPub.verify (strict RFC 4253 blob parse + `cryptography`
verification under a reference public key that was obtained without paramiko); an unmodified
signature must be valid per the reference under the signer's own key.
All violations are bucketed by root cause and collected (the body never raises), so one run
enumerates every root cause; the simplest recipe per new bucket is written as replay.
"""
import io

from hypothesis import strategies as st

from vlib import core
from vlib import keymat as KM
from vlib import keys as K
from vlib import refssh as R

PROPERTY = "C35"
LEVEL = "exploration"
RULE = (
    "hypothesis draws (key material: 27 bundled key files + 10 committed RSA keys whose modulus bit length is not a multiple "
    "of 8 (1025-1031, 1535, 2047, 2052 bits: every residue 1..7; a third of the RSA keys drawn) + fresh Ed25519 seeds / ECDSA "
    "scalars (random, and constructed ones whose public x or y has leading zero bytes, smallest, largest); signer provenance: "
    "private file, file object, from_path, cryptography object as used by generate(), file+certificate; verifier: same "
    "object, same key via data=/msg=/from_type_string/AgentKey.inner_key/certificate blob/other private provenance, or "
    "another key; RSA algorithm among 6 names; message 0-2000 bytes; data same/altered; shape of the genuine signature "
    "selected among up to 1200 signatures of the signer (ECDSA r/s/both/neither with mpint sign byte, r/s short; RSA leading "
    "zero octet); blob mutation none/bitflip/"
    "truncate/extend/algorithm name replaced (other type, hash, curve, unknown, empty, invalid UTF-8)/the GENUINE algorithm name edited in "
    "place (insert at any gap, append, prepend, replace or delete one character; payloads: 12 byte strings that are not valid UTF-8, "
    "valid multi-byte UTF-8 incl. zero-width, NUL, blanks, control, separators, ASCII, drawn bytes; case changes, dashes removed, name "
    "doubled, name-list form; length prefix recomputed)/signature length/ECDSA inner "
    "integers (non-minimal, negative, zero, >= order, 4096-bit, missing, trailing, (r,n-s))/re-encoding of the genuine integers "
    "(ECDSA r, s or both; RSA/Ed25519 signature string: sign byte dropped, zero-padded by 1/2/8, 0xff-padded, sign byte replaced by "
    "0xff, first byte dropped; all length prefixes corrected)/zero-tail truncation (outer, inner)/inner length prefixes/random "
    "bytes/JOINT alteration of signature and data: k = 1-4 or 1-600 (capped at all) bytes moved across the boundary between "
    "signature and data, 4 arrangements (signature tail -> data head, data head -> signature tail, signature head -> data tail, "
    "data tail -> signature head), on the signature string with its length prefix recomputed or on the raw blob; the data given "
    "to the verifier is then the correspondingly altered one); non-trivial = anything but 'unmodified signature checked by the signing object itself'; distinct by SHA-1 "
    "of (verifier, data, blob); excluded by construction (counted): blobs that make an ECDSA verifier inflate a "
    "zero-padded mpint of more than 64 KiB (answers False, but only after 10-30 s of quadratic inflate_long)"
)

RSA_ALGS = [
    None,
    "ssh-rsa",
    "rsa-sha2-256",
    "rsa-sha2-512",
    "ssh-rsa-cert-v01@openssh.com",
    "rsa-sha2-256-cert-v01@openssh.com",
    "rsa-sha2-512-cert-v01@openssh.com",
]
ALG_EDITS = [
    b"ssh-rsa",
    b"rsa-sha2-256",
    b"rsa-sha2-512",
    b"ssh-ed25519",
    b"ecdsa-sha2-nistp256",
    b"ecdsa-sha2-nistp384",
    b"ecdsa-sha2-nistp521",
    b"ssh-dss",
    b"",
    b"\xff\xfe",
    b"ssh-rsa\x00",
    b"SSH-RSA",
    b"ssh-ed25519\xc3",
    b"ecdsa-sha2-nistp256\xe2\x82",
]
# structured edits of the GENUINE algorithm name (the field keeps its framing: the length prefix is recomputed).
# op x position x payload; the payload table mixes bytes that are not valid UTF-8 on their own (stray continuation
# bytes, lead bytes without continuation, overlong / surrogate / > U+10FFFF forms, 0xfe/0xff), valid multi-byte UTF-8,
# and ASCII that a lenient comparison might normalise away (NUL, blanks, separators, case).
ALGNAME_OPS = ["insert", "insert", "insert", "append", "prepend", "replace", "delete", "dup-char", "upper", "lower-upper-one", "swapcase", "title", "strip-dashes", "twice", "list-with"]
ALGNAME_PAYLOADS = [
    (b"\xff", "invalid-utf8"),
    (b"\xfe\xff", "invalid-utf8"),
    (b"\x80", "invalid-utf8"),
    (b"\xbf\xbf", "invalid-utf8"),
    (b"\xc3", "invalid-utf8"),
    (b"\xe2\x82", "invalid-utf8"),
    (b"\xf0\x9f\x94", "invalid-utf8"),
    (b"\xc0\xaf", "invalid-utf8"),
    (b"\xc0\x80", "invalid-utf8"),
    (b"\xed\xa0\x80", "invalid-utf8"),
    (b"\xf4\x90\x80\x80", "invalid-utf8"),
    (b"\xf8\x88\x80\x80\x80", "invalid-utf8"),
    (b"\xc3\xa9", "valid-utf8"),
    (b"\xe2\x80\x8b", "valid-utf8"),
    (b"\xef\xbb\xbf", "valid-utf8"),
    (b"\xc2\xad", "valid-utf8"),
    (b"\xcc\x81", "valid-utf8"),
    (b"\x00", "nul"),
    (b"\x00\x00\x00", "nul"),
    (b" ", "blank"),
    (b"\t", "blank"),
    (b"\n", "blank"),
    (b"\r\n", "blank"),
    (b"\x7f", "control"),
    (b"\x1b", "control"),
    (b",", "separator"),
    (b"-", "separator"),
    (b"@", "separator"),
    (b"a", "ascii"),
    (b"2", "ascii"),
]
# JOINT alteration of signature and data: k bytes move across the boundary between the two (the concatenation of the
# two byte strings, in one of the two orders, stays what it was; each of them on its own is altered).
#   sig-tail-to-data: sig' = sig[:-k]       data' = sig[-k:] + data        (sig' + data' == sig + data)
#   data-head-to-sig: sig' = sig + data[:k] data' = data[k:]               (sig' + data' == sig + data)
#   sig-head-to-data: sig' = sig[k:]        data' = data + sig[:k]         (data' + sig' == data + sig)
#   data-tail-to-sig: sig' = data[-k:] + sig  data' = data[:-k]            (data' + sig' == data + sig)
# level "string": the signature string inside the blob, length prefix recomputed (a well-formed blob);
# level "raw": the whole blob as bytes, no length field corrected.
SHIFT_DIRS = ["sig-tail-to-data", "data-head-to-sig", "sig-head-to-data", "data-tail-to-sig"]
SHIFT_LEVELS = ["string", "string", "raw"]
REENC_OPS = ["drop-lead-zero", "drop-lead-zero", "pad-zero-1", "pad-zero-2", "pad-zero-8", "pad-ff-1", "pad-ff-4", "neg-extend", "drop-first"]
# shape of the genuine signature to select: weights by repetition ("any" = first signature produced)
SELS_EC = ["any"] * 22 + ["r-sign"] * 4 + ["s-sign"] * 4 + ["both-sign"] * 4 + ["no-sign"] * 4 + ["r-short", "s-short"]
SELS_RSA = ["any"] * 39 + ["lead-zero"]
CERTS = {"t:rsa": "rsa.key-cert.pub", "t:ed25519": "ed25519.key-cert.pub", "t:ecdsa-256": "ecdsa-256.key-cert.pub"}
PRIV_PROVS = ["file", "fileobj", "object", "from_path", "file+cert"]
PUB_PROVS = ["data", "msg", "type_string", "agent_inner", "certdata"]

# ----------------------------------------------------------------------------- key objects

_cache = {}


def _kid(keyid):
    return core.to_json(keyid)


def key_class(keyid):
    if isinstance(keyid, str):
        return KM.spec(keyid).cls
    return {"ed": "Ed25519Key", "ec": "ECDSAKey"}[keyid[0]]


def ref_private(keyid):
    k = ("ref", _kid(keyid))
    if k not in _cache:
        if isinstance(keyid, str):
            _cache[k] = KM.spec(keyid).ref_private()
        elif keyid[0] == "ed":
            from cryptography.hazmat.primitives.asymmetric import ed25519

            _cache[k] = ed25519.Ed25519PrivateKey.from_private_bytes(bytes(keyid[1]))
        else:
            from cryptography.hazmat.primitives.asymmetric import ec

            curve = {"nistp256": ec.SECP256R1, "nistp384": ec.SECP384R1, "nistp521": ec.SECP521R1}[keyid[1]]
            _cache[k] = ec.derive_private_key(int(keyid[2]), curve())
    return _cache[k]


def ref_public(keyid):
    return K.RefPub.from_crypto(ref_private(keyid).public_key())


def provs_for(keyid, private_only):
    cls = key_class(keyid)
    out = ["fileobj"]
    if isinstance(keyid, str):
        out += ["file", "from_path"]
        if isinstance(keyid, str) and keyid in CERTS:
            out.append("file+cert")
    if cls != "Ed25519Key":
        out.append("object")
    if not private_only:
        out += ["data", "msg", "type_string", "agent_inner"]
        if isinstance(keyid, str) and keyid in CERTS:
            out.append("certdata")
    return sorted(out)


def _fresh_text(keyid):
    from cryptography.hazmat.primitives import serialization as S

    priv = ref_private(keyid)
    fmt = S.PrivateFormat.OpenSSH if keyid[0] == "ed" or int(keyid[2]) % 2 else S.PrivateFormat.TraditionalOpenSSL
    return priv.private_bytes(S.Encoding.PEM, fmt, S.NoEncryption()).decode()


def get_obj(keyid, prov):
    """The paramiko key object for this key material obtained the ``prov`` way (cached)."""
    k = (_kid(keyid), prov)
    if k in _cache:
        return _cache[k]
    import paramiko
    from paramiko.message import Message

    cls = getattr(paramiko, key_class(keyid))
    sp = KM.spec(keyid) if isinstance(keyid, str) else None
    pub = ref_public(keyid).blob()
    if prov == "file":
        obj = cls.from_private_key_file(sp.path, sp.password)
    elif prov == "fileobj":
        text = sp.text if sp else _fresh_text(keyid)
        obj = cls.from_private_key(io.StringIO(text), sp.password if sp else None)
    elif prov == "from_path":
        obj = paramiko.PKey.from_path(sp.path, sp.password.encode() if sp.password else None)
    elif prov == "file+cert":
        obj = cls.from_private_key_file(sp.path, sp.password)
        obj.load_certificate("/repo/tests/_support/" + CERTS[keyid])
    elif prov == "object":
        priv = ref_private(keyid)
        if cls is paramiko.RSAKey:
            obj = cls(key=priv)
        else:
            obj = cls(vals=(priv, priv.public_key()))
    elif prov == "data":
        obj = cls(data=pub)
    elif prov == "msg":
        obj = cls(msg=Message(pub))
    elif prov == "type_string":
        obj = paramiko.PKey.from_type_string(ref_public(keyid).name, pub)
    elif prov == "agent_inner":
        from paramiko.agent import AgentKey

        obj = AgentKey(None, pub).inner_key
    elif prov == "certdata":
        from paramiko.pkey import PublicBlob

        obj = cls(data=PublicBlob.from_file("/repo/tests/_support/" + CERTS[keyid]).key_blob)
    else:
        raise AssertionError(prov)
    _cache[k] = obj
    return obj


# ----------------------------------------------------------------------------- strategies


def _specs_by_class():
    out = {}
    for s in K.specs():
        out.setdefault(s.cls, []).append(s.name)
    return out


@st.composite
def keyids(draw, cls=None):
    by = _specs_by_class()
    cls = cls or draw(st.sampled_from(["RSAKey", "ECDSAKey", "Ed25519Key"]))
    kind = draw(st.integers(0, 5))
    if cls == "Ed25519Key" and kind == 0:
        return ["ed", draw(st.binary(min_size=32, max_size=32))]
    if cls == "ECDSAKey" and kind == 0:
        curve = draw(st.sampled_from(["nistp256", "nistp384", "nistp521"]))
        return ["ec", curve, draw(st.integers(1, K.curve_order(curve) - 1))]
    if cls == "ECDSAKey" and kind == 1:
        curve = draw(st.sampled_from(["nistp256", "nistp384", "nistp521"]))
        return ["ec", curve, draw(st.sampled_from(KM.ec_special_scalars(curve)))]
    if cls == "RSAKey" and kind in (0, 1):
        # modulus bit length NOT a multiple of 8 (committed sub-pool keys/rsa-oddbits, every residue 1..7):
        # the signature has ceil(bits/8) bytes and its first byte is < 2**(bits % 8)
        return draw(st.sampled_from([sp.name for sp in KM.subpool_specs("odd")]))
    return draw(st.sampled_from(by[cls]))


messages = st.one_of(st.binary(max_size=40), st.binary(max_size=40), st.binary(max_size=2000))

mutations = st.one_of(
    st.just(["none"]),
    st.just(["none"]),
    st.tuples(st.just("flip"), st.integers(0, 9999), st.integers(0, 7)).map(list),
    st.tuples(st.just("trunc"), st.integers(0, 9999)).map(list),
    st.tuples(st.just("trunc-tail"), st.integers(1, 6)).map(list),
    st.tuples(st.just("extend"), st.binary(min_size=1, max_size=8)).map(list),
    st.tuples(st.just("alg"), st.sampled_from(ALG_EDITS)).map(list),
    st.tuples(st.just("alg"), st.binary(max_size=12)).map(list),
    st.tuples(st.just("alg-edit"), st.sampled_from(ALGNAME_OPS), st.integers(0, 9999), st.integers(0, len(ALGNAME_PAYLOADS) - 1)).map(list),
    st.tuples(st.just("alg-edit"), st.sampled_from(ALGNAME_OPS), st.integers(0, 9999), st.integers(0, len(ALGNAME_PAYLOADS) - 1)).map(lambda v: list(v)),
    st.tuples(st.just("alg-edit"), st.just("insert"), st.integers(0, 9999), st.binary(min_size=1, max_size=4)).map(list),
    st.tuples(st.just("siglen"), st.sampled_from(["empty", "drop-first", "drop-last", "prepend-zero", "append-zero", "half", "double", "strip-zeros"])).map(list),
    st.tuples(
        st.just("inner"),
        st.sampled_from(
            ["nonminimal", "neg-r", "neg-s", "neg-both", "zero-r", "zero-s", "r+n", "s+n", "huge-r", "huge-s", "missing-s", "empty", "trailing", "swap", "n-s", "small", "minus-one"]
        ),
    ).map(list),
    st.tuples(st.just("reenc"), st.sampled_from(["r", "s", "both"]), st.sampled_from(REENC_OPS)).map(list),
    st.tuples(st.just("reenc"), st.sampled_from(["r", "s", "both"]), st.sampled_from(REENC_OPS)).map(list),
    st.tuples(st.just("inner-raw"), st.binary(max_size=24)).map(list),
    st.just(["zero-tail"]),
    st.just(["inner-zero-tail"]),
    st.tuples(st.just("inner-lenfield"), st.integers(0, 1), st.sampled_from(["+1", "+256", 0x100000, 0x7FFFFFFF, 0xFFFFFFFF, 0x100001, 0xFFFFF])).map(list),
    st.tuples(st.just("random"), st.binary(max_size=80)).map(list),
    st.tuples(st.just("shift"), st.sampled_from(SHIFT_DIRS), st.integers(1, 4), st.sampled_from(SHIFT_LEVELS)).map(list),
    st.tuples(st.just("shift"), st.sampled_from(SHIFT_DIRS), st.integers(1, 600), st.sampled_from(SHIFT_LEVELS)).map(list),
    st.tuples(st.just("lenfield"), st.integers(0, 1), st.sampled_from([0, 1, 0x7FFFFFFF, 0x80000000, 0xFFFFFFFF, 0x100000, 0xFFFFF])).map(list),
)


@st.composite
def recipes(draw):
    signer = draw(keyids())
    cls = key_class(signer)
    sprov = draw(st.sampled_from(provs_for(signer, True)))
    alg = draw(st.sampled_from(RSA_ALGS)) if cls == "RSAKey" else None
    msg = draw(messages)
    vk = draw(st.sampled_from(["same-object", "same-key", "same-key", "other-key-same-class", "other-key"]))
    if vk == "same-object":
        verifier, vprov = signer, sprov
    elif vk == "same-key":
        verifier, vprov = signer, draw(st.sampled_from(provs_for(signer, False)))
    else:
        verifier = draw(keyids(cls if vk == "other-key-same-class" else None))
        vprov = draw(st.sampled_from(provs_for(verifier, False)))
    data = draw(st.sampled_from(["same", "same", "same", "flip", "append", "drop", "empty", "other"]))
    sel = draw(st.sampled_from(SELS_EC if cls == "ECDSAKey" else SELS_RSA)) if cls != "Ed25519Key" else "any"
    return {
        "signer": signer,
        "sprov": sprov,
        "alg": alg,
        "msg": msg,
        "verifier": verifier,
        "vprov": vprov,
        "data": data,
        "sel": sel,
        "mut": draw(mutations),
        "aux": draw(st.integers(0, 9999)),
    }


# ----------------------------------------------------------------------------- realisation


def _split(blob):
    alg, sig = K.parse_sig(blob)
    return alg, sig


def _join(alg, sig):
    return R.string(alg) + R.string(sig)


def _inner(kind, r, s, order):
    m = R.mpint
    if kind == "nonminimal":
        return R.string(b"\x00" + R.mpint_body(r)) + R.string(b"\x00\x00" + R.mpint_body(s))
    if kind == "neg-r":
        return m(-r) + m(s)
    if kind == "neg-s":
        return m(r) + m(-s)
    if kind == "neg-both":
        return m(-r) + m(-s)
    if kind == "zero-r":
        return m(0) + m(s)
    if kind == "zero-s":
        return m(r) + m(0)
    if kind == "r+n":
        return m(r + order) + m(s)
    if kind == "s+n":
        return m(r) + m(s + order)
    if kind == "huge-r":
        return m((1 << 4096) + r) + m(s)
    if kind == "huge-s":
        return m(r) + m((1 << 4095) + s)
    if kind == "missing-s":
        return m(r)
    if kind == "empty":
        return b""
    if kind == "trailing":
        return m(r) + m(s) + b"\x00"
    if kind == "swap":
        return m(s) + m(r)
    if kind == "n-s":
        return m(r) + m(order - s)
    if kind == "small":
        return m(1) + m(1)
    if kind == "minus-one":
        return m(-1) + m(-1)
    raise AssertionError(kind)


def sig_shape(keyid, blob):
    """Structural facts about a GENUINE signature blob (set of names). ECDSA, per integer: "-sign" = the mpint
    carries the 0x00 sign byte (top bit of the magnitude set), "-short" = fewer bytes than the field; RSA:
    "lead-zero" = the signature string starts with a zero octet."""
    cls = key_class(keyid)
    alg, sig = _split(blob)
    out = set()
    if cls == "ECDSAKey":
        rd = R.Reader(sig)
        width = (ref_public(keyid).bits + 7) // 8
        for name in ("r", "s"):
            body = rd.string()
            if body[:1] == b"\x00":
                out.add(name + "-sign")
            elif len(body) < width:
                out.add(name + "-short")
        out.add("both-sign" if {"r-sign", "s-sign"} <= out else ("no-sign" if not {"r-sign", "s-sign"} & out else "one-sign"))
    elif cls == "RSAKey" and sig[:1] == b"\x00":
        out.add("lead-zero")
    return out


def select_signature(sign, keyid, msg, want, limit=1200):
    """(msg', blob, found): the first signature over msg, msg#0, msg#1, ... whose shape has ``want``
    (ECDSA sign bytes: every 2nd-4th signature; short integers / RSA leading zero: one in 256)."""
    blob = sign(msg)
    if want == "any" or want in sig_shape(keyid, blob):
        return msg, blob, True
    for i in range(limit):
        cand = msg + b"#%d" % i
        bl = sign(cand)
        if want in sig_shape(keyid, bl):
            return cand, bl, True
    return msg, blob, False


def _reenc(body, op):
    """Re-encode one integer string of a genuine signature; None when the op does not apply to these bytes."""
    if op == "drop-lead-zero":  # ECDSA mpint: the sign byte goes -> the same bits now denote a negative value
        return body[1:] if body[:1] == b"\x00" and len(body) > 1 else None
    if op == "neg-extend":  # sign byte 0x00 -> 0xff: negative, same length
        return b"\xff" + body[1:] if body[:1] == b"\x00" and len(body) > 1 else None
    if op.startswith("pad-zero-"):  # same value, non-minimal
        return b"\x00" * int(op[9:]) + body
    if op.startswith("pad-ff-"):  # negative
        return b"\xff" * int(op[7:]) + body
    if op == "drop-first":
        return body[1:]
    raise AssertionError(op)


def _alg_payload(p):
    """(bytes, class) of an alg-edit payload: index into ALGNAME_PAYLOADS or literal bytes."""
    if isinstance(p, int):
        return ALGNAME_PAYLOADS[p % len(ALGNAME_PAYLOADS)]
    raw = bytes(p)
    try:
        raw.decode("utf-8")
    except UnicodeDecodeError:
        return raw, "invalid-utf8"
    return raw, "ascii" if all(32 < c < 127 for c in raw) else "drawn-valid-utf8"


def alg_edit(name, op, frac, payload):
    """One structured edit of the genuine algorithm-name bytes; None when it leaves the name unchanged."""
    pay, _ = _alg_payload(payload)
    pos = frac * (len(name) + 1) // 10000  # 0 .. len(name): every gap incl. both ends
    cpos = min(pos, len(name) - 1)  # a character position
    if op == "insert":
        new = name[:pos] + pay + name[pos:]
    elif op == "append":
        new = name + pay
    elif op == "prepend":
        new = pay + name
    elif op == "replace":
        new = name[:cpos] + pay + name[cpos + 1 :]
    elif op == "delete":
        new = name[:cpos] + name[cpos + 1 :]
    elif op == "dup-char":
        new = name[: cpos + 1] + name[cpos:]
    elif op == "upper":
        new = name.upper()
    elif op == "lower-upper-one":
        new = name[:cpos] + name[cpos : cpos + 1].upper() + name[cpos + 1 :]
        if new == name:  # a digit or dash there: take the first letter instead
            new = name[:1].upper() + name[1:]
    elif op == "swapcase":
        new = name.swapcase()
    elif op == "title":
        new = name.title()
    elif op == "strip-dashes":
        new = name.replace(b"-", b"")
    elif op == "twice":
        new = name + name
    elif op == "list-with":
        new = name + b"," + (pay if pay.isalnum() else b"ssh-rsa")
    else:
        raise AssertionError(op)
    return None if new == name else new


def shift_across(sig, data, direction, k):
    """Move k bytes (at most all of them) across the boundary between a signature and the signed data:
    (sig', data') or None when there is nothing to move."""
    if direction == "sig-tail-to-data":
        k = min(k, len(sig))
        out = (sig[: len(sig) - k], sig[len(sig) - k :] + data)
    elif direction == "data-head-to-sig":
        k = min(k, len(data))
        out = (sig + data[:k], data[k:])
    elif direction == "sig-head-to-data":
        k = min(k, len(sig))
        out = (sig[k:], data + sig[:k])
    elif direction == "data-tail-to-sig":
        k = min(k, len(data))
        out = (data[len(data) - k :] + sig, data[: len(data) - k])
    else:
        raise AssertionError(direction)
    return out if k > 0 else None


def realise(rc, info=None):
    """recipe -> (data, blob, applied) ; applied False when the mutation does not apply to this key type.
    ``info`` (dict) receives "shape" (sig_shape of the genuine signature) and "sel" / "sel_found"."""
    signer = get_obj(rc["signer"], rc["sprov"])
    msg = bytes(rc["msg"])
    mut = list(rc["mut"])
    kind = mut[0]
    cls = key_class(rc["signer"])

    def sign(m):
        if rc["alg"] is None:
            return signer.sign_ssh_data(m).asbytes()
        return signer.sign_ssh_data(m, rc["alg"]).asbytes()

    sel = rc.get("sel", "any")
    if kind == "reenc" and mut[2] in ("drop-lead-zero", "neg-extend"):
        # these re-encodings need the byte they remove: select a genuine signature that has it
        if cls == "ECDSAKey":
            sel = {"r": "r-sign", "s": "s-sign", "both": "both-sign"}[mut[1]]
        elif cls == "RSAKey":
            sel = "lead-zero"
    if cls == "Ed25519Key" or (cls == "RSAKey" and sel != "lead-zero") or (cls == "ECDSAKey" and sel == "lead-zero"):
        sel = "any"
    applied = True
    if kind in ("zero-tail", "inner-zero-tail") or (kind == "siglen" and mut[1] == "strip-zeros"):
        sel = "any"  # these run their own directed search below
    if info is not None:
        info["sel"], info["sel_found"] = sel, True
    if kind == "zero-tail":
        # directed search (deterministic given the recipe): a message whose signature ends in a zero byte,
        # then the blob loses that byte without the length field being corrected
        blob = None
        for i in range(3000):
            cand = msg + b"#%d" % i
            bl = sign(cand)
            if bl.endswith(b"\x00"):
                msg, blob = cand, bl
                break
        if blob is None:
            blob, applied = sign(msg), False
    else:
        msg, blob, found = select_signature(sign, rc["signer"], msg, sel)
        if info is not None:
            info["sel_found"] = found
    alg, sig = _split(blob)
    if info is not None:
        info["shape"] = sig_shape(rc["signer"], blob)
    if kind == "zero-tail" and applied:
        blob = blob[:-1]
    if kind in ("none", "zero-tail"):
        pass
    elif kind == "flip":
        pos = mut[1] * len(blob) // 10000
        blob = blob[:pos] + bytes([blob[pos] ^ (1 << mut[2])]) + blob[pos + 1 :]
    elif kind == "trunc":
        blob = blob[: mut[1] * len(blob) // 10000]
    elif kind == "trunc-tail":
        blob = blob[: -mut[1]]
    elif kind == "extend":
        blob = blob + bytes(mut[1])
    elif kind == "alg":
        blob = _join(bytes(mut[1]), sig)
    elif kind == "alg-edit":
        new = alg_edit(alg, mut[1], mut[2], mut[3])
        if new is None:
            applied = False
        else:
            blob = _join(new, sig)
    elif kind == "siglen":
        how = mut[1]
        if how == "empty":
            sig2 = b""
        elif how == "drop-first":
            sig2 = sig[1:]
        elif how == "drop-last":
            sig2 = sig[:-1]
        elif how == "prepend-zero":
            sig2 = b"\x00" + sig
        elif how == "append-zero":
            sig2 = sig + b"\x00"
        elif how == "half":
            sig2 = sig[: len(sig) // 2]
        elif how == "double":
            sig2 = sig + sig
        else:  # strip-zeros: the PuTTY form (same integer) when the signature happens to start with zeros
            sig2 = sig.lstrip(b"\x00")
            # directed: look for a signature with a leading zero octet (RSA only; 1/256 per try)
            if cls == "RSAKey" and sig2 == sig:
                for i in range(1500):
                    cand = msg + b"#%d" % i
                    a2, s2 = _split(sign(cand))
                    if s2[:1] == b"\x00":
                        msg, sig2 = cand, s2.lstrip(b"\x00")
                        break
                else:
                    applied = False
        blob = _join(alg, sig2)
    elif kind == "inner":
        if cls != "ECDSAKey":
            applied = False
        else:
            rd = R.Reader(sig)
            r_, s_ = rd.mpint(), rd.mpint()
            blob = _join(alg, _inner(mut[1], r_, s_, K.curve_order(ref_public(rc["signer"]).curve)))
    elif kind == "reenc":
        if cls == "ECDSAKey":
            rd = R.Reader(sig)
            bodies = {"r": rd.string(), "s": rd.string()}
            for t in ("r", "s") if mut[1] == "both" else (mut[1],):
                new = _reenc(bodies[t], mut[2])
                if new is None:
                    applied = False
                else:
                    bodies[t] = new
            blob = _join(alg, R.string(bodies["r"]) + R.string(bodies["s"]))
        else:  # RSA (the signature is one integer, RFC 8017 I2OSP form) / Ed25519 (fixed 64 bytes)
            new = _reenc(sig, mut[2])
            if new is None:
                applied = False
            else:
                blob = _join(alg, new)
    elif kind == "inner-raw":
        blob = _join(alg, bytes(mut[1]))
    elif kind == "inner-lenfield":
        # overwrite the length prefix of r (0) or s (1) inside an ECDSA blob; the outer framing stays correct
        applied = False
        if cls == "ECDSAKey":
            rd = R.Reader(sig)
            rb = rd.string()
            off = 0 if mut[1] == 0 else 4 + len(rb)
            cur = int.from_bytes(sig[off : off + 4], "big")
            val = cur + int(mut[2]) if isinstance(mut[2], str) else mut[2]
            blob, applied = _join(alg, sig[:off] + R.u32(val) + sig[off + 4 :]), True
    elif kind == "inner-zero-tail":
        # directed: s ends in a zero byte; the inner encoding loses it (inner length field untouched,
        # outer length field correct)
        applied = False
        if cls == "ECDSAKey":
            for i in range(3000):
                cand = msg + b"#%d" % i
                a2, s2 = _split(sign(cand))
                if s2.endswith(b"\x00"):
                    msg, blob, applied = cand, _join(a2, s2[:-1]), True
                    break
    elif kind == "random":
        blob = bytes(mut[1])
    elif kind == "shift":
        target = sig if mut[3] == "string" else blob
        moved = shift_across(target, msg, mut[1], mut[2])
        if moved is None:
            applied = False
        else:
            blob = _join(alg, moved[0]) if mut[3] == "string" else moved[0]
            return moved[1], blob, True  # the data is part of the alteration: rc["data"] does not apply
    elif kind == "lenfield":
        # overwrite one of the two length fields
        off = 0 if mut[1] == 0 else 4 + len(alg)
        blob = blob[:off] + R.u32(mut[2]) + blob[off + 4 :]
    else:
        raise AssertionError(kind)

    d = rc["data"]
    aux = rc["aux"]
    if d == "same":
        data = msg
    elif d == "flip":
        if msg:
            p = aux % len(msg)
            data = msg[:p] + bytes([msg[p] ^ (1 << (aux % 8))]) + msg[p + 1 :]
        else:
            data = b"\x00"
    elif d == "append":
        data = msg + b"\x00"
    elif d == "drop":
        data = msg[:-1] if msg else b"x"
    elif d == "empty":
        data = b"" if msg else b"\x00"
    else:
        data = b"other:" + msg[::-1]
    return data, blob, applied


# ----------------------------------------------------------------------------- oracle


def judge(rc, data, blob):
    """-> None or (clause, bucket, detail)."""
    from paramiko.message import Message

    vcls = key_class(rc["verifier"])
    verifier = get_obj(rc["verifier"], rc["vprov"])
    expected, reason = ref_public(rc["verifier"]).verify(data, blob)
    pristine = (
        rc["mut"][0] == "none"
        and rc["data"] == "same"
        and ref_public(rc["verifier"]).same(ref_public(rc["signer"]))
    )
    if pristine and not expected:
        return ("signature-not-valid-per-reference", "%s:%s:%s" % (key_class(rc["signer"]), rc["sprov"], reason), "sign_ssh_data output rejected by the reference verifier: " + reason)
    try:
        got = verifier.verify_ssh_sig(data, Message(blob))
    except Exception as e:
        return ("verify-raises", "%s:%s" % (vcls, K.exc_bucket(e)), "%r (reference says %s/%s; verifier provenance %s)" % (e, expected, reason, rc["vprov"]))
    if got is not True and got is not False:
        return ("verify-returns-non-bool", "%s:%s" % (vcls, type(got).__name__), repr(got))
    if got and not expected:
        return ("accepts-invalid", "%s:%s" % (vcls, reason), "verify_ssh_sig returned True, reference verifier says False (%s)" % reason)
    if expected and not got:
        return ("rejects-genuine", "%s:%s:%s" % (vcls, rc["vprov"], rc["mut"][0]), "verify_ssh_sig returned False, reference verifier says True")
    return None


def _simpler(rc):
    """Candidate simplifications of a recipe (tried in order by the per-bucket minimiser)."""
    out = []
    for m in (b"", b"a"):
        if len(bytes(rc["msg"])) > len(m):
            out.append(dict(rc, msg=m))
    if rc["data"] != "same":
        out.append(dict(rc, data="same"))
    if rc["verifier"] != rc["signer"] and key_class(rc["verifier"]) == key_class(rc["signer"]) and rc["vprov"] in provs_for(rc["signer"], False):
        out.append(dict(rc, verifier=rc["signer"]))
    if rc["alg"] is not None:
        out.append(dict(rc, alg=None))
    if rc.get("sel", "any") != "any":
        out.append(dict(rc, sel="any"))
    if rc["mut"][0] == "shift" and rc["mut"][2] != 1:
        out.append(dict(rc, mut=[rc["mut"][0], rc["mut"][1], 1, rc["mut"][3]]))
    if rc["mut"][0] in ("flip", "trunc") and rc["mut"][1] != 0:
        out.append(dict(rc, mut=[rc["mut"][0], 0] + list(rc["mut"][2:])))
    return out


def _amplified(blob):
    """True when an ECDSA verifier would inflate a zero-padded mpint of more than 64 KiB out of this blob.

    Message.get_bytes pads a short read up to 1 MiB and util.inflate_long is quadratic, so a 30-byte blob that
    declares a 900 KB mpint keeps verify_ssh_sig busy for 10-30 s. It still answers (False), i.e. it is outside
    the statement; such blobs are excluded by construction (and counted) because they would eat the time budget.
    """

    def lenient(buf, pos):  # Message.get_string
        n = int.from_bytes((buf[pos : pos + 4] + b"\0\0\0\0")[:4], "big")
        body = buf[pos + 4 : pos + 4 + n]
        if len(body) < n < (1 << 20):
            body = body + b"\0" * (n - len(body))
        return body, pos + 4 + n

    alg, pos = lenient(blob, 0)
    sig, _ = lenient(blob, pos)
    r, pos = lenient(sig, 0)
    s, _ = lenient(sig, pos)
    return len(r) > 65536 or len(s) > 65536


class _State:
    def __init__(self):
        self.seen = set()


def execute(ctx, rc, state):
    info = {}
    data, blob, applied = realise(rc, info)
    if not applied:
        ctx.count("mutation-not-applicable")
    if not info["sel_found"]:
        ctx.count("selection-not-found:" + info["sel"])
    extra = ["genuine-shape:%s:%s" % (key_class(rc["signer"]), x) for x in sorted(info.get("shape", ()))]
    if info["sel"] != "any":
        extra.append("sel:" + info["sel"])
    if rc["mut"][0] == "reenc" and applied:
        extra.append("reenc:%s:%s" % (key_class(rc["signer"]), rc["mut"][2]))
    if rc["mut"][0] == "alg-edit" and applied:
        op = rc["mut"][1]
        extra.append("alg-edit:%s:%s" % (key_class(rc["signer"]), op))
        if op in ("insert", "append", "prepend", "replace"):
            extra.append("alg-edit-payload:%s:%s" % ({"insert": "spliced", "replace": "spliced"}.get(op, op), _alg_payload(rc["mut"][3])[1]))
    joint = rc["mut"][0] == "shift" and applied
    if joint:
        extra.append("joint:%s:%s:%s" % (key_class(rc["signer"]), rc["mut"][1], rc["mut"][3]))
        extra.append("joint-k:" + ("1-4" if rc["mut"][2] <= 4 else "5+"))
    for role in ("signer", "verifier"):
        if key_class(rc[role]) == "RSAKey":
            extra.append("%s-rsa-modulus-bits-mod8:%d" % (role, ref_public(rc[role]).bits % 8))
    if not isinstance(rc["signer"], str) and rc["signer"][0] == "ec":
        lx, ly = KM.ec_coord_shape(ref_private(rc["signer"]).public_key())
        extra.append("signer-ec-coord:" + ("short" if lx or ly else "full"))
    trivial = rc["mut"][0] == "none" and rc["data"] == "same" and rc["verifier"] == rc["signer"] and rc["vprov"] == rc["sprov"]
    case = {"recipe": rc, "data": data, "blob": blob}
    ident = {"verifier": rc["verifier"], "vprov": rc["vprov"], "data": data, "blob": blob}
    ctx.case(
        ident,
        not trivial,
        ["signer:%s:%s" % (key_class(rc["signer"]), rc["sprov"]), "verifier:%s:%s" % (key_class(rc["verifier"]), rc["vprov"]), "mut:" + rc["mut"][0], "data:" + ("moved-across-the-boundary" if joint else rc["data"])] + extra,
    )
    if key_class(rc["verifier"]) == "ECDSAKey" and _amplified(blob):
        ctx.exclude("ecdsa-mpint-padded-beyond-64KiB")
        return
    res = judge(rc, data, blob)
    ctx.count("expected-true" if ref_public(rc["verifier"]).verify(data, blob)[0] else "expected-false")
    if res is None:
        return
    clause, bucket, detail = res
    sig = "%s|%s" % (clause, bucket)
    if sig not in state.seen and sig not in ctx._known_open:
        # new root cause: look for the simplest recipe that still shows exactly this signature
        state.seen.add(sig)
        best = (rc, data, blob, detail)
        progress = True
        while progress:
            progress = False
            for cand in _simpler(best[0]):
                try:
                    d2, b2, ap = realise(cand)
                    r2 = judge(cand, d2, b2)
                except Exception:
                    continue
                if r2 is not None and "%s|%s" % (r2[0], r2[1]) == sig:
                    best = (cand, d2, b2, r2[2])
                    progress = True
                    break
        case = {"recipe": best[0], "data": best[1], "blob": best[2]}
        detail = best[3]
    ctx.violation(clause, bucket, case, detail)


def run(ctx):
    ctx.set_budget(55, 800)
    ctx._known_open = set(k for k, e in core.load_known(PROPERTY).items() if e.get("status") == "open")
    ctx.assume("RSA signature algorithm names with the -cert-v01@openssh.com suffix are accepted as aliases (documented in RSAKey.HASHES)")
    ctx.assume("integers inside ECDSA signatures may be encoded non-minimally: the decoded value is what is verified")
    state = _State()
    ctx.explore(recipes(), lambda rc: execute(ctx, rc, state), ctx.scale(4000, 50000), shrink=False)


def replay(ctx, case):
    """Saved cases carry the realised (data, blob): verification is re-run on exactly those bytes."""
    rc = case["recipe"]
    res = judge(rc, bytes(case["data"]), bytes(case["blob"]))
    ctx.case({"verifier": rc["verifier"], "vprov": rc["vprov"], "data": case["data"], "blob": case["blob"]}, True, ["replay"])
    if res is not None:
        ctx.violation(res[0], res[1], case, res[2])
