"""C07 - signatures must use the negotiated (host key) / declared (publickey auth) algorithm.

Finite domain, enumerated completely in every run (plus hypothesis-drawn repetitions that vary
the key and the user name):

role "kex"  (tested: client verifying the server's signature over H)
    negotiated algorithm X in {ssh-rsa, rsa-sha2-256, rsa-sha2-512} and their -cert-v01 variants
    x algorithm Y the server really signs with / names in the signature blob (same three)
    x the client's enabled set E (every subset of the three RSA names that contains base(X));
    RSA signature made with the hash of one algorithm but LABELLED with the negotiated one.
    ECDSA / Ed25519: genuine signature re-labelled with another algorithm name.
    Every ordered pair (negotiated key type, foreign key type) of RSA / ECDSA-256/384/521 / Ed25519:
    key blob + genuine signature of the foreign key, labelled honestly for that key, or re-labelled
    with the negotiated name.
    The lying server is the NON-tested peer: its host key object signs with Y whatever it is
    asked for (its `sign_ssh_data` ignores the requested algorithm).
    x the exchange the lie starts in: k = 1 + len(rekeys) in 1..3. The first k-1 exchanges (initial
    handshake and re-exchanges, initiator client or server) are answered honestly - genuine key,
    signature of the negotiated algorithm -, from exchange k on the key object lies as above.
    "The client accepts a key exchange only if ..." holds for every exchange of a session, and the
    negotiated algorithm is that of the exchange in question.
role "auth" (tested: server verifying a publickey USERAUTH_REQUEST)
    declared algorithm D (same six names) x signature algorithm Y x the server's enabled
    `pubkeys` set E (all eight subsets); ECDSA / Ed25519 re-labelled. The client is a puppet
    that builds the request by hand: the signature is made over the RFC 4252 7 blob that names D,
    hashed with Y's hash and labelled Y.
Oracle: accepted  <=>  Y == base(X or D)  and  base(X or D) in E  (cert suffix stripped)  and the
  signature really is one of algorithm Y by the key of the negotiated / declared type.
  kex: accepted = start_client returns and initial_kex_done; rejected = it raises and no NEWKEYS
       k >= 2: accepted = the re-exchange completes; rejected = the client never switches its outbound
       keys a k-th time, its byte stream (decoded by `peers.Tap`) holds k-1 NEWKEYS, its transport ends
  auth: accepted = USERAUTH_SUCCESS and is_authenticated(); rejected = FAILURE/DISCONNECT and not authenticated
"""
import os

from hypothesis import strategies as st

from vlib import core, lying, mitm, peers
from vlib import refssh as R

PROPERTY = "C07"
LEVEL = "exploration"
RULE = (
    "complete enumeration of role {kex, auth} x negotiated/declared RSA algorithm (3 + 3 cert variants) x algorithm used "
    "and named in the signature (3) x verifier's enabled subset (kex: 4 subsets containing the negotiated one; auth: all 8), "
    "plus RSA signatures of one hash labelled as the negotiated/declared algorithm, ECDSA/Ed25519 signatures re-labelled with every "
    "other algorithm name, and foreign key + signature for every ordered pair of the 5 key types (labelled honestly / as negotiated); role kex "
    "additionally x the exchange in which the server starts to lie (1 = initial handshake, 2, 3 = re-exchanges after honest "
    "ones; initiators rotating over client/server in the enumeration, drawn in the repetitions); then hypothesis-drawn "
    "repetitions varying key (rsa1024/rsa2048/rsa2048b), user name and the re-exchange history. non-trivial = signature "
    "algorithm differs from the negotiated/declared one, or that one is disabled; distinct by full case"
)

RSA = ["ssh-rsa", "rsa-sha2-256", "rsa-sha2-512"]
CERT = "-cert-v01@openssh.com"
EC = {"ecdsa-sha2-nistp256": "ecdsa256", "ecdsa-sha2-nistp384": "ecdsa384", "ecdsa-sha2-nistp521": "ecdsa521", "ssh-ed25519": "ed25519"}
ALLKEYALGS = RSA + list(EC)
LABELS = RSA + list(EC)
FAST_KEX = "curve25519-sha256@libssh.org"


def base(name):
    return name.replace(CERT, "")


def subsets(names):
    out = [[]]
    for n in names:
        out += [s + [n] for s in out]
    return out


_cert = {}


def cert_key():
    """RSA key + OpenSSH certificate from the repository's test material."""
    if "k" not in _cert:
        import paramiko

        d = os.path.join(core.repo_path(), "tests", "_support")
        k = paramiko.RSAKey.from_private_key_file(os.path.join(d, "rsa.key"))
        k.load_certificate(os.path.join(d, "rsa.key-cert.pub"))
        _cert["k"] = k
    return _cert["k"]


def _relabel(sigmsg, label):
    from paramiko.message import Message

    rd = R.Reader(sigmsg.asbytes())
    rd.string()
    return Message(R.string(label) + rd.rest())


def _sign(key, data, label, hashalg=None):
    """Signature message over `data` by `key`, labelled `label`. RSA keys sign with the hash of
    `hashalg` (default: that of the label, if it is an RSA name); other keys sign the only way they
    can. The label is whatever the case says - it need not describe how the signature was made."""
    hashalg = hashalg or label
    if key.get_name() == "ssh-rsa" and hashalg in RSA:
        sig = key.sign_ssh_data(data, hashalg)
        return sig if hashalg == label else _relabel(sig, label)
    return _relabel(key.sign_ssh_data(data, None), label)


class LyingHostKey:
    """Host key object for the non-tested server. From its `k`-th signature on it shows `blob` and
    signs with `hashalg` (RSA; default `sigalg`) or signs genuinely (ECDSA/Ed25519) and labels the
    result `sigalg`, whatever it is asked for. Before that (k > 1) it is the honest key `honest`: genuine blob,
    signature of the algorithm it was asked for. (Every kex engine calls asbytes() and then
    sign_ssh_data() once per exchange, so the number of signatures made tells the exchange.)"""

    def __init__(self, key, sigalg, blob=None, k=1, honest=None, honest_blob=None, hashalg=None):
        self.key = key
        self.sigalg = sigalg
        self.hashalg = hashalg or sigalg  # RSA: the algorithm the signature is really made with
        self.blob = blob if blob is not None else key.asbytes()
        self.k = k
        self.honest = honest if honest is not None else key
        self.honest_blob = honest_blob if honest_blob is not None else (blob if honest is None and blob is not None else self.honest.asbytes())
        self.asked = []
        self.lied = []

    def _lying(self):
        return len(self.asked) + 1 >= self.k

    def asbytes(self):
        return self.blob if self._lying() else self.honest_blob

    def get_name(self):
        return self.key.get_name() if self._lying() else self.honest.get_name()

    def sign_ssh_data(self, data, algorithm=None):
        lying_now = self._lying()
        self.asked.append(algorithm)
        if not lying_now:
            return self.honest.sign_ssh_data(data, algorithm)
        self.lied.append(len(self.asked))
        return _sign(self.key, data, self.sigalg, self.hashalg)


def _key(case):
    if case.get("cert"):
        return cert_key()
    return peers.keypool()[case["key"]]


def _why(fam, case, alg, y, enabled):
    """Root-cause bucket of an acceptance that should have been a rejection."""
    if case.get("wrongtype"):
        return "other-curve-accepted" if base(alg) in EC and case["wrongtype"].startswith("ecdsa") else "wrong-key-type-accepted"
    if base(alg) not in enabled:
        return "declared-algorithm-disabled-accepted"
    if case.get("hashalg") and case["hashalg"] != y:
        return "signature-of-another-hash-accepted"
    if fam == "ec":
        return "relabelled-signature-accepted"
    if y not in RSA:
        return "non-rsa-label-accepted"
    return "mismatch-accepted" if y in enabled else "disabled-hash-accepted"


# ----------------------------------------------------------------------------- role kex


def run_kex(ctx, case):
    x, y, enabled = case["alg"], case["sigalg"], case["enabled"]
    rekeys = list(case.get("rekeys") or [])  # initiators of exchanges 2..k; the lie starts in exchange k
    k = 1 + len(rekeys)
    key = _key(case)
    blob = key.public_blob.key_blob if case.get("cert") else None
    if case.get("wrongtype"):
        # key and signature of another type than negotiated
        other = peers.keypool()[case["wrongtype"]]
        lying_key = LyingHostKey(other, y, k=k, honest=key, hashalg=case.get("hashalg"))
    else:
        lying_key = LyingHostKey(key, y, blob, k=k, hashalg=case.get("hashalg"))
    madewith = case.get("hashalg") or y
    expect = y == base(x) and madewith == y and base(x) in enabled and not case.get("wrongtype")
    nontriv = y != base(x) or madewith != y or bool(case.get("wrongtype"))
    cls = ["kex", "kex:expect-accept" if expect else "kex:expect-reject", "kex:cert" if case.get("cert") else "kex:plain", "kex:lie-from-exchange:%d" % k]
    if k >= 2:
        cls.append("kex:lying-exchange-started-by:" + ("client" if rekeys[-1] == "c" else "server"))
    ctx.case(case, nontriv, cls)
    ckw = {"disabled_algorithms": {"kex": [k_ for k_ in mitm.ALL_KEX if k_ != FAST_KEX], "keys": [a for a in ALLKEYALGS if a not in enabled]}}
    link, tc, ts = peers.make_pair(client_kw=ckw, host_keys=())
    ts.server_key_dict = {x: lying_key}
    m = mitm.PlainMitm(link)
    prefix_failure = None
    res = None
    try:
        ce, se = peers.start_both(tc, ts, timeout=30.0)
        done = bool(tc.initial_kex_done)
        negotiated = tc.host_key_type
        if k >= 2:
            if ce or se or not done:
                prefix_failure = "initial exchange: client=%r server=%r" % (ce, se)
            else:
                try:
                    tc.auth_password("u", "pw")
                    lying.rekey_prefix(tc, ts, rekeys[:-1])
                except Exception as e:
                    prefix_failure = "honest re-exchange: %r" % (e,)
                else:
                    res = lying.rekey_observed(tc, ts, rekeys[-1], k)
                    negotiated = tc.host_key_type
    finally:
        peers.shutdown(tc, ts)
        mitm.cancel_timers(tc, ts)
    c_chunks, c_epochs = list(link.ab.sent), list(tc.v_out)
    if negotiated != x:
        raise core.HarnessError("could not steer the negotiation to %r (got %r, client=%r server=%r)" % (x, negotiated, ce, se))
    fam = "rsa" if base(x) in RSA else "ec"
    if prefix_failure is not None:
        # exchanges 1..k-1 were answered with the genuine key and the negotiated algorithm
        ctx.violation("kex-signature-algorithm", "%s:honest-signature-rejected" % fam, case, "before the lie: " + prefix_failure)
        return False
    if not lying_key.lied:
        raise core.HarnessError("lying host key was never asked to sign exchange %d (client=%r server=%r rekey=%r)" % (k, ce, se, res))
    if k == 1:
        accepted = ce is None and done
        newkeys = 21 in m.types("c2s")
        rejected_cleanly = not (accepted or newkeys or done)
        outcome = "start_client -> %r, initial_kex_done=%s, client sent NEWKEYS=%s" % (ce, done, newkeys)
    else:
        nk = lying.client_newkeys(c_chunks, c_epochs)
        accepted = bool(res["accepted"]) and res["exc"] is None and res["returned"]
        if res["busy"] and not res["accepted"] and nk < k:
            ctx.inconc("kex:client-undecided-at-timeout")
            return True
        rejected_cleanly = not (res["accepted"] or nk >= k)
        outcome = "exchange %d (started by %s): renegotiate_keys -> %r, client switched outbound keys %d time(s), NEWKEYS in the client's stream %d, client active afterwards=%s" % (
            k, "client" if rekeys[-1] == "c" else "server", res["exc"], len(c_epochs), nk, res["active"])
    if expect and not accepted:
        ctx.violation("kex-signature-algorithm", "%s:honest-signature-rejected" % fam, case, outcome)
        return False
    if not expect and not rejected_cleanly:
        why = _why(fam, case, x, y, enabled) + ("-on-rekey" if k >= 2 else "")
        ctx.violation(
            "kex-signature-algorithm",
            "%s:%s" % (fam, why),
            case,
            "negotiated %s, client enables %r, server labelled its signature %s (made with %s%s): %s" % (x, enabled, y, madewith, ", key " + case["wrongtype"] if case.get("wrongtype") else "", outcome),
        )
        return False
    return True


# ----------------------------------------------------------------------------- role auth


def run_auth(ctx, case):
    d, y, enabled = case["alg"], case["sigalg"], case["enabled"]
    user = case.get("user", "u")
    key = _key(case)
    if case.get("wrongtype"):  # key blob and (genuine) signature of another type than declared
        key = peers.keypool()[case["wrongtype"]]
    blob = key.public_blob.key_blob if case.get("cert") else key.asbytes()
    madewith = case.get("hashalg") or y
    expect = y == base(d) and madewith == y and base(d) in enabled and not case.get("wrongtype")
    nontriv = y != base(d) or madewith != y or base(d) not in enabled or bool(case.get("wrongtype"))
    ctx.case(case, nontriv, ["auth", "auth:expect-accept" if expect else "auth:expect-reject", "auth:cert" if case.get("cert") else "auth:plain"])
    srv = peers.RecordingServer({"check_auth_publickey": peers.AUTH_SUCCESSFUL}, allowed="publickey")
    skw = {"disabled_algorithms": {"pubkeys": [a for a in ALLKEYALGS if a not in enabled]}}
    ckw = {"disabled_algorithms": {"kex": [k for k in mitm.ALL_KEX if k != FAST_KEX]}}
    link, tc, ts = peers.make_pair(client_cls=peers.Puppet, server_cls=peers.VTransport, client_kw=ckw, server_kw=skw)
    try:
        ce, se = peers.start_both(tc, ts, srv, timeout=30.0)
        if ce or se:
            raise core.HarnessError("handshake failed: %r %r" % (ce, se))
        tc.raw()
        tc.send_raw(peers.m_service_request())
        if not tc.wait_log(lambda lg: any(e[1] == 6 for e in lg) or not ts.is_active(), 15.0) or not ts.is_active():
            raise core.HarnessError("no SERVICE_ACCEPT")
        signed = R.string(tc.session_id) + bytes([50]) + R.string(user) + R.string("ssh-connection") + R.string("publickey") + R.boolean(True) + R.string(d) + R.string(blob)
        sig = _sign(key, signed, y, case.get("hashalg")).asbytes()
        req = peers.m_userauth_request(user, "ssh-connection", "publickey", R.boolean(True) + R.string(d) + R.string(blob) + R.string(sig))
        tc.send_raw(req)
        got = tc.wait_log(lambda lg: [e[1] for e in lg if e[1] in (51, 52, 1)] or (not ts.is_active() and ["dead"]), 15.0)
        authed = bool(ts.is_authenticated())
        checked = [c for c in srv.calls if c[0] == "check_auth_publickey"]
    finally:
        peers.shutdown(tc, ts)
        mitm.cancel_timers(tc, ts)
    if not got:
        ctx.inconc("auth:no-reply")
        return True
    accepted = authed or got[0] == 52
    fam = "rsa" if base(d) in RSA else "ec"
    if expect and not (authed and got[0] == 52):
        ctx.violation("auth-signature-algorithm", "%s:honest-signature-rejected" % fam, case, "reply %r authenticated=%s" % (got, authed))
        return False
    if not expect and accepted:
        why = _why(fam, case, d, y, enabled)
        ctx.violation(
            "auth-signature-algorithm",
            "%s:%s" % (fam, why),
            case,
            "request declares %s, server enables pubkeys %r, signature labelled %s (made with %s%s): reply %r, is_authenticated()=%s, check_auth_publickey called %d time(s)"
            % (d, enabled, y, madewith, ", key " + case["wrongtype"] if case.get("wrongtype") else "", got, authed, len(checked)),
        )
        return False
    return True


# ----------------------------------------------------------------------------- domain


def domain():
    cases = []
    for cert in (False, True):
        for x in RSA:
            alg = x + CERT if cert else x
            for y in RSA:
                for e in subsets(RSA):
                    if x in e:
                        cases.append({"role": "kex", "alg": alg, "sigalg": y, "enabled": e, "key": "rsa2048", "cert": cert})
                    cases.append({"role": "auth", "alg": alg, "sigalg": y, "enabled": e, "key": "rsa2048", "cert": cert})
    # RSA signature labelled with a non-RSA algorithm name
    for x in RSA:
        for y in ("ssh-ed25519", "ecdsa-sha2-nistp256"):
            cases.append({"role": "kex", "alg": x, "sigalg": y, "enabled": list(RSA), "key": "rsa2048", "cert": False})
            cases.append({"role": "auth", "alg": x, "sigalg": y, "enabled": list(ALLKEYALGS), "key": "rsa2048", "cert": False})
    for x, kname in EC.items():
        for y in LABELS:
            cases.append({"role": "kex", "alg": x, "sigalg": y, "enabled": [x], "key": kname, "cert": False})
            cases.append({"role": "auth", "alg": x, "sigalg": y, "enabled": list(ALLKEYALGS), "key": kname, "cert": False})
        cases.append({"role": "auth", "alg": x, "sigalg": x, "enabled": [a for a in ALLKEYALGS if a != x], "key": kname, "cert": False})
    # RSA signature made with the hash of algorithm h but labelled with the negotiated / declared name
    for cert in (False, True):
        for x in RSA:
            for h in RSA:
                if h != x:
                    alg = x + CERT if cert else x
                    cases.append({"role": "kex", "alg": alg, "sigalg": x, "hashalg": h, "enabled": list(RSA), "key": "rsa2048", "cert": cert})
                    cases.append({"role": "auth", "alg": alg, "sigalg": x, "hashalg": h, "enabled": list(RSA), "key": "rsa2048", "cert": cert})
    # key + signature of another type / curve than negotiated or declared (every ordered pair of the
    # five key types): labelled honestly for that foreign key, or re-labelled with the negotiated name
    types = dict({"rsa-sha2-512": "rsa2048"}, **EC)  # negotiated / declared algorithm -> the peer's own key
    for x, own in types.items():
        for wx, wrong in types.items():
            if wrong == own:
                continue
            for y in (("rsa-sha2-256" if wx in RSA else wx), x):
                cases.append({"role": "kex", "alg": x, "sigalg": y, "enabled": [x], "key": own, "cert": False, "wrongtype": wrong})
                cases.append({"role": "auth", "alg": x, "sigalg": y, "enabled": list(ALLKEYALGS) if y == x else [a for a in ALLKEYALGS if a != y], "key": own, "cert": False, "wrongtype": wrong})
    # role kex: the same lies, but starting in the 2nd / 3rd exchange of the session (after honest ones)
    pats = {2: [["c"], ["s"]], 3: [["c", "s"], ["s", "c"], ["s", "s"], ["c", "c"]]}
    for j, c in enumerate([c for c in cases if c["role"] == "kex"]):
        for k in (2, 3):
            cases.append(dict(c, rekeys=pats[k][(j + j // 3) % len(pats[k])]))
    return cases


def _dispatch(ctx, case):
    if case["role"] == "kex":
        return run_kex(ctx, case)
    return run_auth(ctx, case)


def run(ctx):
    ctx.set_budget(80, 600)
    dom = domain()
    mine = [c for i, c in enumerate(dom) if i % ctx.nworkers == ctx.worker]
    for c in mine:
        if ctx.out_of_time():
            break
        _dispatch(ctx, c)
    else:
        ctx.exhaustive = True
        ctx.note("exhaustive_over", "role x algorithm x signature algorithm x enabled subset x (kex) exchange the lie starts in 1..3 (%d cases) with one key per type and one initiator history per case" % len(dom))
    # generated repetitions: other RSA keys, other user names
    rsa_cases = [c for c in dom if base(c["alg"]) in RSA and not c.get("cert") and not c.get("wrongtype") and not c.get("rekeys")]
    gen = st.tuples(
        st.sampled_from(rsa_cases),
        st.sampled_from(["rsa1024", "rsa2048", "rsa2048b"]),
        st.text(alphabet="abcxyz-_.0123456789é", min_size=1, max_size=12),
        st.lists(st.sampled_from(["c", "s"]), min_size=0, max_size=2),
    )

    def body(t):
        c = dict(t[0])
        c["key"] = t[1]
        if c["role"] == "auth":
            c["user"] = t[2]
        elif t[3]:
            c["rekeys"] = list(t[3])
        _dispatch(ctx, c)

    ctx.explore(gen, body, ctx.scale(60, 3000), shrink=False)


def replay(ctx, case):
    _dispatch(ctx, case)
