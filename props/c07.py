"""C07 - signatures must use the negotiated (host key) / declared (publickey auth) algorithm.

Finite domain, enumerated completely in every run (plus hypothesis-drawn repetitions that vary
the key and the user name):

role "kex"  (tested: client verifying the server's signature over H)
    negotiated algorithm X in {ssh-rsa, rsa-sha2-256, rsa-sha2-512} and their -cert-v01 variants
    x algorithm Y the server really signs with / names in the signature blob (same three)
    x the client's enabled set E (every subset of the three RSA names that contains base(X));
    RSA signature made with the hash of one algorithm but LABELLED with the negotiated one.
    ECDSA / Ed25519: genuine signature re-labelled with another algorithm name.
    Every ordered pair (negotiated key type, foreign key type) of RSA / ECDSA-256/384/521 / Ed25519:
    key blob + genuine signature of the foreign key, labelled honestly for that key, or re-labelled
    with the negotiated name.
    The lying server is the NON-tested peer: its host key object signs with Y whatever it is
    asked for (its `sign_ssh_data` ignores the requested algorithm).
    x the exchange the lie starts in: k = 1 + len(rekeys) in 1..3. The first k-1 exchanges (initial
    handshake and re-exchanges, initiator client or server) are answered honestly - genuine key,
    signature of the negotiated algorithm -, from exchange k on the key object lies as above.
    "The client accepts a key exchange only if ..." holds for every exchange of a session, and the
    negotiated algorithm is that of the exchange in question.
    x the API the client is ENTERED through (configuration): start_client(), Transport.connect(hostkey=<expected
    key>) - which narrows the host key algorithms to those of the expected key - or Transport.connect(); the enabled
    set E is given through the documented `disabled_algorithms={"keys": ...}` in every variant.
    x an honest server that offers ONLY a host key algorithm the client has DISABLED (base(X) not in E; genuine key,
    genuine signature of X): "the algorithm must be one the verifying side has enabled" - nothing may be negotiated,
    the client ends the handshake without NEWKEYS whatever API it was entered through.
role "auth" (tested: server verifying a publickey USERAUTH_REQUEST)
    declared algorithm D (same six names) x signature algorithm Y x the server's enabled
    `pubkeys` set E (all eight subsets); ECDSA / Ed25519 re-labelled. The client is a puppet
    that builds the request by hand: the signature is made over the RFC 4252 7 blob that names D,
    hashed with Y's hash and labelled Y.
    x the HISTORY of the connection: the request is the 1st, 2nd or 3rd publickey request on it. Earlier
    requests (all for the same user): a signature-less query or a signed request with a corrupt signature,
    for the SAME key blob naming an algorithm the server has enabled / the algorithm the final request
    declares, or for another key. Every request of the connection is judged by the oracle below (a query
    or a corrupt signature must never authenticate); a server that hangs up on an earlier request ends the
    case there (counted).
    x the server APPLICATION's verdict on the key (configuration): check_auth_publickey answers AUTH_SUCCESSFUL (public
    key is the whole login) or AUTH_PARTIALLY_SUCCESSFUL (public key is ONE STEP of a multi-step login, allowed
    methods "publickey,password"). A step is accepted by USERAUTH_FAILURE with partial_success = TRUE (RFC 4252 5.1)
    and the connection goes on, so under this verdict the history may also hold an ACCEPTED earlier step (genuine
    request for the same key blob naming an enabled algorithm) before the final request. The oracle is the same for
    both verdicts; "accepted" = SUCCESS or FAILURE(partial_success TRUE).
Oracle: accepted  <=>  Y == base(X or D)  and  base(X or D) in E  (cert suffix stripped)  and the
  signature really is one of algorithm Y by the key of the negotiated / declared type.
  kex: accepted = start_client returns and initial_kex_done; rejected = it raises and no NEWKEYS
       k >= 2: accepted = the re-exchange completes; rejected = the client never switches its outbound
       keys a k-th time, its byte stream (decoded by `peers.Tap`) holds k-1 NEWKEYS, its transport ends
  auth: accepted = USERAUTH_SUCCESS and is_authenticated() (verdict success) / USERAUTH_FAILURE with partial_success TRUE
        (verdict partial); rejected = FAILURE with partial_success FALSE / DISCONNECT, and not authenticated
"""
import os

from hypothesis import strategies as st

from vlib import core, lying, mitm, peers
from vlib import refssh as R

PROPERTY = "C07"
LEVEL = "exploration"
RULE = (
    "complete enumeration of role {kex, auth} x negotiated/declared RSA algorithm (3 + 3 cert variants) x algorithm used "
    "and named in the signature (3) x verifier's enabled subset (kex: 4 subsets containing the negotiated one; auth: all 8), "
    "plus RSA signatures of one hash labelled as the negotiated/declared algorithm, ECDSA/Ed25519 signatures re-labelled with every "
    "other algorithm name, and foreign key + signature for every ordered pair of the 5 key types (labelled honestly / as negotiated); role kex "
    "additionally x the exchange in which the server starts to lie (1 = initial handshake, 2, 3 = re-exchanges after honest "
    "ones; initiators rotating over client/server in the enumeration, drawn in the repetitions), x the API the client is entered "
    "through (classes kex:client-entry:start_client / connect-hostkey = Transport.connect(hostkey=expected key) / connect; every "
    "own-key-type non-certificate first-exchange lie also through connect-hostkey, every fifth through connect), x an honest server "
    "offering ONLY an algorithm the client has disabled (class kex:server-offers-only-a-disabled-algorithm[:entry]: every RSA name (+ its cert variant) x "
    "every non-empty enabled subset lacking it, every ECDSA/Ed25519 name with all others enabled, x the three entries; expected: "
    "no negotiation, no NEWKEYS); then hypothesis-drawn "
    "repetitions varying key (rsa1024/rsa2048/rsa2048b), user name, the re-exchange history, the client entry and the enabled subset; role auth additionally x the "
    "connection's history: the request is sent after 0..2 earlier publickey requests (query / corrupt-signature request for the "
    "same key blob naming an enabled or the declared algorithm, or for another key): query and failed request for the same blob naming an enabled algorithm "
    "before every request whose declared algorithm is disabled, one rotating kind before the others, rotating two-request "
    "histories, drawn histories in the repetitions; x the server application's verdict on the key (classes auth:app-verdict:success / "
    "partial[:expect-accept|:expect-reject]): every first-request case also with check_auth_publickey answering AUTH_PARTIALLY_SUCCESSFUL "
    "(step accepted = USERAUTH_FAILURE with partial_success TRUE), every other to-be-refused one of them also after an ACCEPTED genuine step for "
    "the same key blob on the same connection (class auth-history:accepted-as-partial-step-before-final-request), verdict and "
    "accepted steps drawn in the repetitions. non-trivial = signature "
    "algorithm differs from the negotiated/declared one, or that one is disabled (auth: declared; kex: the only one offered), or the request is not the connection's first; distinct by full case"
)

RSA = ["ssh-rsa", "rsa-sha2-256", "rsa-sha2-512"]
CERT = "-cert-v01@openssh.com"
EC = {"ecdsa-sha2-nistp256": "ecdsa256", "ecdsa-sha2-nistp384": "ecdsa384", "ecdsa-sha2-nistp521": "ecdsa521", "ssh-ed25519": "ed25519"}
ALLKEYALGS = RSA + list(EC)
LABELS = RSA + list(EC)
FAST_KEX = "curve25519-sha256@libssh.org"


def base(name):
    return name.replace(CERT, "")


def subsets(names):
    out = [[]]
    for n in names:
        out += [s + [n] for s in out]
    return out


_cert = {}


def cert_key():
    """RSA key + OpenSSH certificate from the repository's test material."""
    if "k" not in _cert:
        import paramiko

        d = os.path.join(core.repo_path(), "tests", "_support")
        k = paramiko.RSAKey.from_private_key_file(os.path.join(d, "rsa.key"))
        k.load_certificate(os.path.join(d, "rsa.key-cert.pub"))
        _cert["k"] = k
    return _cert["k"]


def _relabel(sigmsg, label):
    from paramiko.message import Message

    rd = R.Reader(sigmsg.asbytes())
    rd.string()
    return Message(R.string(label) + rd.rest())


def _sign(key, data, label, hashalg=None):
    """Signature message over `data` by `key`, labelled `label`. RSA keys sign with the hash of
    `hashalg` (default: that of the label, if it is an RSA name); other keys sign the only way they
    can. The label is whatever the case says - it need not describe how the signature was made."""
    hashalg = hashalg or label
    if key.get_name() == "ssh-rsa" and hashalg in RSA:
        sig = key.sign_ssh_data(data, hashalg)
        return sig if hashalg == label else _relabel(sig, label)
    return _relabel(key.sign_ssh_data(data, None), label)


class LyingHostKey:
    """Host key object for the non-tested server. From its `k`-th signature on it shows `blob` and
    signs with `hashalg` (RSA; default `sigalg`) or signs genuinely (ECDSA/Ed25519) and labels the
    result `sigalg`, whatever it is asked for. Before that (k > 1) it is the honest key `honest`: genuine blob,
    signature of the algorithm it was asked for. (Every kex engine calls asbytes() and then
    sign_ssh_data() once per exchange, so the number of signatures made tells the exchange.)"""

    def __init__(self, key, sigalg, blob=None, k=1, honest=None, honest_blob=None, hashalg=None):
        self.key = key
        self.sigalg = sigalg
        self.hashalg = hashalg or sigalg  # RSA: the algorithm the signature is really made with
        self.blob = blob if blob is not None else key.asbytes()
        self.k = k
        self.honest = honest if honest is not None else key
        self.honest_blob = honest_blob if honest_blob is not None else (blob if honest is None and blob is not None else self.honest.asbytes())
        self.asked = []
        self.lied = []

    def _lying(self):
        return len(self.asked) + 1 >= self.k

    def asbytes(self):
        return self.blob if self._lying() else self.honest_blob

    def get_name(self):
        return self.key.get_name() if self._lying() else self.honest.get_name()

    def sign_ssh_data(self, data, algorithm=None):
        lying_now = self._lying()
        self.asked.append(algorithm)
        if not lying_now:
            return self.honest.sign_ssh_data(data, algorithm)
        self.lied.append(len(self.asked))
        return _sign(self.key, data, self.sigalg, self.hashalg)


def _key(case):
    if case.get("cert"):
        return cert_key()
    return peers.keypool()[case["key"]]


def _why(fam, case, alg, y, enabled):
    """Root-cause bucket of an acceptance that should have been a rejection."""
    if case.get("wrongtype"):
        return "other-curve-accepted" if base(alg) in EC and case["wrongtype"].startswith("ecdsa") else "wrong-key-type-accepted"
    if base(alg) not in enabled:
        return "declared-algorithm-disabled-accepted"
    if case.get("hashalg") and case["hashalg"] != y:
        return "signature-of-another-hash-accepted"
    if fam == "ec":
        return "relabelled-signature-accepted"
    if y not in RSA:
        return "non-rsa-label-accepted"
    return "mismatch-accepted" if y in enabled else "disabled-hash-accepted"


# ----------------------------------------------------------------------------- role kex

ENTRIES = ["start_client", "connect-hostkey", "connect"]


def _start_both(tc, ts, entry, expected_key, timeout=30.0):
    """peers.start_both with the client entered through the API variant `entry`:
    start_client(), Transport.connect(hostkey=<the key the user expects>) or Transport.connect()
    (negotiation only, no credentials). All three are documented ways to run the key exchange."""
    import threading
    import time

    res = {}

    def srv():
        try:
            ev = threading.Event()
            ts.start_server(event=ev, server=peers.OpenServer())
            res["sev"] = ev
        except BaseException as e:  # recorded for the caller
            res["s"] = e

    th = threading.Thread(target=srv, daemon=True)
    th.start()
    try:
        if entry == "start_client":
            tc.start_client(timeout=timeout)
        elif entry == "connect-hostkey":
            tc.connect(hostkey=expected_key)
        elif entry == "connect":
            tc.connect()
        else:
            raise core.HarnessError("unknown client entry %r" % (entry,))
    except core.HarnessError:
        raise
    except BaseException as e:
        res["c"] = e
    th.join(timeout)
    ev = res.get("sev")
    if ev is not None and "c" not in res:
        end = time.time() + timeout
        while not ev.is_set() and ts.is_active() and time.time() < end:
            ev.wait(0.05)
        if not ts.is_active() and "s" not in res:
            res["s"] = ts.get_exception() or EOFError("server transport inactive")
    return res.get("c"), res.get("s")


def run_kex(ctx, case):
    x, y, enabled = case["alg"], case["sigalg"], case["enabled"]
    entry = case.get("entry", "start_client")
    x_enabled = base(x) in enabled  # False: the server offers ONLY an algorithm the client has disabled
    rekeys = list(case.get("rekeys") or [])  # initiators of exchanges 2..k; the lie starts in exchange k
    k = 1 + len(rekeys)
    key = _key(case)
    blob = key.public_blob.key_blob if case.get("cert") else None
    if case.get("wrongtype"):
        # key and signature of another type than negotiated
        other = peers.keypool()[case["wrongtype"]]
        lying_key = LyingHostKey(other, y, k=k, honest=key, hashalg=case.get("hashalg"))
    else:
        lying_key = LyingHostKey(key, y, blob, k=k, hashalg=case.get("hashalg"))
    madewith = case.get("hashalg") or y
    expect = y == base(x) and madewith == y and base(x) in enabled and not case.get("wrongtype")
    nontriv = y != base(x) or madewith != y or bool(case.get("wrongtype")) or not x_enabled
    cls = ["kex", "kex:expect-accept" if expect else "kex:expect-reject", "kex:cert" if case.get("cert") else "kex:plain", "kex:lie-from-exchange:%d" % k]
    cls.append("kex:client-entry:" + entry)
    if not x_enabled:
        cls.append("kex:server-offers-only-a-disabled-algorithm")
        cls.append("kex:server-offers-only-a-disabled-algorithm:" + entry)
    if k >= 2:
        cls.append("kex:lying-exchange-started-by:" + ("client" if rekeys[-1] == "c" else "server"))
    ctx.case(case, nontriv, cls)
    ckw = {"disabled_algorithms": {"kex": [k_ for k_ in mitm.ALL_KEX if k_ != FAST_KEX], "keys": [a for a in ALLKEYALGS if a not in enabled]}}
    link, tc, ts = peers.make_pair(client_kw=ckw, host_keys=())
    ts.server_key_dict = {x: lying_key}
    m = mitm.PlainMitm(link)
    prefix_failure = None
    res = None
    try:
        ce, se = _start_both(tc, ts, entry, key)
        done = bool(tc.initial_kex_done)
        negotiated = tc.host_key_type
        if k >= 2:
            if ce or se or not done:
                prefix_failure = "initial exchange: client=%r server=%r" % (ce, se)
            else:
                try:
                    tc.auth_password("u", "pw")
                    lying.rekey_prefix(tc, ts, rekeys[:-1])
                except Exception as e:
                    prefix_failure = "honest re-exchange: %r" % (e,)
                else:
                    res = lying.rekey_observed(tc, ts, rekeys[-1], k)
                    negotiated = tc.host_key_type
    finally:
        peers.shutdown(tc, ts)
        mitm.cancel_timers(tc, ts)
    c_chunks, c_epochs = list(link.ab.sent), list(tc.v_out)
    if negotiated != x and x_enabled:
        raise core.HarnessError("could not steer the negotiation to %r (got %r, client=%r server=%r)" % (x, negotiated, ce, se))
    fam = "rsa" if base(x) in RSA else "ec"
    if prefix_failure is not None:
        # exchanges 1..k-1 were answered with the genuine key and the negotiated algorithm
        ctx.violation("kex-signature-algorithm", "%s:honest-signature-rejected" % fam, case, "before the lie: " + prefix_failure)
        return False
    if not lying_key.lied and not x_enabled and k == 1:
        # no common host key algorithm: the exchange ends at the KEXINITs, nobody signs anything
        ctx.count("kex:server-offers-only-a-disabled-algorithm:" + ("refused-at-negotiation" if negotiated is None else "negotiated-%s" % negotiated))
    elif not lying_key.lied:
        raise core.HarnessError("lying host key was never asked to sign exchange %d (client=%r server=%r rekey=%r)" % (k, ce, se, res))
    if k == 1:
        accepted = ce is None and done
        newkeys = 21 in m.types("c2s")
        rejected_cleanly = not (accepted or newkeys or done)
        outcome = "start_client -> %r, initial_kex_done=%s, client sent NEWKEYS=%s" % (ce, done, newkeys)
    else:
        nk = lying.client_newkeys(c_chunks, c_epochs)
        accepted = bool(res["accepted"]) and res["exc"] is None and res["returned"]
        if res["busy"] and not res["accepted"] and nk < k:
            ctx.inconc("kex:client-undecided-at-timeout")
            return True
        rejected_cleanly = not (res["accepted"] or nk >= k)
        outcome = "exchange %d (started by %s): renegotiate_keys -> %r, client switched outbound keys %d time(s), NEWKEYS in the client's stream %d, client active afterwards=%s" % (
            k, "client" if rekeys[-1] == "c" else "server", res["exc"], len(c_epochs), nk, res["active"])
    if expect and not accepted:
        ctx.violation("kex-signature-algorithm", "%s:honest-signature-rejected" % fam, case, outcome)
        return False
    if not expect and not rejected_cleanly:
        why = ("disabled-algorithm-negotiated-and-accepted" if not x_enabled else _why(fam, case, x, y, enabled)) + ("-on-rekey" if k >= 2 else "")
        if entry != "start_client" and not x_enabled:
            why += ":via-" + entry
        ctx.violation(
            "kex-signature-algorithm",
            "%s:%s" % (fam, why),
            case,
            "client entered through %s, server offers %s, client enables %r, server labelled its signature %s (made with %s%s): %s" % (entry, x, enabled, y, madewith, ", key " + case["wrongtype"] if case.get("wrongtype") else "", outcome),
        )
        return False
    return True


# ----------------------------------------------------------------------------- role auth


def _auth_request(session_id, user, req, final_case):
    """USERAUTH_REQUEST payload for one request of a connection's history. `req` has the fields of a
    case (alg, sigalg, hashalg, key, cert, wrongtype) plus signed (False = signature-less query),
    spoil (one bit of the signature blob flipped) and other (a different key than the case's)."""
    d, y = req["alg"], req["sigalg"]
    if req.get("other"):
        key = peers.keypool()[req["other"]]
        blob = key.asbytes()
    else:
        key = _key(req)
        if req.get("wrongtype"):
            key = peers.keypool()[req["wrongtype"]]
        blob = key.public_blob.key_blob if req.get("cert") else key.asbytes()
    if not req.get("signed", True):
        return peers.m_userauth_request(user, "ssh-connection", "publickey", R.boolean(False) + R.string(d) + R.string(blob))
    signed = R.string(session_id) + bytes([50]) + R.string(user) + R.string("ssh-connection") + R.string("publickey") + R.boolean(True) + R.string(d) + R.string(blob)
    sig = _sign(key, signed, y, req.get("hashalg")).asbytes()
    if req.get("spoil"):
        sig = sig[:-1] + bytes([sig[-1] ^ 1])
    return peers.m_userauth_request(user, "ssh-connection", "publickey", R.boolean(True) + R.string(d) + R.string(blob) + R.string(sig))


VERDICTS = {"success": lambda: peers.AUTH_SUCCESSFUL, "partial": lambda: peers.AUTH_PARTIALLY_SUCCESSFUL}


def _partial_flag(payload):
    """partial_success of a USERAUTH_FAILURE payload (name-list, boolean); None if it cannot be read."""
    try:
        rd = R.Reader(payload)
        rd.string()
        rest = rd.rest()
    except R.RefError:
        return None
    return bool(rest[0]) if len(rest) == 1 else None


def _auth_expect(req, enabled):
    d, y = req["alg"], req["sigalg"]
    madewith = req.get("hashalg") or y
    return bool(req.get("signed", True)) and not req.get("spoil") and y == base(d) and madewith == y and base(d) in enabled and not req.get("wrongtype")


def run_auth(ctx, case):
    """One connection: the requests of case["history"] (if any) and then the case's own request, each
    judged by the same oracle - what the server answered before must not matter."""
    enabled = case["enabled"]
    user = case.get("user", "u")
    history = [dict(h) for h in (case.get("history") or [])]
    final = {k: v for k, v in case.items() if k not in ("history", "role", "enabled", "user", "verdict")}
    requests = history + [final]
    d, y = final["alg"], final["sigalg"]
    madewith = final.get("hashalg") or y
    expect = _auth_expect(final, enabled)
    nontriv = y != base(d) or madewith != y or base(d) not in enabled or bool(final.get("wrongtype")) or bool(history)
    verdict = case.get("verdict", "success")  # what the server APPLICATION says about the key (check_auth_publickey)
    if verdict not in VERDICTS:
        raise core.HarnessError("unknown application verdict %r" % (verdict,))
    cls = ["auth", "auth:expect-accept" if expect else "auth:expect-reject", "auth:cert" if case.get("cert") else "auth:plain", "auth:requests-on-connection:%d" % len(requests)]
    cls.append("auth:app-verdict:" + verdict)
    cls.append("auth:app-verdict:%s:%s" % (verdict, "expect-accept" if expect else "expect-reject"))
    for h in history:
        hk = "query" if not h.get("signed", True) else "failed-signed" if not _auth_expect(h, enabled) else "accepted"
        cls.append("auth-history:%s:%s:%s" % (hk, "other-key" if h.get("other") else "same-key", "enabled-alg" if base(h["alg"]) in enabled else "disabled-alg"))
        if hk == "accepted":
            cls.append("auth-history:accepted-as-partial-step-before-final-request")
    ctx.case(case, nontriv, cls)
    srv = peers.RecordingServer({"check_auth_publickey": VERDICTS[verdict]()}, allowed="publickey" if verdict == "success" else "publickey,password")
    skw = {"disabled_algorithms": {"pubkeys": [a for a in ALLKEYALGS if a not in enabled]}}
    ckw = {"disabled_algorithms": {"kex": [k for k in mitm.ALL_KEX if k != FAST_KEX]}}
    link, tc, ts = peers.make_pair(client_cls=peers.Puppet, server_cls=peers.VTransport, client_kw=ckw, server_kw=skw)
    outcomes = []  # per request sent: (request, first reply type | "dead", authenticated afterwards)
    try:
        ce, se = peers.start_both(tc, ts, srv, timeout=30.0)
        if ce or se:
            raise core.HarnessError("handshake failed: %r %r" % (ce, se))
        tc.raw()
        tc.send_raw(peers.m_service_request())
        if not tc.wait_log(lambda lg: any(e[1] == 6 for e in lg) or not ts.is_active(), 15.0) or not ts.is_active():
            raise core.HarnessError("no SERVICE_ACCEPT")
        def _replies(lg):
            # (type, partial_success flag of a USERAUTH_FAILURE) of every reply so far
            return [(e[1], _partial_flag(e[2]) if e[1] == 51 else None) for e in lg if e[1] in (51, 52, 60, 1)]

        for req in requests:
            seen = len(_replies(tc.log))
            if not ts.is_active() or any(e[1] == 1 for e in tc.log):
                break  # the server hung up on an earlier request: nothing more can be asked
            try:
                tc.send_raw(_auth_request(tc.session_id, user, req, case))
            except Exception:
                break  # connection already torn down
            got = tc.wait_log(lambda lg: _replies(lg)[seen:] or (not ts.is_active() and [("dead", None)]), 15.0)
            authed = bool(ts.is_authenticated())
            outcomes.append((req, got[0][0] if got else None, authed, got[0][1] if got else None))
            if authed or not got or got[0][0] in (52, 1, "dead"):
                break
        checked = [c for c in srv.calls if c[0] == "check_auth_publickey"]
    finally:
        peers.shutdown(tc, ts)
        mitm.cancel_timers(tc, ts)
    if len(outcomes) < len(requests):
        ctx.count("auth-history:final-request-not-reached(server hung up or accepted before)")
    ok = True
    for i, (req, got, authed, partial) in enumerate(outcomes):
        is_final = req is final
        if got is None:
            ctx.inconc("auth:no-reply")
            return ok
        rd, ry = req["alg"], req["sigalg"]
        fam = "rsa" if base(rd) in RSA else "ec"
        want = _auth_expect(req, enabled)
        # the server ACCEPTS a public-key authentication by USERAUTH_SUCCESS or, where public key is one step of
        # several, by USERAUTH_FAILURE with partial_success = TRUE (RFC 4252 5.1)
        accepted = authed or got == 52 or (got == 51 and partial is True)
        after = ":after-earlier-requests" if i > 0 else ""
        if verdict == "partial":
            after = ":partial-success-step" + (":after-accepted-step" if any(o[3] is True for o in outcomes[:i]) else "") + after
        honoured = (authed and got == 52) if verdict == "success" else (got == 51 and partial is True and not authed)
        if want and not honoured:
            ctx.violation("auth-signature-algorithm", "%s:honest-signature-rejected%s" % (fam, after), case, "request #%d: application verdict %s, reply %r partial_success=%r authenticated=%s; replies so far %r" % (i + 1, verdict, got, partial, authed, [o[1] for o in outcomes]))
            return False
        if got == 51 and partial is None:
            ctx.count("auth:failure-reply-without-readable-partial-flag")  # a refusal either way
        if not want and accepted:
            if not req.get("signed", True):
                why = "signature-less-query-authenticated"
            elif req.get("spoil"):
                why = "corrupt-signature-accepted"
            else:
                why = _why(fam, req, rd, ry, enabled)
            ctx.violation(
                "auth-signature-algorithm",
                "%s:%s%s" % (fam, why, after),
                case,
                "request #%d of the connection (replies to the earlier ones: %r) declares %s, server enables pubkeys %r, application verdict on the key %s, signature labelled %s (made with %s%s): reply %r partial_success=%r, is_authenticated()=%s, check_auth_publickey called %d time(s)"
                % (i + 1, [(o[1], o[3]) for o in outcomes[:i]], rd, enabled, verdict, ry, req.get("hashalg") or ry, ", key " + req["wrongtype"] if req.get("wrongtype") else "", got, partial, authed, len(checked)),
            )
            return False
    return ok


# ----------------------------------------------------------------------------- domain


def domain():
    cases = []
    for cert in (False, True):
        for x in RSA:
            alg = x + CERT if cert else x
            for y in RSA:
                for e in subsets(RSA):
                    if x in e:
                        cases.append({"role": "kex", "alg": alg, "sigalg": y, "enabled": e, "key": "rsa2048", "cert": cert})
                    cases.append({"role": "auth", "alg": alg, "sigalg": y, "enabled": e, "key": "rsa2048", "cert": cert})
    # RSA signature labelled with a non-RSA algorithm name
    for x in RSA:
        for y in ("ssh-ed25519", "ecdsa-sha2-nistp256"):
            cases.append({"role": "kex", "alg": x, "sigalg": y, "enabled": list(RSA), "key": "rsa2048", "cert": False})
            cases.append({"role": "auth", "alg": x, "sigalg": y, "enabled": list(ALLKEYALGS), "key": "rsa2048", "cert": False})
    for x, kname in EC.items():
        for y in LABELS:
            cases.append({"role": "kex", "alg": x, "sigalg": y, "enabled": [x], "key": kname, "cert": False})
            cases.append({"role": "auth", "alg": x, "sigalg": y, "enabled": list(ALLKEYALGS), "key": kname, "cert": False})
        cases.append({"role": "auth", "alg": x, "sigalg": x, "enabled": [a for a in ALLKEYALGS if a != x], "key": kname, "cert": False})
    # RSA signature made with the hash of algorithm h but labelled with the negotiated / declared name
    for cert in (False, True):
        for x in RSA:
            for h in RSA:
                if h != x:
                    alg = x + CERT if cert else x
                    cases.append({"role": "kex", "alg": alg, "sigalg": x, "hashalg": h, "enabled": list(RSA), "key": "rsa2048", "cert": cert})
                    cases.append({"role": "auth", "alg": alg, "sigalg": x, "hashalg": h, "enabled": list(RSA), "key": "rsa2048", "cert": cert})
    # key + signature of another type / curve than negotiated or declared (every ordered pair of the
    # five key types): labelled honestly for that foreign key, or re-labelled with the negotiated name
    types = dict({"rsa-sha2-512": "rsa2048"}, **EC)  # negotiated / declared algorithm -> the peer's own key
    for x, own in types.items():
        for wx, wrong in types.items():
            if wrong == own:
                continue
            for y in (("rsa-sha2-256" if wx in RSA else wx), x):
                cases.append({"role": "kex", "alg": x, "sigalg": y, "enabled": [x], "key": own, "cert": False, "wrongtype": wrong})
                cases.append({"role": "auth", "alg": x, "sigalg": y, "enabled": list(ALLKEYALGS) if y == x else [a for a in ALLKEYALGS if a != y], "key": own, "cert": False, "wrongtype": wrong})
    entry_domain(cases)
    # role kex: the same lies, but starting in the 2nd / 3rd exchange of the session (after honest ones)
    pats = {2: [["c"], ["s"]], 3: [["c", "s"], ["s", "c"], ["s", "s"], ["c", "c"]]}
    for j, c in enumerate([c for c in cases if c["role"] == "kex" and not c.get("entry")]):
        for k in (2, 3):
            if k == 3 and j % 3 and not c.get("wrongtype"):
                continue  # (third exchange: every third case; the count went to the request histories of role auth)
            cases.append(dict(c, rekeys=pats[k][(j + j // 3) % len(pats[k])]))
    # role auth: the same requests as the 2nd / 3rd request of a connection
    cases += history_domain(cases)
    # role auth: the server APPLICATION treats public key as one step of several (AUTH_PARTIALLY_SUCCESSFUL)
    cases += verdict_domain(cases)
    return cases


def entry_domain(cases):
    """Role kex x the API the client is entered through (start_client / Transport.connect(hostkey=expected key) /
    Transport.connect()) x an honest server that offers ONLY a host key algorithm the client has disabled
    (every RSA name - and, through start_client, its certificate variant - against every non-empty enabled subset
    that lacks it; every ECDSA / Ed25519 name with all other algorithms enabled): nothing may be negotiated, let alone accepted. Plus every non-certificate
    first-exchange lie of the domain above (own key type) entered through connect(hostkey=...) as well (appended to `cases`)."""
    lies = [c for c in cases if c["role"] == "kex" and not c.get("cert") and not c.get("wrongtype") and (c["sigalg"] != base(c["alg"]) or c.get("hashalg"))]
    for j, c in enumerate(lies):
        cases.append(dict(c, entry="connect-hostkey"))
        if j % 5 == 0:
            cases.append(dict(c, entry="connect"))
    for entry in ENTRIES:
        for x in RSA:
            for e in subsets(RSA):
                if e and x not in e:
                    cases.append({"role": "kex", "alg": x, "sigalg": x, "enabled": e, "key": "rsa2048", "cert": False, "entry": entry})
                    if entry == "start_client":  # the certificate variant of a disabled algorithm is disabled with it
                        cases.append({"role": "kex", "alg": x + CERT, "sigalg": x, "enabled": e, "key": "rsa2048", "cert": True, "entry": entry})
        for x, kname in EC.items():
            cases.append({"role": "kex", "alg": x, "sigalg": x, "enabled": [a for a in ALLKEYALGS if a != x], "key": kname, "cert": False, "entry": entry})
        # honest control per entry: the algorithm is enabled, the signature genuine
        cases.append({"role": "kex", "alg": "rsa-sha2-256", "sigalg": "rsa-sha2-256", "enabled": ["rsa-sha2-256", "rsa-sha2-512"], "key": "rsa2048", "cert": False, "entry": entry})
        cases.append({"role": "kex", "alg": "ssh-ed25519", "sigalg": "ssh-ed25519", "enabled": ["ssh-ed25519", "ssh-rsa"], "key": "ed25519", "cert": False, "entry": entry})


# ---- histories on one connection (role auth)

HISTORY_KINDS = ["query:same-key:enabled-alg", "query:same-key:declared-alg", "failed-signed:same-key:enabled-alg", "failed-signed:other-key", "query:other-key"]
# only where the application treats public key as ONE STEP of several (verdict "partial"): an earlier request for the same
# key blob with a genuine signature of an enabled algorithm is accepted as a step, the connection goes on
ACCEPTED_STEP = "signed:same-key:enabled-alg"
OTHERKEYS = ["ed25519b", "ecdsa256b", "rsa1024", "rsa2048b"]


def _native(kname):
    return list(RSA) if kname.startswith("rsa") else [a for a, k in EC.items() if k == kname.rstrip("b")]


def history_entry(final, kind):
    """One earlier request of the same connection, derived from the final request: same key blob
    naming an algorithm the server has enabled (or the one the final request declares), or another
    key; a signature-less query, or a signed request whose signature is corrupt (-> FAILURE)."""
    enabled = final["enabled"]
    what, whose, *rest = kind.split(":")
    h = {"signed": what != "query"}
    if what == "failed-signed":
        h["spoil"] = True
    if whose == "other-key":
        own = final.get("wrongtype") or final["key"]
        cands = [(a, k) for k in OTHERKEYS if k != own for a in _native(k)]
        alg, kname = next(((a, k) for a, k in cands if a in enabled), cands[0])
        h.update({"alg": alg, "sigalg": alg, "other": kname})
        return h
    for f in ("key", "cert", "wrongtype"):
        if final.get(f):
            h[f] = final[f]
    if what == "signed" and h.get("wrongtype"):
        # the blob the final request shows is that of the foreign key: a consistent request for THAT key
        h["key"] = h.pop("wrongtype")
    if rest == ["declared-alg"]:
        alg = final["alg"]
    else:
        alg = next((a for a in _native(final.get("wrongtype") or final["key"]) if a in enabled), None)
        if alg is None:
            # (a genuine step request names an algorithm of the key it shows, enabled or not)
            alg = _native(final.get("wrongtype") or final["key"])[0] if what == "signed" else base(final["alg"])
        if final.get("cert"):
            alg += CERT
    h.update({"alg": alg, "sigalg": base(alg)})
    return h


def with_history(final, kinds):
    return dict(final, history=[history_entry(final, k) for k in kinds])


def history_domain(cases):
    """Every final request whose declared algorithm is disabled after a query and after a failed signed
    request for the same key blob naming an enabled algorithm (plus, where the signature matches the
    declared algorithm, a third rotating kind and a two-request history); every other request after one
    rotating kind of earlier request."""
    out = []
    auth = [c for c in cases if c["role"] == "auth"]
    pairs = [(a, b) for a in HISTORY_KINDS for b in HISTORY_KINDS if a != b]
    for j, c in enumerate(auth):
        if base(c["alg"]) not in c["enabled"]:
            out.append(with_history(c, [HISTORY_KINDS[0]]))
            out.append(with_history(c, [HISTORY_KINDS[2]]))
            if c["sigalg"] == base(c["alg"]):
                out.append(with_history(c, [HISTORY_KINDS[(1, 3, 4)[j % 3]]]))
                out.append(with_history(c, list(pairs[(7 * j + 3) % len(pairs)])))
        else:
            out.append(with_history(c, [HISTORY_KINDS[j % len(HISTORY_KINDS)]]))
    return out


def verdict_domain(cases):
    """Role auth x the server application's verdict on the key: every first-request case of the domain once more with
    check_auth_publickey answering AUTH_PARTIALLY_SUCCESSFUL (public key = one step of a multi-step login; the step is
    accepted by USERAUTH_FAILURE with partial_success TRUE); every other one of those that must be refused also AFTER a
    genuine request for the same key blob was accepted as a step on the same connection, every fourth after one rotating
    earlier request of the older kinds."""
    out = []
    firsts = [c for c in cases if c["role"] == "auth" and not c.get("history")]
    for j, c in enumerate(firsts):
        p = dict(c, verdict="partial")
        out.append(p)
        if not _auth_expect(c, c["enabled"]) and j % 2 == 0:
            out.append(with_history(p, [ACCEPTED_STEP]))
        elif j % 4 == 1:
            out.append(with_history(p, [HISTORY_KINDS[(j // 4) % len(HISTORY_KINDS)]]))
    return out


def _dispatch(ctx, case):
    if case["role"] == "kex":
        return run_kex(ctx, case)
    return run_auth(ctx, case)


def run(ctx):
    # (VERIF_BUDGET_SCALE: validation runs on an oversubscribed machine may stretch the wall-clock safety net; never part of a verdict)
    _bs = max(1.0, float(__import__("os").environ.get("VERIF_BUDGET_SCALE", "1") or 1))
    ctx.set_budget(80 * _bs, 600 * _bs)
    dom = domain()
    mine = [c for i, c in enumerate(dom) if i % ctx.nworkers == ctx.worker]
    for c in mine:
        if ctx.out_of_time():
            break
        _dispatch(ctx, c)
    else:
        ctx.exhaustive = True
        ctx.note("exhaustive_over", "role x algorithm x signature algorithm x enabled subset x (kex) exchange the lie starts in 1..2 (3: every third case) x (auth) rotating request histories x (auth) application verdict success / partial (%d cases) with one key per type and one initiator history per case" % len(dom))
    # generated repetitions: other RSA keys, other user names
    rsa_cases = [c for c in dom if base(c["alg"]) in RSA and not c.get("cert") and not c.get("wrongtype") and not c.get("rekeys") and not c.get("history")]
    gen = st.tuples(
        st.sampled_from(rsa_cases),
        st.sampled_from(["rsa1024", "rsa2048", "rsa2048b"]),
        st.text(alphabet="abcxyz-_.0123456789é", min_size=1, max_size=12),
        st.lists(st.sampled_from(["c", "s"]), min_size=0, max_size=2),
        st.lists(st.sampled_from(HISTORY_KINDS), min_size=0, max_size=2),
        st.sampled_from(ENTRIES),
        st.sampled_from([None, None] + [s_ for s_ in subsets(RSA) if s_]),
        st.sampled_from(["success", "success", "partial", "partial"]),
        st.lists(st.sampled_from(HISTORY_KINDS + [ACCEPTED_STEP, ACCEPTED_STEP]), min_size=0, max_size=2),
    )

    def body(t):
        c = dict(t[0])
        c["key"] = t[1]
        if c["role"] == "auth":
            c["user"] = t[2]
            if t[7] != "success":
                c["verdict"] = t[7]  # an accepted earlier step exists only where public key is one step of several
            hist = t[8] if t[7] != "success" else t[4]
            if hist:
                c = with_history(c, hist)
        else:
            c["entry"] = t[5]
            if t[6] is not None and not c.get("hashalg"):
                # another enabled subset; if it lacks the offered algorithm the server is an honest one
                c["enabled"] = list(t[6])
                if c["alg"] not in c["enabled"]:
                    c["sigalg"] = c["alg"]
            if t[3] and c["alg"] in c["enabled"]:
                c["rekeys"] = list(t[3])
        _dispatch(ctx, c)

    ctx.explore(gen, body, ctx.scale(40, 3000), shrink=False)


def replay(ctx, case):
    _dispatch(ctx, case)
