"""C05 - algorithm negotiation picks the client's first mutually supported algorithm.

Three generated sub-domains, one oracle.

(a) direct:    two un-started Transports (client / server role) with generated preference
               lists (set through SecurityOptions, the documented way) and generated
               `disabled_algorithms`, a generated subset of server host keys and a moduli pack
               present / absent. Each side's production `_send_kex_init` writes its KEXINIT
               to an in-memory link; the bytes found on the wire are fed to the other side's
               production `_parse_kex_init`.
(b) synthetic: one real Transport (either role) against a KEXINIT built by the harness with
               refssh: unknown names, duplicates, empty lists, and the pseudo names
               ext-info-c/s, kex-strict-c/s-v00@openssh.com at arbitrary positions of any list.
(c) end2end:   configurations of (a) run as complete handshakes between two Transport threads.
(d) session:   the negotiation of RE-EXCHANGES. A configuration of (a) is run as a complete handshake, then
               1..2 further key exchanges follow on the same two Transports (initiator drawn per round). Before
               each one the configuration changes: a side gets freshly drawn preference lists (SecurityOptions)
               and / or another disabled set, the server may get further host keys (add_server_key), or - the
               synthetic variant, either role - the non-tested peer puts a harness-built KEXINIT (as in (b):
               unknown / duplicate / pseudo names, other orders) on the wire instead of its own when re-keying.
               Every negotiation of the session - initial and re-exchanges - is judged by the oracle below from
               the pair of KEXINIT payloads of THAT exchange (own: as handed to the packetizer, peer's: as
               received), i.e. nothing a side remembers from an earlier exchange may influence the result.

Oracle (from the two KEXINIT payloads as they appear on the wire, parsed with refssh): per
category (kex, host key, cipher c2s/s2c, mac c2s/s2c, compression c2s/s2c) the agreed name
is the first name of the client's list that also occurs in the server's list, pseudo names
removed from the kex lists first. Then
  * every category has a common name  <=>  no side raises; otherwise each side raises
    IncompatiblePeer (and nothing else);
  * both sides report exactly the reference names (client.local == c2s, client.remote == s2c,
    server mirrored), kex engine class <-> name through a harness-side table;
  * no reported name is in that side's disabled_algorithms;
  * no reported kex name is a pseudo name.
"""
from hypothesis import strategies as st

from vlib import mitm, net, peers
from vlib import refssh as R

PROPERTY = "C05"
LEVEL = "exploration"
RULE = (
    "hypothesis-drawn per-side configurations: per category a permutation of a subset of paramiko's names "
    "(SecurityOptions) plus a random disabled subset, server host-key subset, moduli pack on/off, strict flag; "
    "(a) real KEXINIT of each side fed to the other side's _parse_kex_init, (b) one real side against a harness-built "
    "KEXINIT with unknown/duplicate/pseudo names and empty lists, (c) a sample as full threaded handshakes, (d) sessions: full "
    "handshake followed by 1..2 re-exchanges (initiator drawn) before each of which a side's preference lists / disabled set are "
    "re-drawn, host keys are added, or the non-tested peer (either role) sends a harness-built KEXINIT; every exchange judged from "
    "its own pair of KEXINITs; plus an enumerated floor: category (5) x initiator (2) x {client list rotated, rotated against a "
    "synthetic server, synthetic client with rotated lists}. "
    "non-trivial = negotiation fails, or in some category both wire lists have >= 2 names and the agreed name is not "
    "the client's first, or (sessions) a re-exchange was negotiated; distinct by the full configuration"
)

KEXCLS = {
    "diffie-hellman-group1-sha1": "KexGroup1",
    "diffie-hellman-group14-sha1": "KexGroup14",
    "diffie-hellman-group14-sha256": "KexGroup14SHA256",
    "diffie-hellman-group16-sha512": "KexGroup16SHA512",
    "diffie-hellman-group-exchange-sha1": "KexGex",
    "diffie-hellman-group-exchange-sha256": "KexGexSHA256",
    "ecdh-sha2-nistp256": "KexNistp256",
    "ecdh-sha2-nistp384": "KexNistp384",
    "ecdh-sha2-nistp521": "KexNistp521",
    "curve25519-sha256@libssh.org": "KexCurve25519",
}
CLSKEX = {v: k for k, v in KEXCLS.items()}

# category -> (SecurityOptions attribute, disabled_algorithms key)
CATS = {
    "kex": ("kex", "kex"),
    "keys": ("key_types", "keys"),
    "ciphers": ("ciphers", "ciphers"),
    "macs": ("digests", "macs"),
    "compression": ("compression", "compression"),
}
UNIVERSE = {
    "kex": list(KEXCLS),
    "keys": ["ssh-ed25519", "ecdsa-sha2-nistp256", "ecdsa-sha2-nistp384", "ecdsa-sha2-nistp521", "rsa-sha2-512", "rsa-sha2-256", "ssh-rsa"],
    "ciphers": ["aes128-ctr", "aes192-ctr", "aes256-ctr", "aes128-cbc", "aes192-cbc", "aes256-cbc", "3des-cbc", "aes128-gcm@openssh.com", "aes256-gcm@openssh.com"],
    "macs": ["hmac-sha2-256", "hmac-sha2-512", "hmac-sha2-256-etm@openssh.com", "hmac-sha2-512-etm@openssh.com", "hmac-sha1", "hmac-md5", "hmac-sha1-96", "hmac-md5-96"],
    "compression": ["none", "zlib", "zlib@openssh.com"],
}
PSEUDO = ["ext-info-c", "ext-info-s", "kex-strict-c-v00@openssh.com", "kex-strict-s-v00@openssh.com"]
HOSTKEYS = ["rsa2048", "ecdsa256", "ecdsa384", "ecdsa521", "ed25519"]
# wire category -> (config category, client attribute, server attribute)
WIRE = {
    "kex": ("kex", "kex", "kex"),
    "hostkey": ("keys", "hostkey", "hostkey"),
    "enc_c2s": ("ciphers", "local_cipher", "remote_cipher"),
    "enc_s2c": ("ciphers", "remote_cipher", "local_cipher"),
    "mac_c2s": ("macs", "local_mac", "remote_mac"),
    "mac_s2c": ("macs", "remote_mac", "local_mac"),
    "comp_c2s": ("compression", "local_compression", "remote_compression"),
    "comp_s2c": ("compression", "remote_compression", "local_compression"),
}

# ----------------------------------------------------------------------------- generators


def weighted(*pairs):
    """one_of with weights (hypothesis' one_of drops duplicate branches)."""
    table = [strat for w, strat in pairs for _ in range(w)]
    return st.integers(0, len(table) - 1).flatmap(lambda i: table[i])


def _perm(universe, min_size):
    return st.lists(st.sampled_from(universe), unique=True, min_size=min_size, max_size=len(universe))


def _wide_list(u):
    lo = min(len(u), max(2, len(u) - 3))
    return st.permutations(u).flatmap(lambda p: st.integers(lo, len(u)).map(lambda n: list(p[:n])))


def _side():
    """wide: (almost) full permutations with at most one name disabled per category, so that most
    pairs agree and the *choice* is exercised; narrow: arbitrary subsets / many disabled names,
    which mostly exercises the failure side."""
    narrow_prefs = st.fixed_dictionaries({c: _perm(u, 1 if c != "kex" else 2) for c, u in UNIVERSE.items()})
    wide_prefs = st.fixed_dictionaries({c: _wide_list(u) for c, u in UNIVERSE.items()})
    one = st.fixed_dictionaries({c: st.lists(st.sampled_from(u), unique=True, max_size=1) for c, u in UNIVERSE.items()})
    few = st.fixed_dictionaries({c: st.lists(st.sampled_from(u), unique=True, max_size=2) for c, u in UNIVERSE.items()})
    many = st.fixed_dictionaries({c: st.lists(st.sampled_from(u), unique=True, max_size=len(u)) for c, u in UNIVERSE.items()})
    none = st.just({c: [] for c in UNIVERSE})
    wide = st.fixed_dictionaries({"prefs": wide_prefs, "disabled": st.one_of(none, one), "strict": st.booleans()})
    narrow = st.fixed_dictionaries({"prefs": narrow_prefs, "disabled": st.one_of(none, few, few, many), "strict": st.booleans()})
    return weighted((4, wide), (1, narrow))


def direct_cases(mode="direct"):
    return st.fixed_dictionaries(
        {
            "mode": st.just(mode),
            "client": _side(),
            "server": _side(),
            "hostkeys": st.one_of(st.lists(st.sampled_from(HOSTKEYS), unique=True, min_size=2, max_size=5), st.lists(st.sampled_from(HOSTKEYS), unique=True, min_size=0, max_size=5)),
            "pack": st.booleans(),
        }
    )


def _wide_side():
    wide_prefs = st.fixed_dictionaries({c: _wide_list(u) for c, u in UNIVERSE.items()})
    one = st.fixed_dictionaries({c: st.lists(st.sampled_from(u), unique=True, max_size=1) for c, u in UNIVERSE.items()})
    none = st.just({c: [] for c in UNIVERSE})
    return st.fixed_dictionaries({"prefs": wide_prefs, "disabled": st.one_of(none, one), "strict": st.booleans()})


def session_cases():
    """Mostly agreeing initial configurations (the point is what happens afterwards)."""
    base = st.fixed_dictionaries(
        {
            "mode": st.just("session"),
            "client": weighted((5, _wide_side()), (1, _side())),
            "server": weighted((5, _wide_side()), (1, _side())),
            "hostkeys": st.lists(st.sampled_from(HOSTKEYS), unique=True, min_size=2, max_size=5),
            "pack": st.booleans(),
        }
    )
    full = _wide_side().map(lambda sd: {"prefs": sd["prefs"]})
    some = st.tuples(_wide_side(), st.lists(st.sampled_from(list(UNIVERSE)), unique=True, min_size=1, max_size=3)).map(lambda t: {"prefs": {c: t[0]["prefs"][c] for c in t[1]}})
    narrow = _side().map(lambda sd: {"prefs": sd["prefs"], "disabled": sd["disabled"]})
    dis = _wide_side().map(lambda sd: {"disabled": sd["disabled"]})
    redraw = weighted((2, st.none()), (3, full), (2, some), (1, narrow), (1, dis))
    who = st.sampled_from(["c", "s"])
    addkeys = st.lists(st.sampled_from(HOSTKEYS), unique=True, min_size=0, max_size=3)
    honest = st.tuples(who, redraw, redraw, addkeys).map(lambda t: dict({"who": t[0], "client": t[1], "server": t[2]}, **({"addkeys": t[3]} if t[3] else {})))

    def synth(tested):
        # the tested side may be reconfigured as well; the puppet's own lists do not matter
        return st.tuples(who, redraw, _peer_lists(True)).map(lambda t: {"who": t[0], tested: t[1], "synthetic": {"tested": tested, "peer": t[2]}})

    rnd = weighted((4, honest), (1, synth("client")), (1, synth("server")))
    return st.tuples(base, st.lists(rnd, min_size=1, max_size=2)).map(lambda t: dict(t[0], rounds=t[1]))


def session_floor():
    """Deterministic sessions: for every category x initiator, one re-exchange in which (i) the client's
    list is rotated so that another mutual name comes first while the previous choice stays on offer,
    (ii) the same against a synthetic server KEXINIT (client tested), (iii) a synthetic client KEXINIT
    with rotated lists (server tested)."""
    full = {c: list(u) for c, u in UNIVERSE.items()}
    side = {"prefs": full, "disabled": {c: [] for c in UNIVERSE}, "strict": True}
    wire = {"kex": ["kex"], "keys": ["hostkey"], "ciphers": ["enc_c2s", "enc_s2c"], "macs": ["mac_c2s", "mac_s2c"], "compression": ["comp_c2s", "comp_s2c"]}
    out = []
    for ci, cat in enumerate(UNIVERSE):
        rot = full[cat][1:] + full[cat][:1]
        for wi, who in enumerate("cs"):
            base = {"mode": "session", "client": side, "server": side, "hostkeys": list(HOSTKEYS), "pack": True}
            out.append(dict(base, rounds=[{"who": who, "client": {"prefs": {cat: rot}}, "server": None}]))
            peer = {w: list(reversed(full[c])) for c, ws in wire.items() for w in ws}
            peer["follows"] = False
            out.append(dict(base, rounds=[{"who": who, "client": {"prefs": {cat: rot}}, "synthetic": {"tested": "client", "peer": peer}}]))
            peer = {w: list(full[c]) for c, ws in wire.items() for w in ws}
            for w in wire[cat]:
                peer[w] = list(rot) + (["unknown@verif"] if (ci + wi) % 2 else [])
            peer["follows"] = False
            out.append(dict(base, rounds=[{"who": who, "server": None, "synthetic": {"tested": "server", "peer": peer}}]))
    return out


def _names(cat, rich):
    real = st.sampled_from(UNIVERSE[cat])
    unknown = st.sampled_from(["none@verif", "aes512-xts@verif", "hmac-sha3@verif", "sntrup761x25519-sha512@openssh.com", "ssh-dss", "x", "zlib-ng"])
    pseudo = st.sampled_from(PSEUDO)
    if rich:
        return st.lists(weighted((6, real), (1, unknown), (1, pseudo)), min_size=3, max_size=10)  # duplicates allowed on purpose
    return st.lists(st.one_of(real, unknown, pseudo), min_size=0, max_size=4)


def _peer_lists(rich):
    return st.fixed_dictionaries(
        {
            "kex": _names("kex", rich),
            "hostkey": _names("keys", rich),
            "enc_c2s": _names("ciphers", rich),
            "enc_s2c": _names("ciphers", rich),
            "mac_c2s": _names("macs", rich),
            "mac_s2c": _names("macs", rich),
            "comp_c2s": _names("compression", rich),
            "comp_s2c": _names("compression", rich),
            "follows": st.booleans(),
        }
    )


def synthetic_cases():
    lists = weighted((4, _peer_lists(True)), (1, _peer_lists(False)))
    return st.fixed_dictionaries(
        {
            "mode": st.just("synthetic"),
            "role": st.sampled_from(["client", "server"]),
            "side": _side(),
            "peer": lists,
            "hostkeys": st.one_of(st.just(list(HOSTKEYS)), st.lists(st.sampled_from(HOSTKEYS), unique=True, min_size=1, max_size=5)),
            "pack": st.booleans(),
        }
    )


# ----------------------------------------------------------------------------- reference


def reference(ci, si):
    """ci / si: parsed KEXINIT (mitm.parse_kexinit) of client / server -> {wire category: name|None}."""
    out = {}
    for cat in WIRE:
        cl, sl = ci[cat], si[cat]
        if cat == "kex":
            cl = [n for n in cl if not mitm.is_pseudo(n)]
            sl = [n for n in sl if not mitm.is_pseudo(n)]
        out[cat] = next((n for n in cl if n in sl), None)
    return out


def nontrivial(ci, si, ref):
    if any(v is None for v in ref.values()):
        return True
    for cat, v in ref.items():
        if len(ci[cat]) >= 2 and len(si[cat]) >= 2 and ci[cat][0] != v:
            return True
    return False


# ----------------------------------------------------------------------------- driving paramiko


def _apply(t, side):
    so = t.get_security_options()
    for cat, (attr, _) in CATS.items():
        setattr(so, attr, list(side["prefs"][cat]))


def _kw(side):
    return {"disabled_algorithms": {CATS[c][1]: list(v) for c, v in side["disabled"].items()}, "strict_kex": side["strict"]}


def _wire_kexinit(direction, skip_banner):
    chunks = direction.sent[1:] if skip_banner else direction.sent
    payloads, _ = R.parse_plain_stream(b"".join(chunks[:1]))
    return payloads[0]


def _feed(t, payload):
    import paramiko
    from paramiko.message import Message

    m = Message(payload[1:])
    m.seqno = 0
    try:
        t._parse_kex_init(m)
    except paramiko.ssh_exception.IncompatiblePeer:
        return "incompatible"
    except Exception as e:
        return "exc:%s" % type(e).__name__
    return {
        "kex": CLSKEX.get(type(t.kex_engine).__name__, type(t.kex_engine).__name__),
        "hostkey": t.host_key_type,
        "local_cipher": t.local_cipher,
        "remote_cipher": t.remote_cipher,
        "local_mac": t.local_mac,
        "remote_mac": t.remote_mac,
        "local_compression": t.local_compression,
        "remote_compression": t.remote_compression,
    }


def judge(ctx, case, ci, si, obs, disabled):
    """obs / disabled: {"client": ..., "server": ...} (a side may be missing = not tested)."""
    ref = reference(ci, si)
    missing = [c for c, v in ref.items() if v is None]
    ok = True
    # root-cause bucket of a finding: a server without moduli pack still lists group-exchange in
    # its first KEXINIT although it will not select it (see known_findings.json)
    gex_adv = "server" in obs and not case.get("pack") and str(ref["kex"]).startswith("diffie-hellman-group-exchange") and not missing
    if gex_adv:
        o = obs["server"]
        if not (isinstance(o, dict) and o["kex"] == ref["kex"]):
            ctx.violation(
                "first-client-choice",
                "server:kex:gex-advertised-without-moduli",
                case,
                "server lists %r on the wire without a moduli pack; client's first mutual choice is %r, server side result: %r" % (si["kex"], ref["kex"], o if isinstance(o, str) else o["kex"]),
            )
            ok = False
            if not isinstance(o, dict) or "client" not in obs or not isinstance(obs["client"], dict):
                return ref, ok  # (end to end: both sides die of the disagreement)
            ref = dict(ref, kex=o["kex"])  # judge the remaining categories
            obs = dict(obs, client=dict(obs["client"], kex=o["kex"]))
    for side, o in obs.items():
        idx = 1 if side == "client" else 2
        if isinstance(o, str) and o.startswith("exc:"):
            ctx.violation("incompatible-iff-no-common", "%s:%s" % (side, o), case, "reference=%r" % (ref,))
            ok = False
        elif missing:
            if o != "incompatible":
                ctx.violation("incompatible-iff-no-common", "%s:accepted-without-common:%s" % (side, missing[0]), case, "reference=%r observed=%r" % (ref, o))
                ok = False
        elif o == "incompatible":
            ctx.violation("incompatible-iff-no-common", "%s:spurious-incompatible" % side, case, "reference=%r" % (ref,))
            ok = False
        else:
            for cat, want in ref.items():
                got = o[WIRE[cat][idx]]
                if got != want:
                    ctx.violation("first-client-choice", "%s:%s" % (side, cat), case, "category %s: reference %r, %s reports %r (client list %r, server list %r)" % (cat, want, side, got, ci[cat], si[cat]))
                    ok = False
                if got in disabled[side].get(CATS[WIRE[cat][0]][1], []):
                    ctx.violation("never-disabled", "%s:%s" % (side, cat), case, "%s selected %r which it disabled" % (side, got))
                    ok = False
            if mitm.is_pseudo(str(o["kex"])) or o["kex"] in PSEUDO:
                ctx.violation("pseudo-never-selected", side, case, "kex %r" % (o["kex"],))
                ok = False
    return ref, ok


def run_direct(ctx, case):
    import paramiko

    link = net.Link()
    tc = paramiko.Transport(link.a, **_kw(case["client"]))
    ts = paramiko.Transport(link.b, **_kw(case["server"]))
    _apply(tc, case["client"])
    _apply(ts, case["server"])
    ts.server_mode = True
    pool = peers.keypool()
    for k in case["hostkeys"]:
        ts.add_server_key(pool[k])
    entries = [(2, mitm.group_prime(1024))] if case["pack"] else []
    with mitm.modulus_pack(entries) as mp:
        if not case["pack"]:
            paramiko.Transport._modulus_pack = None
        tc._send_kex_init()
        ts._send_kex_init()
        pc = _wire_kexinit(link.ab, False)
        ps = _wire_kexinit(link.ba, False)
        ci, si = mitm.parse_kexinit(pc), mitm.parse_kexinit(ps)
        obs = {"client": _feed(tc, ps), "server": _feed(ts, pc)}
    dis = {"client": _kw(case["client"])["disabled_algorithms"], "server": _kw(case["server"])["disabled_algorithms"]}
    ref, ok = judge(ctx, case, ci, si, obs, dis)
    fail = any(v is None for v in ref.values())
    ctx.case(case, nontrivial(ci, si, ref), ["direct", "direct:fail" if fail else "direct:agree"])
    return ok


def run_synthetic(ctx, case):
    import paramiko

    role = case["role"]
    link = net.Link()
    t = paramiko.Transport(link.a, **_kw(case["side"]))
    _apply(t, case["side"])
    if role == "server":
        t.server_mode = True
        pool = peers.keypool()
        for k in case["hostkeys"]:
            t.add_server_key(pool[k])
    peer = dict(case["peer"])
    peer["cookie"] = b"\x07" * 16
    synthetic = mitm.build_kexinit(peer)
    entries = [(2, mitm.group_prime(1024))] if case["pack"] else []
    with mitm.modulus_pack(entries):
        if not case["pack"]:
            paramiko.Transport._modulus_pack = None
        t._send_kex_init()
        own = _wire_kexinit(link.ab, False)
        o = _feed(t, synthetic)
    mine, theirs = mitm.parse_kexinit(own), mitm.parse_kexinit(synthetic)
    ci, si = (mine, theirs) if role == "client" else (theirs, mine)
    dis = {role: _kw(case["side"])["disabled_algorithms"]}
    ref, ok = judge(ctx, case, ci, si, {role: o}, dis)
    fail = any(v is None for v in ref.values())
    cl = ["synthetic:" + role, "synthetic:fail" if fail else "synthetic:agree"]
    if any(mitm.is_pseudo(n) for n in theirs["kex"]):
        cl.append("synthetic:pseudo-in-peer-kex-list")
    ctx.case(case, nontrivial(ci, si, ref), cl)
    return ok


class NT(peers.VTransport):
    """Records the kex engine class at the moment keys are activated (it is dropped afterwards)."""

    n_kex = None

    def _activate_outbound(self):
        self.n_kex = type(self.kex_engine).__name__
        return super()._activate_outbound()


def run_e2e(ctx, case):
    import paramiko

    entries = [(2, mitm.group_prime(1024))] if case["pack"] else []
    with mitm.modulus_pack(entries):
        if not case["pack"]:
            paramiko.Transport._modulus_pack = None
        link, tc, ts = peers.make_pair(client_cls=NT, server_cls=NT, client_kw=_kw(case["client"]), server_kw=_kw(case["server"]), host_keys=tuple(case["hostkeys"]))
        _apply(tc, case["client"])
        _apply(ts, case["server"])
        try:
            ce, se = peers.start_both(tc, ts, timeout=30.0)
            if ce is not None:
                ts.join(15)
                se = se or ts.get_exception()
            if not link.ab.wait_sent(2, 15) or not link.ba.wait_sent(2, 15):
                ctx.inconc("e2e:no-kexinit-on-wire")
                return True
            pc, ps = _wire_kexinit(link.ab, True), _wire_kexinit(link.ba, True)
            ci, si = mitm.parse_kexinit(pc), mitm.parse_kexinit(ps)
            obs = {}
            for side, t, exc in (("client", tc, ce), ("server", ts, se)):
                if exc is not None:
                    obs[side] = "incompatible" if isinstance(exc, paramiko.ssh_exception.IncompatiblePeer) else "exc:%s" % type(exc).__name__
                else:
                    obs[side] = {
                        "kex": CLSKEX.get(t.n_kex, t.n_kex),
                        "hostkey": t.host_key_type,
                        "local_cipher": t.local_cipher,
                        "remote_cipher": t.remote_cipher,
                        "local_mac": t.local_mac,
                        "remote_mac": t.remote_mac,
                        "local_compression": t.local_compression,
                        "remote_compression": t.remote_compression,
                    }
        finally:
            peers.shutdown(tc, ts)
            mitm.cancel_timers(tc, ts)
    dis = {"client": _kw(case["client"])["disabled_algorithms"], "server": _kw(case["server"])["disabled_algorithms"]}
    ref, ok = judge(ctx, case, ci, si, obs, dis)
    fail = any(v is None for v in ref.values())
    ctx.case(case, nontrivial(ci, si, ref), ["e2e", "e2e:fail" if fail else "e2e:agree"])
    return ok


# ----------------------------------------------------------------------------- sessions (re-exchanges)


def _session_classes():
    """Built lazily (paramiko is imported by vlib.peers)."""
    import paramiko
    from paramiko.message import Message
    from paramiko.packet import Packetizer

    class KRec(Packetizer):
        """Records the KEXINIT payloads this side hands to the packetizer (documented hook:
        Transport(packetizer_class=...))."""

        def __init__(self, sock):
            Packetizer.__init__(self, sock)
            self.kexinits = []

        def send_message(self, data):
            raw = data.asbytes()
            if raw[:1] == b"\x14":
                self.kexinits.append(raw)
            return Packetizer.send_message(self, data)

    class ST(peers.VTransport):
        """Records the outcome of every negotiation (recording only); as the non-tested peer it can
        put a harness-built KEXINIT on the wire instead of its own (`v_synth` {exchange no: payload})."""

        def __init__(self, sock, **kw):
            kw.setdefault("packetizer_class", KRec)
            self.n_neg = []  # per negotiation: (outcome, peer's KEXINIT payload as received)
            self.n_kexinits_sent = 0
            self.v_synth = {}
            peers.VTransport.__init__(self, sock, **kw)

        def _parse_kex_init(self, m):
            peer = b"\x14" + m.asbytes()
            try:
                peers.VTransport._parse_kex_init(self, m)
            except paramiko.ssh_exception.IncompatiblePeer:
                self.n_neg.append(("incompatible", peer))
                raise
            except Exception as e:
                self.n_neg.append(("exc:%s" % type(e).__name__, peer))
                raise
            self.n_neg.append(
                (
                    {
                        "kex": CLSKEX.get(type(self.kex_engine).__name__, type(self.kex_engine).__name__),
                        "hostkey": self.host_key_type,
                        "local_cipher": self.local_cipher,
                        "remote_cipher": self.remote_cipher,
                        "local_mac": self.local_mac,
                        "remote_mac": self.remote_mac,
                        "local_compression": self.local_compression,
                        "remote_compression": self.remote_compression,
                    },
                    peer,
                )
            )

        def _send_message(self, data):
            raw = data.asbytes()
            if raw[:1] == b"\x14":
                self.n_kexinits_sent += 1
                synth = self.v_synth.get(self.n_kexinits_sent)
                if synth is not None:
                    data = Message(synth)
            return peers.VTransport._send_message(self, data)

    return ST


_ST = []


def _reconfigure(t, side):
    """Change a live Transport's configuration: preference lists through SecurityOptions, the
    disabled set through the public `disabled_algorithms` attribute the constructor fills."""
    if side.get("prefs"):
        so = t.get_security_options()
        for cat, (attr, _) in CATS.items():
            if cat in side["prefs"]:
                setattr(so, attr, list(side["prefs"][cat]))
    if side.get("disabled") is not None:
        t.disabled_algorithms = {CATS[c][1]: list(v) for c, v in side["disabled"].items()}


def _wait(pred, timeout):
    import time

    end = time.time() + timeout
    while time.time() < end:
        if pred():
            return True
        time.sleep(0.002)
    return pred()


def run_session(ctx, case):
    import threading

    import paramiko

    if not _ST:
        _ST.append(_session_classes())
    ST = _ST[0]
    rounds = list(case.get("rounds") or [])
    entries = [(2, mitm.group_prime(1024))] if case["pack"] else []
    views = []  # per exchange: {"client": (own, peer, outcome, disabled), "server": ...}; missing side = not observed
    notes = []
    with mitm.modulus_pack(entries):
        if not case["pack"]:
            paramiko.Transport._modulus_pack = None
        link, tc, ts = peers.make_pair(client_cls=ST, server_cls=ST, client_kw=_kw(case["client"]), server_kw=_kw(case["server"]), host_keys=tuple(case["hostkeys"]))
        _apply(tc, case["client"])
        _apply(ts, case["server"])
        dis = {"client": _kw(case["client"])["disabled_algorithms"], "server": _kw(case["server"])["disabled_algorithms"]}
        sides = {"client": tc, "server": ts}

        def collect(k, only=None):
            v = {}
            for name, t in sides.items():
                if only is not None and name != only:
                    continue
                neg, sent = list(t.n_neg), list(t.packetizer.kexinits)
                if len(neg) > k and len(sent) > k:
                    v[name] = (sent[k], neg[k][1], neg[k][0], dict(dis[name]))
            views.append(v)
            return v

        try:
            ce, se = peers.start_both(tc, ts, timeout=30.0)
            if ce is not None:
                ts.join(15)
            v = collect(0)
            alive = ce is None and se is None and all(isinstance(x[2], dict) for x in v.values()) and len(v) == 2
            for k, rd in enumerate(rounds, start=1):
                if not alive:
                    notes.append("round-not-reached")
                    break
                if not mitm.wait_exchanges(k, tc, ts, timeout=30.0):
                    notes.append("exchange-did-not-complete")
                    break
                for name in ("client", "server"):
                    if rd.get(name):
                        _reconfigure(sides[name], rd[name])
                        if rd[name].get("disabled") is not None:
                            dis[name] = sides[name].disabled_algorithms
                pool = peers.keypool()
                for kn in rd.get("addkeys") or []:
                    ts.add_server_key(pool[kn])
                tested = None
                if rd.get("synthetic"):
                    tested = rd["synthetic"]["tested"]
                    puppet = ts if tested == "client" else tc
                    peer = dict(rd["synthetic"]["peer"])
                    peer["cookie"] = b"\x09" * 16
                    puppet.v_synth[k + 1] = mitm.build_kexinit(peer)
                starter = tc if rd["who"] == "c" else ts

                def go(t=starter):
                    try:
                        t.renegotiate_keys()
                    except BaseException:  # the outcome is read from the negotiation records
                        pass

                th = threading.Thread(target=go, daemon=True)
                th.start()
                watch = [sides[tested]] if tested else [tc, ts]
                _wait(lambda: all(len(t.n_neg) > k or not t.is_active() for t in watch), 30.0)
                if not tested:  # a side that dies of the other's verdict may not get to its own
                    _wait(lambda: all(len(t.n_neg) > k for t in watch) or not any(t.is_active() for t in watch), 3.0)
                v = collect(k, only=tested)
                if tested:
                    notes.append("synthetic-round-ends-session")
                    break
                alive = len(v) == 2 and all(isinstance(x[2], dict) for x in v.values())
        finally:
            peers.shutdown(tc, ts)
            mitm.cancel_timers(tc, ts)
    # ---- judge every negotiation from that exchange's own pair of KEXINITs
    ok = True
    cls = ["session", "session:re-exchanges-negotiated=%d" % max(0, len(views) - 1)]
    prev_ref = None
    for k, v in enumerate(views):
        rd = rounds[k - 1] if k else {}
        for name, (own, peer, outcome, d) in v.items():
            ci, si = (mitm.parse_kexinit(own), mitm.parse_kexinit(peer)) if name == "client" else (mitm.parse_kexinit(peer), mitm.parse_kexinit(own))
            ref, good = judge(ctx, dict(case, pack=case["pack"]), ci, si, {name: outcome}, {name: d})
            ok = ok and good
        if not v:
            cls.append("session:exchange-unobserved")
            continue
        fail = any(x is None for x in ref.values())
        if k:
            cls.append("rekey:fail" if fail else "rekey:agree")
            cls.append("rekey:initiator:" + ("client" if rd["who"] == "c" else "server"))
            for name in ("client", "server"):
                if rd.get(name):
                    if rd[name].get("prefs"):
                        cls.append("rekey:%s-preferences-redrawn" % name)
                    if rd[name].get("disabled") is not None:
                        cls.append("rekey:%s-disabled-set-changed" % name)
            if rd.get("addkeys"):
                cls.append("rekey:host-keys-added")
            if rd.get("synthetic"):
                cls.append("rekey:synthetic-kexinit:%s-tested" % rd["synthetic"]["tested"])
            if prev_ref is not None and not fail:
                for cat, name_ in ref.items():
                    if name_ != prev_ref.get(cat) and prev_ref.get(cat) in ci[cat] and prev_ref.get(cat) in si[cat]:
                        cls.append("rekey:%s:other-choice-while-previous-still-mutual" % cat)
        prev_ref = None if fail else ref
    for n_ in notes:
        cls.append("session:" + n_)
    ctx.case(case, len(views) > 1, cls)
    return ok


def _dispatch(ctx, case):
    if case["mode"] == "session":
        return run_session(ctx, case)
    if case["mode"] == "direct":
        return run_direct(ctx, case)
    if case["mode"] == "synthetic":
        return run_synthetic(ctx, case)
    return run_e2e(ctx, case)


def run(ctx):
    ctx.set_budget(60, 780)
    ctx.assume("host key category: the server's list is what it advertises on the wire (keys it holds and has not disabled)")
    ctx.explore(direct_cases(), lambda c: _dispatch(ctx, c), ctx.scale(1000, 18000), shrink=True, seed_offset=0)
    ctx.explore(synthetic_cases(), lambda c: _dispatch(ctx, c), ctx.scale(800, 15000), shrink=True, seed_offset=1)
    # end to end: threads involved, collect-then-continue
    ctx.explore(direct_cases("e2e"), lambda c: _dispatch(ctx, c), ctx.scale(40, 600), shrink=False, seed_offset=2)
    for j, c in enumerate(session_floor()):
        if j % ctx.nworkers == ctx.worker and not ctx.out_of_time():
            _dispatch(ctx, c)
    ctx.explore(session_cases(), lambda c: _dispatch(ctx, c), ctx.scale(60, 1500), shrink=False, seed_offset=3)


def replay(ctx, case):
    case = dict(case)
    _dispatch(ctx, case)
