"""C27 - remote SFTP files behave like local Python binary files (differential, engine E5).

One case = (initial file content or "file absent", open mode, bufsize, pipelined, operation program).
The same program runs on ``SFTPClient.open(path, mode, bufsize)`` (production client + production
SFTPServer over a socketpair, vlib.sftpenv) and on a local twin ``open(copy, mode + 'b')``.

Oracle (only what the statement promises):
  * open: both raise or neither (both OSError family);
  * data-returning calls (read, readline, readlines, iteration step, tell) return equal values
    (readline-family results of a file opened WITHOUT 'b' are `str` by paramiko's documentation and are
    compared after UTF-8 encoding; the case then only contains ASCII data);
  * every call: both raise or neither; a raising remote call must raise OSError/ValueError family
    (StopIteration of an iteration step is a value, not an error);
  * after flush (not pipelined) and after close, and at the end of the program, the served file's
    bytes equal the twin's bytes.
  Return values of write/writelines/seek/truncate/flush/close are NOT compared (paramiko documents
  the Python-2 file API: None).

Reference details that are deliberately NOT asserted:
  * readlines(hint>0): CPython's C `readlines` stops when the total EXCEEDS hint, `_pyio`'s (and
    paramiko's) when it REACHES hint; paramiko documents "approximately sizehint bytes". Either
    stopping rule is accepted, the twin is re-positioned to what the remote consumed.
  * append modes: CPython's *buffered* append files keep a logical position that is not the OS
    position after a write; the twin of an append-mode file is therefore opened with buffering=0
    (plain OS semantics = what paramiko documents: "seek operations will be undone at the next write").
  * seeks whose resulting position would be negative are clamped to position 0 (local files reject them).

History-relative seeks (``["seek", delta, "naive" | "wire" | "reqK"]``) are resolved to an absolute offset when the
step is executed, from the harness's record of the handle's past (see _CaseState._hist_target); they exist because
position caches (SFTPHandle.__tell on the server, _realpos on the client) are only consulted when a request starts
exactly where an earlier one ended - random offsets practically never do.

Domain restrictions (not findings): truncate only on handles opened for writing; at most 90 WRITE
requests per pipelined handle (beyond 100 the C29 finding can block the client); the served files are
opened unbuffered on the server side (vlib.sftpenv handle_buffering=0) so that a truncate, which the
server interface performs by path, is seen by later reads through the handle.

Known findings are kept out of the campaign by construction (see EXCLUSIONS): the program
sanitiser inserts ``seek(0, SEEK_CUR)`` / ``flush()`` at the hazardous transition or drops the op, and
counts it with ctx.exclude. An exclusion is active only while its finding is listed ``open`` in
known_findings.json / known_findings.d/C27.json (so it disappears by itself when the coordinator flips
the entry to ``fixed``); ``VERIF_C27_NOEXCLUDE=all`` (or a comma list of exclusion names) switches
exclusions off for experiments on a repaired scratch tree.
"""
import functools
import io
import os

from hypothesis import strategies as st

from vlib import core

PROPERTY = "C27"
LEVEL = "exploration"
THOROUGH_WORKERS = 16
RULE = (
    "hypothesis-generated programs of <= 40 operations (read/readline/readlines/iteration/write/writelines/"
    "seek/tell/flush/truncate/close/re-open; singles, bursts of consecutive reads, tight read/write alternations, revisit bursts = "
    "reads/writes interleaved with seeks to positions of the handle's own past (where the position would be had every read/write simply "
    "advanced it - at program level and at request level - and where the K-th last request ended, +-delta) followed by a bounded read or a write; "
    "optionally a tell() after every step) over a file with 0-20000 initial bytes rich in \\n and \\r (or absent), "
    "mode in r/r+/w/w+/a/a+/wx/w+x each with and without b, bufsize in {-1,0,1,2,7,1024,8192,65536}, pipelined on/off; "
    "run on SFTPClient.open() against a production SFTPServer and on a local twin file; transitions covered by an open "
    "known finding get a seek(0,1)/flush() inserted (counted under excluded_by_construction); non-trivial = the executed "
    "program has a read->write or write->read transition (possibly across a seek) on a handle opened in a '+' or "
    "append mode and an open succeeded; distinct by SHA-1 of the sanitised case"
)

# --------------------------------------------------------------------------- exclusions
# name -> known_findings key. The exclusion is applied while that key is listed "open".
# TRUNCATE is the module-level switch asked for in the brief: set EXCLUDE_TRUNCATE = False (or run
# with VERIF_C27_NOEXCLUDE=truncate) once SFTPServer.set_file_attr no longer wipes the file.
EXCLUDE_TRUNCATE = True

K_TRUNCATE = "truncate|truncate-wipes-file"
K_READAHEAD = "write-after-readahead|(rw,any,readahead;write)"
K_WBUFFER = "buffered-write-not-flushed|(any,buffered,write;read/tell)"
K_HINT = "readlines-nonpositive-hint|(any,any,readlines(<=0))"
K_CLOSED = "closed-file-op-succeeds|(any,any,close;tell/seek/flush)"
K_CLOSED_TRUNC = "truncate-on-closed-file|(any,any,close;truncate)"
K_TRUNC_STATE = "truncate-ignores-buffered-state|(any,any,readahead/pending-write/append;truncate)"
K_APPEND_TELL = "append-write-stale-server-position|(a/a+,any,read;write;read-at-naive-position)"

EXCLUSIONS = {
    "truncate": K_TRUNCATE,
    "readahead": K_READAHEAD,
    "wbuffer": K_WBUFFER,
    "hint": K_HINT,
    "closed": K_CLOSED,
    "closedtrunc": K_CLOSED_TRUNC,
    "truncstate": K_TRUNC_STATE,
    # nothing is excluded by construction for this one (the sanitiser cannot see request offsets); listing it here
    # makes the root-cause attribution (server handle's cached position != its real one) active while it is open
    "appendtell": K_APPEND_TELL,
}
NAME_OF_KEY = dict((v, k) for k, v in EXCLUSIONS.items())


def active_exclusions():
    off = os.environ.get("VERIF_C27_NOEXCLUDE", "")
    off = set(x.strip() for x in off.split(",") if x.strip())
    if "all" in off:
        return frozenset()
    known = core.load_known(PROPERTY)
    out = set()
    for name, key in EXCLUSIONS.items():
        if name in off:
            continue
        ent = known.get(key)
        if ent is not None and ent.get("status") == "open":
            if name == "truncate" and not EXCLUDE_TRUNCATE:
                continue
            out.add(name)
    return frozenset(out)


# --------------------------------------------------------------------------- strategies

BASE_MODES = ["r", "r+", "w", "w+", "a", "a+", "wx", "w+x"]
# '+' modes are where reads and writes interact: drawn more often
WEIGHTED_MODES = BASE_MODES + ["r+", "r+", "r+", "w+", "w+", "a+", "a+", "r", "a"]
BUFSIZES = [-1, 0, 1, 2, 7, 1024, 8192, 65536]
READ_KINDS = ("read", "readline", "readlines", "next")
WRITE_KINDS = ("write", "writelines", "wtext")

ASCII_ALPHABET = b"\na\n\rb\n z\r\x00\n"
BIN_ALPHABET = b"\na\n\rb\n\x00\xff\r\xc3\x80\n"


def _rep(unit, n, pad=0):
    """n bytes made of repetitions of ``unit`` (+ ``pad`` filler bytes, so that big files have
    lines of some length instead of thousands of 1-2 byte lines)."""
    if not unit:
        return b""
    unit = unit + b"." * pad
    return (unit * (n // len(unit) + 1))[:n]


def _small(alphabet, max_size):
    """Short byte strings over ``alphabet`` (repeated characters = weights) from two draws:
    a length and one big integer whose base-len(alphabet) digits select the characters."""
    chars = bytes(alphabet)
    base = len(chars)

    def build(t):
        n, v = t
        out = bytearray()
        for _ in range(n):
            v, d = divmod(v, base)
            out.append(chars[d])
        return bytes(out)

    return st.tuples(st.integers(0, max_size), st.integers(0, base**max_size - 1)).map(build)


@functools.lru_cache(maxsize=None)
def _data(alphabet, big):
    small = _small(alphabet, 24)
    rep = _rep

    sizes = [st.integers(0, 200), st.integers(0, 5000)]
    if big:
        sizes.append(st.sampled_from([8191, 8192, 8193, 20000, 32767, 32768, 32769, 70000]))
    return st.one_of(small, small, st.builds(rep, small, st.one_of(*sizes), st.sampled_from([0, 7, 60, 60])))


# op weights per profile: (read, readline, readlines, next, write, writelines, seek, tell, flush, truncate, close, reopen, wtext)
PROFILES = {
    "mixed": (6, 5, 2, 3, 8, 2, 6, 5, 2, 2, 1, 2, 1),
    "reader": (8, 8, 3, 4, 1, 0, 5, 5, 0, 0, 0, 1, 0),
    "writer": (2, 1, 0, 0, 10, 3, 6, 4, 3, 3, 0, 1, 1),
    "readwrite": (6, 6, 1, 2, 8, 1, 3, 4, 1, 1, 0, 0, 1),
    # programs made of revisit bursts (seeks back to where earlier operations / requests ended) on read-write handles
    "revisit": (6, 6, 1, 2, 8, 1, 3, 4, 1, 1, 0, 0, 1),
}


def _w(strategy, n):
    """``n`` distinct copies of a strategy (one_of() drops repeated occurrences of the same object)."""
    return [strategy.map(lambda v: v) for _ in range(n)]


@functools.lru_cache(maxsize=None)
def _modes(pool):
    return st.sampled_from(list(pool))


@functools.lru_cache(maxsize=None)
def _init(alphabet, with_absent, max_init):
    small = _small(alphabet, 30)
    return st.one_of(
        st.sampled_from(
            [b"line1\nline2\r\nline3\n", b"no newline at the end", b"a\n\nbb\nccc\n\rdddd\neeeee\n"] + ([None, b""] if with_absent else [])
        ),
        small,
        small,
        st.builds(_rep, small, st.integers(0, 3000), st.sampled_from([0, 0, 7, 60])),
        st.builds(_rep, small, st.integers(0, max_init), st.sampled_from([7, 60, 60, 500])),
    )


@functools.lru_cache(maxsize=None)
def _ops(alphabet, text_ok, modes, profile="mixed"):
    data = _data(alphabet, True)
    small = _data(alphabet, False)
    n_read = st.sampled_from([None, None, None, -1, 0, 1, 2, 3, 5, 17, 100, 1023, 1024, 1025, 3000, 8191, 8192, 8193, 40000])
    n_line = st.sampled_from([None, None, -1, 0, 1, 2, 3, 5, 100, 9000])
    n_hint = st.sampled_from([None, None, -1, 0, 1, 2, 5, 6, 7, 50, 5000])
    # seeks to positions taken from the handle's own past (resolved when executed, see _CaseState._hist_target):
    # "naive" = where the position would be if every read/write of the program had simply advanced it, "wire" = the same
    # for the requests on the wire: end of the last READ request plus the bytes of the WRITE requests sent since (for an
    # append-mode file neither is where the position really is), "reqK" = where the K-th most recent request of the
    # client ended; plus a small delta
    hseek = st.tuples(
        st.just("seek"), st.sampled_from([0, 0, 0, 0, 0, 0, 0, 0, 1, -1, 4, -4]), st.sampled_from(["wire", "wire", "wire", "wire", "naive", "req0", "req1", "req1", "req2"])
    )
    seek = st.one_of(
        st.tuples(st.just("seek"), st.one_of(st.integers(0, 12), st.integers(0, 40), st.integers(0, 40), st.integers(0, 6000), st.integers(0, 70000)), st.just(0)),
        st.tuples(st.just("seek"), st.integers(0, 12), st.just(0)),
        st.tuples(st.just("seek"), st.one_of(st.integers(-40, 40), st.integers(-6000, 6000)), st.just(1)),
        st.tuples(st.just("seek"), st.one_of(st.integers(-40, 10), st.integers(-6000, 100)), st.just(2)),
    )
    reopen = st.tuples(st.just("reopen"), modes, st.sampled_from(BUFSIZES), st.booleans())
    w = PROFILES[profile]
    ops = [
        (w[0], st.tuples(st.just("read"), n_read)),
        (w[1], st.tuples(st.just("readline"), n_line)),
        (w[2], st.tuples(st.just("readlines"), n_hint)),
        (w[3], st.tuples(st.just("next"))),
        (w[4], st.tuples(st.just("write"), data)),
        (w[5], st.tuples(st.just("writelines"), st.lists(small, max_size=5))),
        (w[6], seek),
        (w[7], st.tuples(st.just("tell"))),
        (w[8], st.tuples(st.just("flush"))),
        (w[9], st.tuples(st.just("truncate"), st.one_of(st.integers(0, 40), st.integers(0, 9000)))),
        (w[10], st.tuples(st.just("close"))),
        (w[11], reopen),
    ]
    if text_ok:
        ops.append((w[12], st.tuples(st.just("wtext"), small)))
    weighted = []
    for n, s in ops:
        weighted.extend([s] * n)
    single = st.one_of(*weighted)
    # bursts: runs of consecutive reads (read-ahead buffer handling) and tight read/write alternations
    reads = st.one_of(*[s for n, s in ops[:4] for _ in range(max(n, 1))])
    writes = st.one_of(ops[4][1], ops[4][1], ops[5][1])
    read_burst = st.lists(reads, min_size=2, max_size=5)
    mixed_burst = st.lists(st.one_of(reads, reads, writes, writes, ops[7][1], seek), min_size=2, max_size=5)
    # revisits: reads and writes interleaved with seeks back to where earlier operations ended
    # (a seek shows only in what the next read returns / where the next write lands: it comes paired with one)
    # (the read after a revisit is a bounded one: enough to see what is there, without re-reading the whole file each time)
    short_reads = st.one_of(
        st.tuples(st.just("read"), st.sampled_from([1, 2, 3, 5, 17, 100, 1024, 3000])),
        st.tuples(st.just("readline"), st.sampled_from([None, None, 1, 5, 100])),
        st.tuples(st.just("next")),
    )
    revisit = st.tuples(hseek, st.one_of(*(_w(short_reads, 3) + _w(writes, 1))))
    write_revisit = st.tuples(writes, hseek, short_reads)  # what does a read at a place of the past see after a write
    # half of these bursts start near the beginning of the file (an append-mode handle starts at its end, where reads are empty)
    revisit_burst = st.tuples(
        st.one_of(st.just(None), st.tuples(st.just("seek"), st.integers(0, 12), st.just(0))),
        st.lists(st.one_of(*(_w(reads, 1) + _w(writes, 1) + _w(revisit, 2) + _w(write_revisit, 2))), min_size=2, max_size=5),
    ).map(lambda t: ([t[0]] if t[0] else []) + [o for x in t[1] for o in (x if isinstance(x[0], tuple) else (x,))])
    # read(all)/readlines() leave the position at EOF, where every further read is trivially empty:
    # most of the time they are followed by a seek back into the file
    back = st.tuples(st.just("seek"), st.integers(0, 12), st.just(0))

    def follow(o, b, use):
        terminal = (o[0] == "read" and (o[1] is None or o[1] < 0 or o[1] >= 3000)) or (o[0] == "readlines" and (o[1] is None or o[1] <= 0 or o[1] >= 5000))
        return [o, b] if (terminal and use) else [o]

    one = st.builds(follow, single, back, st.sampled_from([True, True, True, False]))
    if profile == "revisit":
        return st.one_of(*(_w(revisit_burst, 4) + [one, mixed_burst]))
    return st.one_of(one, one, one, one, read_burst, mixed_burst, revisit_burst)


@st.composite
def case_st(draw, max_steps=40, max_init=20000):
    binary_only = draw(st.booleans())
    profile = draw(st.sampled_from(["mixed", "mixed", "reader", "writer", "readwrite", "readwrite", "revisit"]))
    pool = {
        "mixed": WEIGHTED_MODES,
        "reader": ["r", "r+", "r+", "a+", "w+"],
        "writer": WEIGHTED_MODES + ["w", "wx", "w+x"],
        "readwrite": ["r+", "r+", "w+", "a+"],
        "revisit": ["r+", "w+", "a+", "a+"],
    }[profile]
    if binary_only:
        modes = _modes(tuple(m + "b" for m in pool))
        alphabet = BIN_ALPHABET
    else:
        modes = _modes(tuple(pool) + tuple(m + "b" for m in pool))
        alphabet = ASCII_ALPHABET
    mode = draw(modes)
    if "x" in mode and draw(st.integers(0, 3)) > 0:
        init = None
    else:
        init = draw(_init(alphabet, profile not in ("reader", "readwrite", "revisit"), max_init))
    # (an unbuffered file turns every read/write into exactly one request: the revisit profile prefers it)
    bufsize = draw(st.sampled_from(BUFSIZES + [0, 0, -1] if profile == "revisit" else BUFSIZES))
    pipelined = draw(st.booleans())
    nmin = draw(st.sampled_from([1, 1, 4, 8, 16, 30]))
    dense_tell = draw(st.integers(0, 2)) == 0  # a tell() after every step: position bookkeeping is checked densely
    if dense_tell:
        max_steps = max_steps // 2
    groups = draw(st.lists(_ops(alphabet, not binary_only, modes, profile), min_size=min(nmin, max_steps) // 2 + 1, max_size=max_steps))
    ops = [list(o) for g in groups for o in g][:max_steps]
    if dense_tell:
        ops = [x for o in ops for x in (o, ["tell"])]
    elif draw(st.booleans()):
        ops.append(["tell"])
        ops = ops[-40:]
    return {"init": init, "mode": mode, "bufsize": bufsize, "pipelined": pipelined, "ops": ops}


# --------------------------------------------------------------------------- sanitiser


def _buffered(bufsize):
    return bufsize >= 1


def sanitise(case, excl, ctx=None):
    """Keep the known findings out of the program (static, by op kinds only)."""

    def note(name):
        if ctx is not None:
            ctx.exclude(EXCLUSIONS[name])

    out = []
    mode, bufsize, pipelined = case["mode"], case["bufsize"], case["pipelined"]
    closed = False
    ra = False  # remote may hold read-ahead
    wb = False  # remote may hold buffered writes
    nreq = 0  # WRITE requests sent on this handle
    for op in case["ops"]:
        k = op[0]
        if k == "reopen":
            mode, bufsize, pipelined = op[1], op[2], bool(op[3])
            closed = ra = wb = False
            nreq = 0
            out.append(op)
            continue
        if k in WRITE_KINDS and pipelined and not closed:
            # domain: a pipelined file with more than 100 outstanding WRITE requests whose replies were
            # consumed by another request blocks forever in SFTPFile._write (the C29 finding); stay below
            items = op[1] if k == "writelines" else [op[1]]
            n = sum(1 + len(x) // 32768 for x in items if x)
            if nreq + n > 90:
                if ctx is not None:
                    ctx.count("dropped:pipelined-write-over-90-requests")
                continue
            nreq += n
        if k == "truncate" and not closed and not ("+" in mode or "w" in mode or "a" in mode):
            # domain: truncate only on writable handles (what FSETSTAT on a read-only handle does is
            # decided by the server interface implementation, i.e. the harness, not by paramiko)
            if ctx is not None:
                ctx.count("dropped:truncate-on-readonly-handle")
            continue
        if k == "truncate" and closed and "closedtrunc" in excl:
            note("closedtrunc")
            continue
        if k == "truncate" and "truncate" in excl:
            note("truncate")
            continue
        if k == "truncate" and not closed and "truncstate" in excl:
            if "a" in mode:
                note("truncstate")
                continue
            if ra or wb:
                note("truncstate")
                out.append(["seek", 0, 1])
                ra = wb = False
        if closed and (k in ("tell", "seek", "flush") or (k == "writelines" and not op[1])) and "closed" in excl:
            note("closed")
            continue
        if k == "readlines" and op[1] is not None and op[1] <= 0 and "hint" in excl:
            note("hint")
            op = ["readlines", None]
        if not closed:
            if k in WRITE_KINDS and ra and "readahead" in excl:
                note("readahead")
                out.append(["seek", 0, 1])
                ra = False
                wb = False
            if (k in READ_KINDS or k == "tell") and wb and "wbuffer" in excl:
                note("wbuffer")
                out.append(["flush"])
                wb = False
        out.append(op)
        if closed:
            continue
        if k == "close":
            closed = True
            ra = wb = False
        elif k == "seek":
            ra = wb = False
        elif k == "flush":
            wb = False
        elif k in WRITE_KINDS:
            if _buffered(bufsize) and ("+" in mode or "w" in mode or "a" in mode):
                wb = True
        elif k in READ_KINDS:
            if k == "read" and (op[1] is None or op[1] < 0 or not _buffered(bufsize)):
                pass
            elif "r" in mode or "+" in mode:
                ra = True
    c = dict(case)
    c["ops"] = out
    return c


def nontrivial(case):
    """read->write or write->read transition on a '+'/append handle."""
    mode = case["mode"]
    last = None
    for op in case["ops"]:
        k = op[0]
        if k == "reopen":
            mode, last = op[1], None
            continue
        if k == "close":
            last = None
            continue
        kind = "r" if k in READ_KINDS else ("w" if k in WRITE_KINDS else None)
        if kind is None:
            continue
        if last is not None and last != kind and ("+" in mode or "a" in mode):
            return True
        last = kind
    return False


# --------------------------------------------------------------------------- executor


def _local_mode(mode):
    m = mode.replace("b", "")
    plus = "+" in m
    base = m.replace("+", "")
    if "x" in base:
        base = "x"
    return base + ("+" if plus else "") + "b"


def _mode_class(mode):
    return _local_mode(mode)[:-1]


def _buf_class(bufsize):
    if bufsize <= 0:
        return "unbuffered"
    return "linebuf" if bufsize == 1 else "buffered"


def _op_label(op):
    k = op[0]
    if k == "read":
        return "read(all)" if op[1] is None or op[1] < 0 else "read(n)"
    if k == "readline":
        return "readline()" if op[1] is None or op[1] < 0 else "readline(k)"
    if k == "readlines":
        return "readlines()" if op[1] is None else ("readlines(<=0)" if op[1] <= 0 else "readlines(hint)")
    if k == "seek":
        return "seek%d" % op[2] if isinstance(op[2], int) else "seek:history"
    if k == "wtext":
        return "write"
    return k


def _short(v):
    if isinstance(v, (bytes, str)):
        return "%s[%d]%r" % (type(v).__name__, len(v), v[:40])
    if isinstance(v, list):
        return "list[%d]%s" % (len(v), [_short(x) for x in v[:4]])
    return repr(v)


class _Stop:
    def __repr__(self):
        return "<StopIteration>"


STOP = _Stop()


class _Raised:
    def __init__(self, exc):
        self.exc = exc

    def __repr__(self):
        return "raised %s(%s)" % (type(self.exc).__name__, str(self.exc)[:80])


def _call(fn, *a):
    try:
        return fn(*a)
    except StopIteration:
        return STOP
    except Exception as e:  # classified by the oracle below, never swallowed
        return _Raised(e)


def _to_bytes(v):
    if isinstance(v, str):
        return v.encode("utf-8")
    if isinstance(v, list):
        return [_to_bytes(x) for x in v]
    return v


class Runner:
    """Executes cases against one SftpEnv (re-created after a connection-level failure)."""

    WATCHDOG_S = 20.0  # a blocked client call surfaces as an exception instead of hanging the harness

    def __init__(self, ctx, attribute=None):
        self.ctx = ctx
        # hazards (root-cause names of known findings) are attributed in the replay tier and, during
        # exploration, only for findings that are still excluded by construction: a divergence seen
        # while an exclusion is off (finding repaired / experiment) is reported under its raw pattern.
        self.attribute = set(EXCLUSIONS) if attribute is None else set(attribute)
        self.base = os.path.join(ctx.tmpdir(), "c27-%d" % os.getpid())
        self.root = os.path.join(self.base, "root")
        self.twin = os.path.join(self.base, "twin")
        os.makedirs(self.root, exist_ok=True)
        os.makedirs(self.twin, exist_ok=True)
        self.env = None
        self.n = 0

    def _env(self):
        if self.env is None:
            from vlib.sftpenv import SftpEnv

            # unbuffered server-side files: with the stub-server style buffered handle a truncate (done by
            # path) would leave stale data in the *server's* Python file buffer - a harness artefact
            self.env = SftpEnv(self.root, handle_buffering=0)
            self.env.client_chan.settimeout(self.WATCHDOG_S)
        return self.env

    def reset(self):
        if self.env is not None:
            self.env.close()
            self.env = None

    def close(self):
        self.reset()

    # -- one case ---------------------------------------------------------------
    def execute(self, case):
        ctx = self.ctx
        self.n += 1
        name = "f%d" % self.n
        rpath = os.path.join(self.root, name)
        lpath = os.path.join(self.twin, name)
        st_ = _CaseState(self, case, name, rpath, lpath)
        try:
            st_.run()
        finally:
            st_.cleanup()
        classes = sorted(st_.classes)
        ctx.case(case, st_.opened_ok and nontrivial(case), classes)
        if st_.fail is not None:
            clause, bucket, detail = st_.fail
            if ctx.violation(clause, bucket, case, detail) and os.environ.get("VERIF_C27_DEBUG"):
                print("DEBUG known hit %s|%s: %s" % (clause, bucket, detail), flush=True)


class _CaseState:
    def __init__(self, runner, case, name, rpath, lpath):
        self.r = runner
        self.case = case
        self.name = name
        self.rpath = rpath
        self.lpath = lpath
        self.rf = None
        self.lf = None
        self.mode = case["mode"]
        self.bufsize = case["bufsize"]
        self.pipelined = case["pipelined"]
        self.fail = None
        self.hazard = None  # first hazard seen on the current pair of handles
        self.history = []
        self.trace = []
        self.classes = set()
        self.opened_ok = False
        self.naive = 0  # position if every read/write had simply advanced it (what a position cache believes)
        self.wire = 0  # the same for the requests on the wire: end of the last READ request + bytes of the WRITEs sent since
        self.reqs = []  # distinct request-cursor values of the client (ends of its requests), oldest first

    # -- helpers ----------------------------------------------------------------
    def _disk(self, path):
        try:
            with open(path, "rb") as f:
                return f.read()
        except FileNotFoundError:
            return None

    def _fail(self, clause, op_label, detail):
        if self.fail is not None:
            return
        if self.hazard is not None:
            clause, bucket = self.hazard.split("|", 1)
        else:
            pat = []
            for h in self.history[-3:] + [op_label]:
                if not pat or pat[-1] != h:
                    pat.append(h)
            bucket = "(%s,%s,%s)" % (_mode_class(self.mode), _buf_class(self.bufsize), ";".join(pat))
        tr = " | ".join(self.trace[-8:])
        self.fail = (clause, bucket, "%s ; mode=%s bufsize=%s pipelined=%s ; last steps: %s" % (detail, self.mode, self.bufsize, self.pipelined, tr))

    def _open(self, mode, bufsize, pipelined):
        self.mode, self.bufsize, self.pipelined = mode, bufsize, pipelined
        self.hazard = None
        self.history = []
        env = self.r._env()
        rf = _call(env.client.open, "/" + self.name, mode, bufsize)
        lmode = _local_mode(mode)
        if "a" in lmode:
            lf = _call(open, self.lpath, lmode, 0)
        else:
            lf = _call(open, self.lpath, lmode)
        self.trace.append("open(%s,%s) -> %r / %r" % (mode, bufsize, rf if isinstance(rf, _Raised) else "ok", lf if isinstance(lf, _Raised) else "ok"))
        r_bad, l_bad = isinstance(rf, _Raised), isinstance(lf, _Raised)
        if r_bad != l_bad:
            if not r_bad:
                _call(rf.close)
            if not l_bad:
                lf.close()
            self._fail("open-raises", "open", "remote open: %r, local open: %r" % (rf, lf))
            return False
        if r_bad:
            if not isinstance(rf.exc, (OSError, ValueError)):
                self._fail("exception-family", "open", "remote open raised %r" % rf)
            self.classes.add("open-fails-both")
            return False
        if pipelined:
            rf.set_pipelined(True)
        self.rf, self.lf = rf, lf
        self.opened_ok = True
        t = _call(lf.tell)
        self.naive = self.wire = t if isinstance(t, int) else 0
        self.reqs = []
        self.classes.add("mode:" + _mode_class(mode))
        self.classes.add("buf:" + _buf_class(bufsize))
        if pipelined:
            self.classes.add("pipelined")
        return True

    def _close_both(self, label):
        """Harness-initiated close (end of program / before re-open)."""
        if self.rf is None:
            return True
        rr = _call(self.rf.close)
        lr = _call(self.lf.close)
        self.trace.append("%s: close -> %r / %r" % (label, rr, lr))
        self.rf = self.lf = None
        if isinstance(rr, _Raised) != isinstance(lr, _Raised):
            self._fail("raises", "close", "close at %s: remote %r local %r" % (label, rr, lr))
            return False
        return self._compare_disk("content-after-close", "close")

    def _compare_disk(self, clause, label):
        a, b = self._disk(self.rpath), self._disk(self.lpath)
        if a != b:
            self._fail(clause, label, "served file %s != local twin %s%s" % (_short(a), _short(b), _first_diff(a, b)))
            return False
        return True

    # -- program ----------------------------------------------------------------
    def run(self):
        case = self.case
        for p in (self.rpath, self.lpath):
            if case["init"] is not None:
                with open(p, "wb") as f:
                    f.write(case["init"])
        self.classes.add("init:absent" if case["init"] is None else ("init:empty" if not case["init"] else "init:data"))
        if not self._open(case["mode"], case["bufsize"], case["pipelined"]):
            # nothing to run the program on; a later re-open is still honoured
            pass
        for op in case["ops"]:
            if self.fail is not None:
                return
            k = op[0]
            if k == "reopen":
                if not self._close_both("reopen"):
                    return
                self._open(op[1], op[2], bool(op[3]))
                continue
            if self.rf is None:
                continue
            self._step(op)
        if self.fail is None:
            if self._close_both("end"):
                self._compare_disk("final-content", "end")

    def _step(self, op):
        rf, lf = self.rf, self.lf
        k = op[0]
        label = _op_label(op)
        self.classes.add("op:" + k)
        remote_closed = rf._closed
        # ---- hazards (root-cause attribution only; never part of the oracle) ----
        rb, wb = len(rf._rbuffer), rf._wbuffer.tell()
        hz = None
        if not remote_closed:
            if k in WRITE_KINDS and rb and rf.writable() and _payload_len(op):
                hz = K_READAHEAD
            elif (k in READ_KINDS or k == "tell") and wb:
                hz = K_WBUFFER
        elif k in ("tell", "seek", "flush") or (k == "writelines" and not op[1]):
            hz = K_CLOSED
        elif k == "truncate":
            hz = K_CLOSED_TRUNC
        if k == "readlines" and op[1] is not None and op[1] <= 0 and not remote_closed and rf.readable():
            hz = K_HINT
        hz_trunc = None
        if k == "truncate" and not remote_closed and rf.writable() and (rb or wb or "a" in self.mode):
            hz_trunc = K_TRUNC_STATE
        if hz is not None and self.hazard is None and NAME_OF_KEY[hz] in self.r.attribute:
            self.hazard = hz
        # ---- perform ----------------------------------------------------------
        n_reads0 = self.r.env.n_reads if self.r.env is not None else 0
        if k == "read":
            rr, lr = _call(rf.read, op[1]), _call(lf.read, op[1] if op[1] is not None else -1)
        elif k == "readline":
            if op[1] is None:
                rr, lr = _call(rf.readline), _call(lf.readline)
            else:
                rr, lr = _call(rf.readline, op[1]), _call(lf.readline, op[1])
        elif k == "readlines":
            rr, lr = self._readlines(op[1])
        elif k == "next":
            rr, lr = _call(rf.__next__), _call(lf.__next__)
        elif k == "write":
            rr, lr = _call(rf.write, op[1]), _call(lf.write, op[1])
        elif k == "wtext":
            rr, lr = _call(rf.write, op[1].decode("ascii")), _call(lf.write, op[1])
        elif k == "writelines":
            rr, lr = _call(rf.writelines, list(op[1])), _call(lf.writelines, list(op[1]))
        elif k == "seek":
            if isinstance(op[2], int):
                off, wh = self._clamp_seek(op[1], op[2])
            else:
                off, wh = self._hist_target(op[1], op[2]), 0
                self.classes.add("seek:to-%s-position" % op[2] if op[2] in ("naive", "wire") else "seek:to-earlier-request-end")
                if "a" in self.mode and op[2] in ("naive", "wire") and off != self._local_pos():
                    self.classes.add("seek:append,%s-position!=real" % op[2])
            rr, lr = _call(rf.seek, off, wh), _call(lf.seek, off, wh)
        elif k == "tell":
            rr, lr = _call(rf.tell), _call(lf.tell)
        elif k == "flush":
            rr, lr = _call(rf.flush), _call(lf.flush)
        elif k == "truncate":
            rr, lr = _call(rf.truncate, op[1]), _call(lf.truncate, op[1])
        elif k == "close":
            rr, lr = _call(rf.close), _call(lf.close)
        else:
            raise core.HarnessError("unknown op %r" % (op,))
        # ---- the handle's past (generator state for history-relative seeks; no part of the oracle) ----
        if not isinstance(lr, _Raised) and lr is not STOP:
            if k in READ_KINDS:
                self.naive += sum(len(x) for x in lr) if isinstance(lr, list) else len(lr)
            elif k in WRITE_KINDS:
                self.naive += _payload_len(op)
            elif k == "seek":
                self.naive = self._local_pos()
        rp = getattr(rf, "_realpos", None)
        if not remote_closed and not isinstance(rr, _Raised):
            sent = (_payload_len(op) if k in WRITE_KINDS else 0) + wb - rf._wbuffer.tell()
            self.wire += max(0, sent)
            if k in READ_KINDS and isinstance(rp, int) and self.r.env is not None and self.r.env.n_reads != n_reads0:
                self.wire = rp
        if isinstance(rp, int) and (not self.reqs or self.reqs[-1] != rp):
            self.reqs.append(rp)
        # the server handle served a request of this step from a position other than the requested one
        if k in READ_KINDS and self.hazard is None and "a" in self.mode and "appendtell" in self.r.attribute:
            if self.r.env is not None and self.r.env.n_reads != n_reads0 and self._server_position_stale():
                self.hazard = K_APPEND_TELL
        if k in READ_KINDS and not isinstance(lr, _Raised) and (lf.closed or not lf.readable()):
            # CPython quirk: IOBase.readline(0) on a write-only (even closed) file returns b'' without
            # checking anything; the reference behaviour of a read on such a file is "raises".
            lr = _Raised(io.UnsupportedOperation("not readable (reference quirk normalised)"))
        self.trace.append("%s%s -> %s / %s" % (k, _short_args(op), _short(rr), _short(lr)))
        # ---- oracle -----------------------------------------------------------
        r_bad, l_bad = isinstance(rr, _Raised), isinstance(lr, _Raised)
        if r_bad != l_bad:
            self._fail("raises", label, "step %s%s: remote %s, local %s" % (k, _short_args(op), _short(rr), _short(lr)))
            return
        if r_bad:
            if not isinstance(rr.exc, (OSError, ValueError)):
                self._fail("exception-family", label, "step %s: remote raised %r (local %r)" % (k, rr, lr))
                return
            self.classes.add("both-raise")
        elif k in READ_KINDS or k == "tell":
            is_b = "b" in self.mode
            if k == "read" and not isinstance(rr, bytes):
                self._fail("value-type", label, "read returned %s" % type(rr).__name__)
                return
            if is_b and k in ("readline", "next") and rr is not STOP and not isinstance(rr, bytes):
                self._fail("value-type", label, "%s returned %s in a 'b' mode" % (k, type(rr).__name__))
                return
            if _to_bytes(rr) != lr:
                self._fail("value", label, "step %s%s: remote %s, local %s" % (k, _short_args(op), _short(rr), _short(lr)))
                return
        # truncate: attribute content loss to the set_file_attr defect (shared with C31)
        if k == "truncate" and not r_bad and self.hazard is None and not self.pipelined and "truncate" in self.r.attribute:
            _call(lf.flush)
            a, b = self._disk(self.rpath), self._disk(self.lpath)
            if a != b and a is not None and b is not None and len(a) == len(b) and not any(a) and not rf._wbuffer.tell():
                self.hazard = K_TRUNCATE
                self._fail("truncate", label, "after truncate(%r): served file %s, local twin %s" % (op[1], _short(a), _short(b)))
                return
        if hz_trunc is not None and not r_bad and self.hazard is None and "truncstate" in self.r.attribute:
            # from here on the remote's buffers / append bookkeeping may be out of step with the file
            self.hazard = hz_trunc
        if not r_bad and ((k == "flush" and not self.pipelined) or k == "close") and not (k == "flush" and remote_closed):
            if k == "flush":
                _call(lf.flush)
            if not self._compare_disk("content-after-" + k, label):
                return
        if k == "seek":
            self.history = []
        self.history.append(label)

    def _local_pos(self):
        t = _call(self.lf.tell)
        return t if isinstance(t, int) else self.naive

    def _hist_target(self, delta, which):
        """Absolute target of a history-relative seek."""
        if which == "naive":
            base = self.naive
        elif which == "wire":
            base = self.wire
        else:
            k = int(which[3:])
            base = self.reqs[-1 - k] if k < len(self.reqs) else self.naive
        return max(0, base + delta)

    def _server_position_stale(self):
        """Attribution only: after a READ request of the current step has been answered (the server is idle again),
        does the server-side handle's cached position differ from the real position of its file?  It does exactly
        when the request was served without a seek from somewhere else than the requested offset."""
        srv = getattr(self.r.env, "server", None)
        h = getattr(srv, "file_table", {}).get(getattr(self.rf, "handle", None))
        cached = getattr(h, "_SFTPHandle__tell", None)
        if h is None or cached is None:
            return False
        try:
            return h.readfile.tell() != cached
        except (OSError, ValueError, AttributeError):
            return False

    def _clamp_seek(self, off, wh):
        lf = self.lf
        if lf.closed:
            return max(off, 0) if wh == 0 else off, wh
        if wh == 0:
            return max(off, 0), 0
        try:
            if wh == 1:
                base = lf.tell()
            else:
                lf.flush()
                base = os.fstat(lf.fileno()).st_size
        except (OSError, ValueError):
            return off, wh
        if base + off < 0:
            off = -base
        return off, wh

    def _readlines(self, hint):
        rf, lf = self.rf, self.lf
        rr = _call(rf.readlines) if hint is None else _call(rf.readlines, hint)
        if hint is None or hint <= 0 or isinstance(rr, _Raised):
            lr = _call(lf.readlines) if hint is None else _call(lf.readlines, hint)
            return rr, lr
        # positive hint: accept either stopping rule, then re-position the twin
        start = _call(lf.tell)
        if isinstance(start, _Raised):
            return rr, _call(lf.readlines, hint)
        allr = _call(lf.readlines)
        if isinstance(allr, _Raised):
            return rr, allr
        cands = []
        for strict in (False, True):
            acc, tot = [], 0
            for ln in allr:
                acc.append(ln)
                tot += len(ln)
                if (tot > hint) if strict else (tot >= hint):
                    break
            cands.append(acc)
        got = _to_bytes(rr)
        pick = cands[0]
        for c in cands:
            if c == got:
                pick = c
        lf.seek(start + sum(len(x) for x in pick))
        return rr, pick

    def cleanup(self):
        for f in (self.rf, self.lf):
            if f is not None:
                _call(f.close)
        self.rf = self.lf = None
        env = self.r.env
        broken = False
        if env is not None:
            if env.threads_alive() == [] or any(k == "server-thread-exception" for _, k, _ in env.server_log):
                broken = True
            del env.server_log[:]
        if broken or self.fail is not None:
            self.r.reset()
        for p in (self.rpath, self.lpath):
            try:
                os.remove(p)
            except FileNotFoundError:
                pass


def _payload_len(op):
    if op[0] == "writelines":
        return sum(len(x) for x in op[1])
    return len(op[1])


def _short_args(op):
    return "(" + ",".join(_short(a) for a in op[1:]) + ")"


def _first_diff(a, b):
    if a is None or b is None:
        return ""
    n = min(len(a), len(b))
    for i in range(n):
        if a[i] != b[i]:
            return " (first difference at offset %d)" % i
    return " (common prefix %d, lengths %d/%d)" % (n, len(a), len(b))


# --------------------------------------------------------------------------- entry points


def run(ctx):
    ctx.set_budget(70, 1200)
    excl = active_exclusions()
    ctx.note("exclusions_active", sorted(excl))
    ctx.assume("twin of an append-mode file is opened unbuffered (OS append semantics, as paramiko documents)")
    ctx.assume("files opened without 'b' only see ASCII data (paramiko decodes readline results as UTF-8)")
    ctx.assume("readlines(hint>0): both CPython stopping rules (total >= hint, total > hint) are accepted")
    ctx.assume("seeks to a negative resulting position are clamped to 0")
    runner = Runner(ctx, attribute=excl)

    def body(raw):
        runner.execute(sanitise(raw, excl, ctx))

    try:
        ctx.explore(case_st(), body, ctx.scale(1000, 8000))
    finally:
        runner.close()


def replay(ctx, case):
    case = dict(case)
    case["ops"] = [list(o) for o in case["ops"]]
    runner = Runner(ctx)
    try:
        runner.execute(case)
    finally:
        runner.close()
