"""C44 - an auth strategy tries sources in order and reports every failure.

Domain: an AuthStrategy subclass whose get_sources() is a generator over 0-8 scripted
sources; each source either returns a generated value ([] / list of method names / other
plain values: "succeeds" = authenticate() returns) or raises a generated exception
(AuthenticationException, BadAuthenticationType, PartialAuthentication, SSHException,
ValueError, OSError, EOFError, socket.timeout, KeyError, a custom Exception subclass).
Both the pulls from the generator and the authenticate() calls are logged.
What get_sources() produces are ATTEMPTS, not necessarily distinct objects: an attempt may be a fresh source
object, the SAME object as an earlier attempt (a strategy that retries a source: each attempt has its own scripted
outcome), a distinct object that compares EQUAL to another one (sources with value __eq__/__hash__, e.g. same
user name), or an unhashable object (value __eq__ without __hash__).

Oracle (k = index of the first succeeding source, or None):
  (a) authenticate(transport) calls source.authenticate(transport) for sources 0..k (all
      when k is None) in order, each exactly once, with the transport it was given;
  (b) sources after k are never pulled from the generator, let alone called;
  (c) k is not None: the return value is an AuthResult (list) of SourceResult(source, result)
      for ATTEMPTS 0..k in order (one entry per attempt, also when one object is attempted several times or
      several attempted objects compare equal), `source` being the very source object and `result` the very
      exception instance raised / the very value returned by that attempt; result.strategy is the strategy;
  (d) k is None (including the empty list): AuthFailure is raised, and its .result is such an
      AuthResult covering every source with the exception instance each one raised.
"""
from hypothesis import strategies as st

PROPERTY = "C44"
LEVEL = "exploration"
RULE = (
    "hypothesis-generated scripts of 0-8 auth sources, each returning a generated value or raising one of 10 exception types, "
    "fed through a generator-based get_sources with call/pull logging; an attempt is a fresh object, the same object as an earlier "
    "attempt (own outcome per attempt), an equal-but-distinct object (value __eq__/__hash__) or an unhashable one; non-trivial = >= 2 sources of which at least one fails "
    "before the outcome is decided (first success preceded by a failure, or >= 2 failures and no success) ; distinct by SHA-1 of the script"
)

EXC_NAMES = ["AuthenticationException", "BadAuthenticationType", "PartialAuthentication", "SSHException", "ValueError", "OSError", "EOFError", "timeout", "KeyError", "Custom"]

ok_value = st.one_of(
    st.just([]),
    st.lists(st.sampled_from(["publickey", "password", "keyboard-interactive", "gssapi-with-mic"]), max_size=3),
    st.none(),
    st.just(0),
    st.just(""),
    st.just(False),
    st.text(max_size=5),
)
source_spec = st.one_of(
    st.tuples(st.just("ok"), ok_value),
    st.tuples(st.just("raise"), st.sampled_from(EXC_NAMES), st.text(max_size=8)),
    st.tuples(st.just("raise"), st.sampled_from(EXC_NAMES), st.just("")),
)
# which object an attempt uses: None = a fresh plain source; "same:n" = shared object n of this call (attempted again);
# "equal:n" = a fresh object with value equality (all "equal:n" of one n compare and hash equal); "unhash:n" = ditto, unhashable
_obj = st.sampled_from([None] * 7 + ["same:0", "same:0", "same:1", "same:2", "equal:0", "equal:0", "equal:1", "unhash:0"])
attempt = st.builds(lambda spec, obj: tuple(spec) + (obj,), source_spec, _obj)
case_st = st.lists(attempt, max_size=8)


def _split(att):
    """attempt -> (spec, obj); attempts saved before the object dimension existed have no obj element."""
    n = 2 if att[0] == "ok" else 3
    return tuple(att[:n]), (att[n] if len(att) > n else None)


class _Custom(Exception):
    pass


def _make_exc(name, msg):
    import socket

    from paramiko import ssh_exception as se

    if name == "AuthenticationException":
        return se.AuthenticationException(msg)
    if name == "BadAuthenticationType":
        return se.BadAuthenticationType(msg, ["publickey"])
    if name == "PartialAuthentication":
        return se.PartialAuthentication(["password"])
    if name == "SSHException":
        return se.SSHException(msg)
    if name == "ValueError":
        return ValueError(msg)
    if name == "OSError":
        return OSError(5, msg)
    if name == "EOFError":
        return EOFError(msg)
    if name == "timeout":
        return socket.timeout(msg)
    if name == "KeyError":
        return KeyError(msg)
    if name == "Custom":
        return _Custom(msg)
    raise AssertionError(name)


def execute(ctx, scripts):
    """scripts: 1-3 source scripts; every one is a separate authenticate() call on the SAME strategy
    object (history: the outcome of a call must not depend on earlier calls)."""
    holder = {}
    scripts = [[tuple(s) for s in sc] for sc in scripts]
    jcase = {"scripts": scripts}
    for n, script in enumerate(scripts):
        if not _one_call(ctx, holder, script, jcase, n, len(scripts)):
            return


def _one_call(ctx, holder, script, jcase, call_no, ncalls):
    from paramiko.auth_strategy import AuthFailure, AuthResult, AuthSource, AuthStrategy

    objs = [_split(a)[1] for a in script]
    script = [_split(a)[0] for a in script]
    k = None
    for i, s in enumerate(script):
        if s[0] == "ok":
            k = i
            break
    nfail_before = k if k is not None else len(script)
    nontrivial = len(script) >= 2 and ((k is not None and k >= 1) or (k is None and nfail_before >= 2))
    classes = ["len:%d" % len(script), "all-fail" if k is None else "success@%d" % k]
    if k is not None and k < len(script) - 1:
        classes.append("sources-after-success")
    upto_ = k if k is not None else len(script) - 1
    tried = objs[: upto_ + 1]
    for o in set(x for x in tried if x and x.startswith("same")):
        idx = [i for i, x in enumerate(tried) if x == o]
        if len(idx) >= 2:
            classes.append("same-object-attempted-again")
            if sum(1 for i in idx if script[i][0] == "raise") >= 2:
                classes.append("same-object-fails-more-than-once")
                nontrivial = True
    for kind, label in (("equal", "equal-but-distinct-sources-attempted"), ("unhash", "unhashable-source-attempted")):
        for o in set(x for x in tried if x and x.startswith(kind)):
            if kind == "unhash" or tried.count(o) >= 2:
                classes.append(label)
    classes = sorted(set(classes))
    if call_no == 0:
        if ncalls > 1:
            nontrivial = True
            classes.append("history:%d-calls-on-one-strategy" % ncalls)
        ctx.case(jcase, nontrivial, classes)
    jcase = dict(jcase, failing_call=call_no)

    log = []
    transport = object()

    outcomes = {}

    class Src(AuthSource):
        """One source object; it may stand for several attempts, each with its own scripted outcome."""

        def __init__(self, name):
            AuthSource.__init__(self, username=name)
            self.queue = []  # [(attempt index, spec)] in the order this object is produced
            self.n = 0

        def __repr__(self):
            return "Src(%s)" % self.username

        def authenticate(self, tr):
            idx, spec = self.queue[min(self.n, len(self.queue) - 1)]
            self.n += 1
            log.append(("call", idx, tr is transport))
            if spec[0] == "ok":
                outcomes[idx] = spec[1]
                return spec[1]
            outcomes[idx] = _make_exc(spec[1], spec[2])
            raise outcomes[idx]

    class EqSrc(Src):
        def __eq__(self, other):
            return isinstance(other, Src) and other.username == self.username

        def __hash__(self):
            return hash(self.username)

    class UnhashableSrc(Src):
        def __eq__(self, other):
            return isinstance(other, Src) and other.username == self.username

        # (defining __eq__ without __hash__ makes instances unhashable)

    shared = {}
    sources = []
    for i, (spec, obj) in enumerate(zip(script, objs)):
        if obj is None:
            src = Src("u%d" % i)
        elif obj.startswith("same"):
            src = shared.get(obj) or shared.setdefault(obj, Src(obj))
        elif obj.startswith("equal"):
            src = EqSrc(obj)
        else:
            src = UnhashableSrc(obj)
        src.queue.append((i, spec))
        sources.append(src)

    class Strat(AuthStrategy):
        def get_sources(self):
            for i, s in enumerate(holder["sources"]):
                holder["log"].append(("pull", i))
                yield s

    if "strat" not in holder:
        holder["strat"] = Strat(ssh_config=None)
    holder["sources"] = sources
    holder["log"] = log
    strat = holder["strat"]
    raised = None
    ret = None
    try:
        ret = strat.authenticate(transport)
    except AuthFailure as e:
        raised = e
    except Exception as e:
        ctx.violation("authenticate-raises", "%s:%s" % (type(e).__name__, "all-fail" if k is None else "with-success"), jcase, repr(e))
        return False

    upto = k if k is not None else len(script) - 1
    want_calls = [("call", i, True) for i in range(upto + 1)]
    got_calls = [x for x in log if x[0] == "call"]
    pulls = [x[1] for x in log if x[0] == "pull"]
    if got_calls != want_calls:
        if len(got_calls) > len(want_calls) and got_calls[: len(want_calls)] == want_calls:
            bucket = "sources-called-after-success"
        elif [c[:2] for c in got_calls] == [c[:2] for c in want_calls]:
            bucket = "wrong-transport"
        else:
            bucket = "order-or-count"
        ctx.violation("call-order", bucket, jcase, "calls %r expected %r" % (got_calls, want_calls))
        return False
    if pulls != list(range(upto + 1)):
        ctx.violation("call-order", "pulled-after-success" if len(pulls) > upto + 1 else "pull-order", jcase, "pulled %r expected %r" % (pulls, list(range(upto + 1))))
        return False
    # interleaving: pull i directly before call i
    want_log = []
    for i in range(upto + 1):
        want_log += [("pull", i), ("call", i, True)]
    if log != want_log:
        ctx.violation("call-order", "interleaving", jcase, "log %r" % (log,))
        return False

    if k is None:
        if raised is None:
            ctx.violation("outcome", "no-AuthFailure-when-all-fail:%s" % ("empty" if not script else "nonempty"), jcase, "returned %r" % (ret,))
            return False
        result = getattr(raised, "result", None)
    else:
        if raised is not None:
            ctx.violation("outcome", "AuthFailure-despite-success", jcase, "raised %r" % (raised,))
            return False
        result = ret

    if not isinstance(result, AuthResult) or not isinstance(result, list):
        ctx.violation("result-shape", "not-an-AuthResult", jcase, "result %r" % (result,))
        return False
    if getattr(result, "strategy", None) is not strat:
        ctx.violation("result-shape", "strategy-attribute", jcase, "result.strategy %r" % (getattr(result, "strategy", None),))
        return False
    if len(result) != upto + 1:
        ctx.violation("result-content", "length:%s" % ("short" if len(result) < upto + 1 else "long"), jcase, "result %r for %d attempted sources" % (list(result), upto + 1))
        return False
    for i, item in enumerate(result):
        try:
            src, res = item.source, item.result
        except AttributeError:
            ctx.violation("result-shape", "not-a-SourceResult", jcase, "item %r" % (item,))
            return False
        if src is not sources[i]:
            ctx.violation("result-content", "source-identity-or-order", jcase, "item %d source %r expected %r" % (i, src, sources[i]))
            return False
        if res is not outcomes[i]:
            kind = "exception" if script[i][0] == "raise" else "return-value"
            ctx.violation("result-content", "outcome-identity:%s" % kind, jcase, "item %d result %r expected %r" % (i, res, outcomes[i]))
            return False
    return True


def run(ctx):
    ctx.set_budget(60, 840)
    ctx.explore(st.lists(case_st, min_size=1, max_size=3), lambda c: execute(ctx, c), ctx.scale(4500, 100000))


def replay(ctx, case):
    execute(ctx, case["scripts"] if "scripts" in case else [case["script"]])
