"""C44 - an auth strategy tries sources in order and reports every failure.

Domain: an AuthStrategy subclass whose get_sources() is a generator over 0-8 scripted
sources; each source either returns a generated value ([] / list of method names / other
plain values: "succeeds" = authenticate() returns) or raises a generated exception
(AuthenticationException, BadAuthenticationType, PartialAuthentication, SSHException,
ValueError, OSError, EOFError, socket.timeout, KeyError, RuntimeError, IndexError, a custom Exception subclass).
HOW the exception was constructed is a dimension of its own: with one message string (possibly empty), or with a generated
argument TUPLE of 0-3 values (str / int / None / bytes / nested list) - EOFError(), AuthenticationException(), RuntimeError(),
OSError(), SSHException(5, None) ...: `e.args` may be empty or hold non-strings, str(e) may be ''.  Whatever a source raises,
authenticate() records that very instance and goes on; it never lets another exception type escape.
Both the pulls from the generator and the authenticate() calls are logged.
What get_sources() produces are ATTEMPTS, not necessarily distinct objects: an attempt may be a fresh source
object, the SAME object as an earlier attempt (a strategy that retries a source: each attempt has its own scripted
outcome), a distinct object that compares EQUAL to another one (sources with value __eq__/__hash__, e.g. same
user name), or an unhashable object (value __eq__ without __hash__).
Source CLASS is a dimension of its own: besides the harness' own AuthSource subclass, attempts are instances of the stock
source classes of paramiko.auth_strategy - NoneAuth, Password (outcome produced by the transport, or the password getter
itself raises), InMemoryPrivateKey, OnDiskPrivateKey, user subclasses of Password / InMemoryPrivateKey, and one Password /
InMemoryPrivateKey object that is produced several times - freely mixed with each other and with custom sources.  Their
outcomes are scripted through a fake transport (auth_none / auth_password / auth_publickey keyed by the unique user name
of each source object), so the same oracle applies to them.

Oracle (k = index of the first succeeding source, or None):
  (a) authenticate(transport) calls source.authenticate(transport) for sources 0..k (all
      when k is None) in order, each exactly once, with the transport it was given;
  (b) sources after k are never pulled from the generator, let alone called;
  (c) k is not None: the return value is an AuthResult (list) of SourceResult(source, result)
      for ATTEMPTS 0..k in order (one entry per attempt, also when one object is attempted several times or
      several attempted objects compare equal), `source` being the very source object and `result` the very
      exception instance raised / the very value returned by that attempt; result.strategy is the strategy;
  (d) k is None (including the empty list): AuthFailure is raised, and its .result is such an
      AuthResult covering every source with the exception instance each one raised.
"""
from hypothesis import strategies as st

PROPERTY = "C44"
LEVEL = "exploration"
RULE = (
    "hypothesis-generated scripts of 0-8 auth sources, each returning a generated value or raising one of 12 exception types "
    "constructed with one message string or with a generated argument tuple of 0-3 str/int/None/bytes/list values (argument-less "
    "exceptions, non-string args; classes exc-args:*), "
    "fed through a generator-based get_sources with call/pull logging; an attempt is a fresh object, the same object as an earlier "
    "attempt (own outcome per attempt), an equal-but-distinct object (value __eq__/__hash__) or an unhashable one, or an instance of a stock "
    "paramiko.auth_strategy class (NoneAuth, Password [transport or getter raises], InMemoryPrivateKey, OnDiskPrivateKey, subclasses, one stock object "
    "produced several times) driven through a scripted fake transport, all kinds mixed in one list; non-trivial = >= 2 sources of which at least one fails "
    "before the outcome is decided (first success preceded by a failure, or >= 2 failures and no success) ; distinct by SHA-1 of the script"
)

EXC_NAMES = ["AuthenticationException", "BadAuthenticationType", "PartialAuthentication", "SSHException", "ValueError", "OSError", "EOFError", "timeout", "KeyError", "Custom", "RuntimeError", "IndexError"]

ok_value = st.one_of(
    st.just([]),
    st.lists(st.sampled_from(["publickey", "password", "keyboard-interactive", "gssapi-with-mic"]), max_size=3),
    st.none(),
    st.just(0),
    st.just(""),
    st.just(False),
    st.text(max_size=5),
)
# constructor arguments of a raised exception: a str = exactly that one message argument; a list = the argument tuple
exc_arg = st.one_of(
    st.text(max_size=8), st.integers(-3, 300), st.none(), st.binary(max_size=4), st.just("Authentication failed."), st.just(""),
    st.lists(st.one_of(st.text(max_size=3), st.integers(0, 9)), max_size=2),
)
exc_args = st.lists(exc_arg, max_size=3)
source_spec = st.one_of(
    st.tuples(st.just("ok"), ok_value),
    st.tuples(st.just("raise"), st.sampled_from(EXC_NAMES), st.text(max_size=8)),
    st.tuples(st.just("raise"), st.sampled_from(EXC_NAMES), st.just("")),
    st.tuples(st.just("raise"), st.sampled_from(EXC_NAMES), exc_args),
    st.tuples(st.just("raise"), st.sampled_from(EXC_NAMES), st.just([])),
)
# which object an attempt uses: None = a fresh plain source; "same:n" = shared object n of this call (attempted again);
# "equal:n" = a fresh object with value equality (all "equal:n" of one n compare and hash equal); "unhash:n" = ditto, unhashable
# stock classes of paramiko.auth_strategy: "<Class>" = a fresh instance; ":sub" = instance of a user subclass; ":getter" = the
# Password's password_getter produces the scripted exception (a scripted success still comes from the transport);
# ":same0" = one shared instance of the class that get_sources() produces again
STOCK = [
    "NoneAuth", "NoneAuth", "Password", "Password", "Password", "Password:getter", "Password:sub", "Password:same0",
    "InMemoryPrivateKey", "InMemoryPrivateKey", "InMemoryPrivateKey:sub", "InMemoryPrivateKey:same0", "OnDiskPrivateKey", "OnDiskPrivateKey",
]
_obj = st.sampled_from([None] * 7 + ["same:0", "same:0", "same:1", "same:2", "equal:0", "equal:0", "equal:1", "unhash:0"] + STOCK)
attempt = st.builds(lambda spec, obj: tuple(spec) + (obj,), source_spec, _obj)
case_st = st.lists(attempt, max_size=8)


def _split(att):
    """attempt -> (spec, obj); attempts saved before the object dimension existed have no obj element."""
    n = 2 if att[0] == "ok" else 3
    return tuple(att[:n]), (att[n] if len(att) > n else None)


class _Custom(Exception):
    pass


_PKEY = []


def _pkey():
    """A real PKey for the stock private-key sources (only carried along and repr()ed; a plain object if it cannot be loaded)."""
    if not _PKEY:
        try:
            import os

            from paramiko import Ed25519Key

            from vlib import core

            _PKEY.append(Ed25519Key.from_private_key_file(os.path.join(core.VERIF, "keys", "ed25519.key")))
        except Exception:
            _PKEY.append(object())
    return _PKEY[0]


_PLAIN = {"ValueError": ValueError, "OSError": OSError, "EOFError": EOFError, "KeyError": KeyError, "RuntimeError": RuntimeError, "IndexError": IndexError}


def _nargs(msg):
    """number of constructor arguments of a scripted exception (a str stands for one message argument)"""
    return len(msg) if isinstance(msg, (list, tuple)) else 1


def _make_exc(name, msg):
    import socket

    from paramiko import ssh_exception as se

    if isinstance(msg, (list, tuple)):
        # an argument tuple: the class is called with exactly these arguments (none at all for an empty tuple)
        args = tuple(msg)
        if name == "BadAuthenticationType":  # its constructor demands (explanation, types)
            return se.BadAuthenticationType(args[0] if args else "", list(args[1:]) or ["publickey"])
        if name == "PartialAuthentication":  # its constructor demands (types)
            return se.PartialAuthentication([a for a in args if isinstance(a, str)] or ["password"])
        cls = _PLAIN.get(name) or {"AuthenticationException": se.AuthenticationException, "SSHException": se.SSHException, "timeout": socket.timeout, "Custom": _Custom}[name]
        return cls(*args)
    if name in ("RuntimeError", "IndexError"):
        return _PLAIN[name](msg)
    if name == "AuthenticationException":
        return se.AuthenticationException(msg)
    if name == "BadAuthenticationType":
        return se.BadAuthenticationType(msg, ["publickey"])
    if name == "PartialAuthentication":
        return se.PartialAuthentication(["password"])
    if name == "SSHException":
        return se.SSHException(msg)
    if name == "ValueError":
        return ValueError(msg)
    if name == "OSError":
        return OSError(5, msg)
    if name == "EOFError":
        return EOFError(msg)
    if name == "timeout":
        return socket.timeout(msg)
    if name == "KeyError":
        return KeyError(msg)
    if name == "Custom":
        return _Custom(msg)
    raise AssertionError(name)


def execute(ctx, scripts):
    """scripts: 1-3 source scripts; every one is a separate authenticate() call on the SAME strategy
    object (history: the outcome of a call must not depend on earlier calls)."""
    holder = {}
    scripts = [[tuple(s) for s in sc] for sc in scripts]
    jcase = {"scripts": scripts}
    for n, script in enumerate(scripts):
        if not _one_call(ctx, holder, script, jcase, n, len(scripts)):
            return


def _one_call(ctx, holder, script, jcase, call_no, ncalls):
    from paramiko.auth_strategy import AuthFailure, AuthResult, AuthSource, AuthStrategy

    objs = [_split(a)[1] for a in script]
    script = [_split(a)[0] for a in script]
    k = None
    for i, s in enumerate(script):
        if s[0] == "ok":
            k = i
            break
    nfail_before = k if k is not None else len(script)
    nontrivial = len(script) >= 2 and ((k is not None and k >= 1) or (k is None and nfail_before >= 2))
    classes = ["len:%d" % len(script), "all-fail" if k is None else "success@%d" % k]
    if k is not None and k < len(script) - 1:
        classes.append("sources-after-success")
    upto_ = k if k is not None else len(script) - 1
    tried = objs[: upto_ + 1]
    for o in set(x for x in tried if x and x.startswith("same")):
        idx = [i for i, x in enumerate(tried) if x == o]
        if len(idx) >= 2:
            classes.append("same-object-attempted-again")
            if sum(1 for i in idx if script[i][0] == "raise") >= 2:
                classes.append("same-object-fails-more-than-once")
                nontrivial = True
    for kind, label in (("equal", "equal-but-distinct-sources-attempted"), ("unhash", "unhashable-source-attempted")):
        for o in set(x for x in tried if x and x.startswith(kind)):
            if kind == "unhash" or tried.count(o) >= 2:
                classes.append(label)
    kinds = set()
    for i, o in enumerate(tried):
        base = o.split(":")[0] if o else None
        if base not in ("NoneAuth", "Password", "InMemoryPrivateKey", "OnDiskPrivateKey"):
            kinds.add("custom")
            continue
        kinds.add(base)
        classes.append("stock-source:" + base)
        if o.endswith(":sub"):
            classes.append("stock-source:user-subclass")
        if o.endswith(":same0") and tried.count(o) >= 2:
            classes.append("stock-source:same-object-attempted-again")
        if o.endswith(":getter") and script[i][0] == "raise":
            classes.append("stock-source:password-getter-raises")
    if len(kinds) >= 2:
        classes.append("source-classes-mixed:%d" % len(kinds))
    for i in range(upto_ + 1):
        if script[i][0] == "raise":
            na = _nargs(script[i][2])
            classes.append("exc-args:%s" % ("none" if na == 0 else ("one" if na == 1 else "several")))
            if isinstance(script[i][2], (list, tuple)) and any(not isinstance(a, str) for a in script[i][2]):
                classes.append("exc-args:non-string-argument")
    classes = sorted(set(classes))
    if call_no == 0:
        if ncalls > 1:
            nontrivial = True
            classes.append("history:%d-calls-on-one-strategy" % ncalls)
        ctx.case(jcase, nontrivial, classes)
    jcase = dict(jcase, failing_call=call_no)

    from paramiko import auth_strategy as AS

    log = []
    outcomes = {}
    # every source OBJECT has a record {"queue": [(attempt index, spec, raise-in-getter)], "n": calls so far}; the harness' own
    # sources carry theirs, stock sources are found by their (unique) user name when they call the transport
    recs = {}

    def deliver(rec, on_transport, getter=False):
        """Produce the next scripted outcome of one source object.  getter=True: called from a Password's
        password_getter - only an outcome scripted to be raised there is consumed, otherwise a password is handed out."""
        if rec is None or not rec["queue"]:
            # a user name no produced stock source has: a call that matches no attempt (-> call-order violation)
            log.append(("call", "unknown-user", on_transport))
            return []
        idx, spec, in_getter = rec["queue"][min(rec["n"], len(rec["queue"]) - 1)]
        if getter and not (in_getter and spec[0] == "raise"):
            return "pw-%d" % idx
        rec["n"] += 1
        log.append(("call", idx, on_transport))
        if spec[0] == "ok":
            outcomes[idx] = spec[1]
            return spec[1]
        outcomes[idx] = _make_exc(spec[1], spec[2])
        raise outcomes[idx]

    class FakeTransport:
        """What the stock source classes talk to; the harness' own sources just compare its identity."""

        def auth_none(self, username):
            return deliver(recs.get(username), self is transport)

        def auth_password(self, username, password, *a, **kw):
            return deliver(recs.get(username), self is transport)

        def auth_publickey(self, username, key, *a, **kw):
            return deliver(recs.get(username), self is transport)

    transport = FakeTransport()

    class Src(AuthSource):
        """One source object; it may stand for several attempts, each with its own scripted outcome."""

        def __init__(self, name):
            AuthSource.__init__(self, username=name)
            self.rec = {"queue": [], "n": 0}

        def __repr__(self):
            return "Src(%s)" % self.username

        def authenticate(self, tr):
            return deliver(self.rec, tr is transport)

    class EqSrc(Src):
        def __eq__(self, other):
            return isinstance(other, Src) and other.username == self.username

        def __hash__(self):
            return hash(self.username)

    class UnhashableSrc(Src):
        def __eq__(self, other):
            return isinstance(other, Src) and other.username == self.username

        # (defining __eq__ without __hash__ makes instances unhashable)

    class MyPassword(AS.Password):
        pass

    class MyKey(AS.InMemoryPrivateKey):
        pass

    def stock(obj, name):
        base, _, mod = obj.partition(":")
        if base == "NoneAuth":
            return AS.NoneAuth(name)
        if base == "Password":
            return (MyPassword if mod == "sub" else AS.Password)(name, lambda: deliver(recs.get(name), True, getter=True))
        if base == "InMemoryPrivateKey":
            return (MyKey if mod == "sub" else AS.InMemoryPrivateKey)(name, _pkey())
        return AS.OnDiskPrivateKey(name, ("ssh-config", "python-config", "implicit-home")[len(name) % 3], "/nonexistent/%s" % name, _pkey())

    shared = {}
    sources = []
    for i, (spec, obj) in enumerate(zip(script, objs)):
        if obj is None:
            src = Src("u%d" % i)
        elif obj.startswith("same"):
            src = shared.get(obj) or shared.setdefault(obj, Src(obj))
        elif obj.startswith("equal"):
            src = EqSrc(obj)
        elif obj.startswith("unhash"):
            src = UnhashableSrc(obj)
        else:
            name = obj if obj.endswith(":same0") else "u%d" % i
            src = shared.get(obj) if obj.endswith(":same0") else None
            if src is None:
                src = stock(obj, name)
                recs[name] = {"queue": [], "n": 0}
                if obj.endswith(":same0"):
                    shared[obj] = src
        rec = src.rec if isinstance(src, Src) else recs[src.username]
        rec["queue"].append((i, spec, obj is not None and obj.endswith(":getter")))
        sources.append(src)

    class Strat(AuthStrategy):
        def get_sources(self):
            for i, s in enumerate(holder["sources"]):
                holder["log"].append(("pull", i))
                yield s

    if "strat" not in holder:
        holder["strat"] = Strat(ssh_config=None)
    holder["sources"] = sources
    holder["log"] = log
    strat = holder["strat"]
    raised = None
    ret = None
    try:
        ret = strat.authenticate(transport)
    except AuthFailure as e:
        raised = e
    except Exception as e:
        ctx.violation("authenticate-raises", "%s:%s" % (type(e).__name__, "all-fail" if k is None else "with-success"), jcase, repr(e))
        return False

    upto = k if k is not None else len(script) - 1
    want_calls = [("call", i, True) for i in range(upto + 1)]
    got_calls = [x for x in log if x[0] == "call"]
    pulls = [x[1] for x in log if x[0] == "pull"]
    if got_calls != want_calls:
        if len(got_calls) > len(want_calls) and got_calls[: len(want_calls)] == want_calls:
            bucket = "sources-called-after-success"
        elif [c[:2] for c in got_calls] == [c[:2] for c in want_calls]:
            bucket = "wrong-transport"
        else:
            bucket = "order-or-count"
        ctx.violation("call-order", bucket, jcase, "calls %r expected %r" % (got_calls, want_calls))
        return False
    if pulls != list(range(upto + 1)):
        ctx.violation("call-order", "pulled-after-success" if len(pulls) > upto + 1 else "pull-order", jcase, "pulled %r expected %r" % (pulls, list(range(upto + 1))))
        return False
    # interleaving: pull i directly before call i
    want_log = []
    for i in range(upto + 1):
        want_log += [("pull", i), ("call", i, True)]
    if log != want_log:
        ctx.violation("call-order", "interleaving", jcase, "log %r" % (log,))
        return False

    if k is None:
        if raised is None:
            ctx.violation("outcome", "no-AuthFailure-when-all-fail:%s" % ("empty" if not script else "nonempty"), jcase, "returned %r" % (ret,))
            return False
        result = getattr(raised, "result", None)
    else:
        if raised is not None:
            ctx.violation("outcome", "AuthFailure-despite-success", jcase, "raised %r" % (raised,))
            return False
        result = ret

    if not isinstance(result, AuthResult) or not isinstance(result, list):
        ctx.violation("result-shape", "not-an-AuthResult", jcase, "result %r" % (result,))
        return False
    if getattr(result, "strategy", None) is not strat:
        ctx.violation("result-shape", "strategy-attribute", jcase, "result.strategy %r" % (getattr(result, "strategy", None),))
        return False
    if len(result) != upto + 1:
        ctx.violation("result-content", "length:%s" % ("short" if len(result) < upto + 1 else "long"), jcase, "result %r for %d attempted sources" % (list(result), upto + 1))
        return False
    for i, item in enumerate(result):
        try:
            src, res = item.source, item.result
        except AttributeError:
            ctx.violation("result-shape", "not-a-SourceResult", jcase, "item %r" % (item,))
            return False
        if src is not sources[i]:
            ctx.violation("result-content", "source-identity-or-order", jcase, "item %d source %r expected %r" % (i, src, sources[i]))
            return False
        if res is not outcomes[i]:
            kind = "exception" if script[i][0] == "raise" else "return-value"
            ctx.violation("result-content", "outcome-identity:%s" % kind, jcase, "item %d result %r expected %r" % (i, res, outcomes[i]))
            return False
    return True


def run(ctx):
    ctx.set_budget(60, 840)
    ctx.explore(st.lists(case_st, min_size=1, max_size=3), lambda c: execute(ctx, c), ctx.scale(4500, 100000))


def replay(ctx, case):
    execute(ctx, case["scripts"] if "scripts" in case else [case["script"]])
