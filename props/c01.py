"""C01 - the encrypted packet layer delivers exactly the message stream that was sent.

Domain: generated duplex *sessions* on the E2 bench (vlib.pkt): a plaintext segment, then
1-4 rekey segments (each with its own K/H, kex hash, cipher/MAC/compression per direction)
and at most one authentication event (delayed zlib@openssh.com), with messages in both
directions in every segment (type byte 0..255, body 0..69 999 bytes, dense around block
boundaries); strict-kex flag; server EXT_INFO after NEWKEYS; generated recv() fragment sizes.
Keys are installed through Transport._set_K_H / _activate_outbound / _parse_newkeys; the two
directions of every key exchange get independently generated suites (RFC 4253 7.1), and every
paramiko receiver is keyed in both directions.

Socket behaviour: besides short reads, the scripted socket raises socket.timeout / EAGAIN
between fragments at generated positions (paramiko always runs its socket with a timeout), and
the receiving Packetizer gets generated lowered REKEY_PACKETS / REKEY_BYTES (public
``packetizer_class`` kwarg) so that a re-key becomes pending through the production counters
while the stream goes on; the reader reacts to NeedRekeyException like Transport.run (retry).

Send side: each paramiko sender gets a generated send script (vlib.pkt.ScriptSock ``sends``):
the socket accepts only part of what Packetizer.write_all offers and raises socket.timeout /
EAGAIN between the pieces; the bytes the socket accepted are the wire every receiver reads.
Long-lived senders: per framing class a session in which ONE keyed Packetizer sends 800-1600
tiny pairwise different messages (state carried across send_message calls: counters, pools,
cipher / compression contexts).  Concurrent senders: 2-3 real threads call send on one keyed
paramiko peer at the same time (what a transport-thread reply racing a streaming user thread
does), compression on in most cases; the receivers must deliver exactly the multiset of sent
messages with every thread's own messages in order.

Oracles: (pp) paramiko client <-> paramiko server: every receiver delivers exactly the sent
(type, body) list, consumes every byte, then hits EOF; (p2ref) the same wire bytes decode to
the same list with the independent vlib.refssh receiver; (ref2p) a stream produced by the
refssh sender (other legal padding lengths, partial/sync/full zlib flush) is decoded
correctly by paramiko receivers.  p2ref/ref2p make bugs that are symmetric in paramiko visible.
"""
from hypothesis import strategies as st

from vlib import core
from vlib import pkt
from vlib import pktx

PROPERTY = "C01"
LEVEL = "exploration"
THOROUGH_WORKERS = 16
RULE = (
    "hypothesis-generated duplex sessions: plain segment + 1-4 rekey segments (cipher x MAC x compression per "
    "direction, kex hash, K 1-8192 bit, H 20-64 bytes) + optional auth event, 0-N messages per segment and direction "
    "(body lengths dense at 0-99, 254-259, 32758-32776, 65529-69999, uniform to 69999), strict-kex, EXT_INFO, recv "
    "fragment lists; c2s and s2c suites of every key exchange are drawn independently (classes asymmetric-suites / "
    "asymmetric-style:<in>/<out> / asymmetric-mac-size), every paramiko receiver also activates its outbound keys; "
    "per receiver a generated timeout script (socket.timeout / EAGAIN raised between fragments: classes "
    "timeout-inside-packet, timeout-inside-first-block, timeout-between-length-and-body) and generated lowered "
    "REKEY_PACKETS (1-6) / REKEY_BYTES (1-4000) via packetizer_class, so that need_rekey() is pending while later "
    "packets are read (classes rekey-pending-while-reading, timeout-inside-packet+rekey-pending) and "
    "NeedRekeyException is answered by retrying like Transport.run; per paramiko SENDER a generated send script "
    "(socket accepts 1..N of the offered bytes, socket.timeout / EAGAIN between the pieces: classes send-partial, "
    "send-notready-after-partial, send-eagain-after-partial, send-notready-before-first-byte), the accepted bytes are "
    "the wire; long-lived senders (class long-lived-sender): for each of the 10 framing classes (+4 with zlib) one "
    "session whose measured direction carries 800-1600 tiny pairwise different messages on ONE keyed Packetizer "
    "(thorough 3000-6000), optional second key exchange in the middle; concurrent senders (class concurrent-senders, "
    "threads:N): 2-3 real threads send 150-400 messages each through one keyed paramiko peer at the same time with a "
    "generated interpreter switch interval, compression on in 3 of 4 cases, send script in half of the cases (classes "
    "concurrent-senders+send-partial / +send-notready); oracle = both the "
    "paramiko and the reference receiver deliver exactly the multiset of sent messages, each thread's messages in "
    "its own order (the interleaving itself is free); each session is run paramiko<->paramiko "
    "(+reference receivers on the same bytes) and reference "
    "senders->paramiko receivers; thorough shards the full cipher x MAC x compression product over the workers. "
    "non-trivial = >=2 messages and (a recv returned less than requested inside a packet, or a timeout fell inside a "
    "packet, or >=2 key switches, or compression active, or a payload longer than one cipher block); distinct by "
    "SHA-1 of the session"
)

FINDING_STALE = "stale-compressor-after-rekey"
FLUSH = {"partial": None, "sync": 2, "full": 3}  # zlib.Z_SYNC_FLUSH / Z_FULL_FLUSH


def stale_open():
    """True while the stale-compressor finding is listed as open (then such rekeys are
    excluded by construction; VERIF_INCLUDE_EXCLUDED=1 generates them anyway, e.g. to
    validate the fix on a scratch copy)."""
    import os

    if os.environ.get("VERIF_INCLUDE_EXCLUDED") == "1":
        return False
    known = core.load_known(PROPERTY)
    return any(k.endswith("|" + FINDING_STALE) and e.get("status") == "open" for k, e in known.items())


def sanitize(case):
    """Exclude the open stale-compressor finding by construction: a rekey that would have to
    stop a running compressor keeps the previous compression name instead.  Returns the
    number of rewritten transitions (stored in the case for the evidence counter)."""
    n = 0
    while True:
        tr = pkt.comp_off_transitions(case["segs"])
        if not tr:
            break
        si, d = tr[0]
        prev = None
        for seg in case["segs"][:si]:
            if seg["op"] == "rekey":
                prev = seg["keys"][d][2]
        case["segs"][si]["keys"][d][2] = prev
        n += 1
    return n


def case_strategy(tier_quick, first_c2s=None, exclude_stale=True):
    S = pkt.strategies()
    X = pktx.strategies()
    body_len = S.body_len_quick if tier_quick else S.body_len_full
    max_msgs = 8 if tier_quick else 50
    msgs = st.lists(S.msg(body_len), max_size=max_msgs)
    few = st.lists(S.msg(st.integers(0, 40)), max_size=2)

    def rekey_seg(c2s=None):
        return st.fixed_dictionaries({"op": st.just("rekey"), "keys": S.keys(c2s=c2s), "c2s": msgs, "s2c": msgs})

    auth_seg = st.fixed_dictionaries({"op": st.just("auth"), "c2s": msgs, "s2c": msgs})
    plain_seg = st.fixed_dictionaries({"op": st.just("plain"), "c2s": few, "s2c": few})

    @st.composite
    def segs(draw):
        out = [draw(plain_seg)]
        first = draw(rekey_seg(st.just(list(first_c2s)) if first_c2s else None))
        auth_at = draw(st.sampled_from([None, None, 0, 1, 2, 3]))
        n_more = draw(st.sampled_from([0, 0, 1, 1, 2, 3]))
        if auth_at == 0:
            out.append(draw(auth_seg))
        out.append(first)
        for i in range(n_more):
            if auth_at == i + 1:
                out.append(draw(auth_seg))
            out.append(draw(rekey_seg()))
        if auth_at is not None and auth_at > n_more:
            out.append(draw(auth_seg))
        return out

    base = st.fixed_dictionaries(
        {
            "strict": st.booleans(),
            "ext_info": st.sampled_from([False, False, False, True]),
            "frags_c": S.frags,
            "frags_s": S.frags,
            "timeouts_c": S.timeouts,
            "timeouts_s": S.timeouts,
            "rekey_packets_c": S.rekey_packets,
            "rekey_packets_s": S.rekey_packets,
            "rekey_bytes_c": S.rekey_bytes,
            "rekey_bytes_s": S.rekey_bytes,
            "sends_c": X.sends,
            "sends_s": X.sends,
            "pad_extra": st.lists(st.integers(0, 3), max_size=4),
            "flush": st.sampled_from(["partial", "partial", "sync", "full"]),
            "segs": segs(),
        }
    )

    def post(case):
        case = pkt.norm_case(case)
        case["excluded"] = sanitize(case) if exclude_stale else 0
        return case

    return base.map(post)


LONG_SUITES = [
    ("aes128-ctr", "hmac-sha2-256", "none"),
    ("aes256-ctr", "hmac-sha1-96", "none"),
    ("aes192-ctr", "hmac-sha2-512-etm@openssh.com", "none"),
    ("aes128-cbc", "hmac-sha1", "none"),
    ("aes256-cbc", "hmac-md5-96", "none"),
    ("aes192-cbc", "hmac-sha2-256-etm@openssh.com", "none"),
    ("3des-cbc", "hmac-md5", "none"),
    ("3des-cbc", "hmac-sha1-96", "none"),
    ("3des-cbc", "hmac-sha2-256-etm@openssh.com", "none"),
    ("aes128-gcm@openssh.com", "hmac-sha2-256", "none"),
    ("aes256-gcm@openssh.com", "hmac-sha2-512", "zlib"),
    ("aes256-cbc", "hmac-sha2-512", "zlib"),
    ("aes128-ctr", "hmac-sha2-256-etm@openssh.com", "zlib"),
    ("3des-cbc", "hmac-sha1", "zlib@openssh.com"),
]


def long_strategy(suite, lo, hi, exclude_stale=True):
    """A session whose measured direction (generated: c2s or s2c) runs ``suite`` and carries
    lo..hi tiny pairwise different messages on ONE keyed sender, optionally split by a second
    key exchange that keeps the suite.  No lowered re-key thresholds here (a peer that has
    asked for a re-key tolerates only 20 more packets)."""
    S = pkt.strategies()
    X = pktx.strategies()
    few = st.lists(S.msg(st.integers(0, 40)), max_size=2)

    @st.composite
    def build(draw):
        d = draw(st.sampled_from(["c2s", "s2c"]))
        su = list(suite)
        authed = su[2] == "zlib@openssh.com"
        segs = [{"op": "plain", "c2s": draw(few), "s2c": draw(few)}]
        if authed:
            segs.append({"op": "auth", "c2s": [], "s2c": []})
        n = draw(st.integers(lo, hi))
        parts = [n]
        if draw(st.booleans()):
            cut = draw(st.integers(1, n - 1))
            parts = [cut, n - cut]
        hs = set()
        for part in parts:
            keys = draw(S.keys(**{d: st.just(su)}).filter(lambda k: bytes(k["H"]) not in hs))
            hs.add(bytes(keys["H"]))
            seg = {"op": "rekey", "keys": keys, "c2s": draw(few), "s2c": draw(few), "bulk": {d: draw(X.bulk(part, part))}}
            segs.append(seg)
        return {
            "kind": "long",
            "strict": draw(st.booleans()),
            "ext_info": draw(st.sampled_from([False, False, True])),
            "frags_c": draw(S.frags),
            "frags_s": draw(S.frags),
            "timeouts_c": draw(S.timeouts),
            "timeouts_s": draw(S.timeouts),
            "sends_c": draw(X.sends),
            "sends_s": draw(X.sends),
            "pad_extra": draw(st.lists(st.integers(0, 3), max_size=4)),
            "flush": draw(st.sampled_from(["partial", "partial", "sync", "full"])),
            "segs": segs,
        }

    def post(case):
        case = pkt.norm_case(case)
        case["excluded"] = sanitize(case) if exclude_stale else 0
        return case

    return build().map(post)


def concurrent_strategy(lo, hi):
    """2-3 threads sending through one keyed paramiko peer; the sending direction is compressed
    in 3 of 4 cases (the compression context is the state that spans packets)."""
    S = pkt.strategies()
    X = pktx.strategies()
    comp = st.sampled_from(["zlib", "zlib", "zlib@openssh.com", "none"])
    suite = st.tuples(S.cipher, S.mac, comp).map(list)
    return st.fixed_dictionaries(
        {
            "kind": st.just("concurrent"),
            "role": st.sampled_from(["client", "server"]),
            "strict": st.booleans(),
            "keys": S.keys(c2s=suite, s2c=suite),
            "threads": st.lists(X.thread_plan(lo, hi), min_size=2, max_size=3),
            "switch": X.switch,
            "sends": st.one_of(st.just([]), st.just([]), X.sends_on),
            "frags": S.frags,
        }
    ).map(pkt.norm_case)


def execute_concurrent(ctx, case):
    """Key a paramiko sender + paramiko receiver + reference receiver, then let the threads
    send at the same time; both receivers read the wire the socket accepted."""
    role = case["role"]
    other = "server" if role == "client" else "client"
    dname = "c2s" if role == "client" else "s2c"
    keys = case["keys"]
    c, m, z = keys[dname]
    fc = pkt.framing_class(c, m) + ("+z" if z != "none" else "")
    sender = pkt.PPeer(role, case["strict"], sends=case.get("sends", ()))
    prx = pkt.PPeer(other, case["strict"], case.get("frags", ()))
    rrx = pkt.RPeer(other, case["strict"])
    segs = [{"op": "rekey", "keys": keys, "c2s": [], "s2c": []}]
    if "zlib@openssh.com" in (keys["c2s"][2], keys["s2c"][2]):
        segs.append({"op": "auth", "c2s": [], "s2c": []})
    link = (sender, [prx, rrx])
    bad = None
    plans = [pktx.thread_payloads(k, plan) for k, plan in enumerate(case["threads"])]
    try:
        try:
            pkt.run_session({"segs": segs}, link if dname == "c2s" else (None, []), link if dname == "s2c" else (None, []))
        except pkt.SessionFailed as e:
            bad = ("pp", "%s:%s" % (e.kind, e.where), e.detail)
        if bad is None:
            errors, hung = pktx.run_concurrent(sender, plans, case["switch"])
            if hung:
                bad = ("pp-concurrent", "send-hangs:" + fc, "a sender thread did not finish within %.0f s" % pktx.JOIN_TIMEOUT)
            for k, e in enumerate(errors):
                if e is not None and bad is None:
                    if isinstance(e, pkt.HarnessBug):
                        raise e
                    bad = ("pp-concurrent", "send-raises:%s:%s" % (pkt.exc_bucket(e), fc), "thread %d: %r" % (k, e))
        if bad is None:
            wire = b"".join(sender.drain())
            for r, clause in ((rrx, "p2ref-concurrent"), (prx, "pp-concurrent")):
                r.feed(wire)
                why = pktx.judge_concurrent(r, plans)
                if why:
                    bad = (clause, "%s:%s" % (why[0], fc), why[1])
                    break
    finally:
        stats = dict(sender.sock.send_stats)
        sender.close()
        prx.close()
    classes = ["concurrent-senders", "threads:%d" % len(plans), "framing:" + pkt.framing_class(c, m), "comp:" + z, "cipher:" + c, "mac:" + m]
    classes.append("switch-interval:%g" % case["switch"])
    if case["strict"]:
        classes.append("strict-kex")
    sc = pktx.send_classes(stats)
    classes += sc
    # the combination "several sender threads + a socket that takes partial writes / is not ready" as evidence
    if "send-partial" in sc:
        classes.append("concurrent-senders+send-partial")
    if "send-notready" in sc:
        classes.append("concurrent-senders+send-notready")
    ctx.case(case, len(plans) >= 2 and all(len(p) >= 2 for p in plans), sorted(classes))
    if bad:
        ctx.violation(bad[0], bad[1], case, bad[2])
    return bad is not None


def _signature(case, e):
    """clause = oracle; bucket = root cause."""
    for si, d in pkt.comp_off_transitions(case["segs"]):
        if e.dname == d and e.seg is not None and e.seg >= si and e.oracle in ("p2ref", "ref2p"):
            return e.oracle, FINDING_STALE
    return e.oracle, "%s:%s" % (e.kind, e.where)


TRIPLES_SEEN = set()


def _classes(case):
    out = set()
    triples = TRIPLES_SEEN
    rekeys = 0
    comp_on = False
    authed = False
    for seg in case["segs"]:
        if seg["op"] == "auth":
            authed = True
            out.add("auth-event")
        if seg["op"] != "rekey":
            continue
        rekeys += 1
        out.add("hash:" + seg["keys"]["hash"])
        out.update(pkt.asymmetry_classes(seg["keys"]))
        for d in ("c2s", "s2c"):
            c, m, z = seg["keys"][d]
            out.add("cipher:" + c)
            out.add("mac:" + m)
            out.add("comp:" + z)
            out.add("framing:" + pkt.framing_class(c, m))
            triples.add("%s|%s|%s" % (c, m, z))
            if z == "zlib" or z == "zlib@openssh.com":
                comp_on = True
    out.add("rekeys:%d" % rekeys)
    if case["strict"]:
        out.add("strict-kex")
    if case["ext_info"]:
        out.add("ext-info")
    if authed:
        out.add("authed")
    return out, rekeys, comp_on


def execute(ctx, case):
    if case.get("kind") == "concurrent":
        return execute_concurrent(ctx, case)
    compact = case
    case = pktx.expand_bulk(case)  # long-lived senders: "bulk" -> explicit messages (the compact form is what is recorded)
    strict = case["strict"]
    failure = None
    short_reads = 0
    messages = 0
    max_payload = 0
    sock_c = dict(timeouts=case.get("timeouts_c", ()), rekey_packets=case.get("rekey_packets_c"), rekey_bytes=case.get("rekey_bytes_c"))
    sock_s = dict(timeouts=case.get("timeouts_s", ()), rekey_packets=case.get("rekey_packets_s"), rekey_bytes=case.get("rekey_bytes_s"))
    pc = pkt.PPeer("client", strict, case["frags_c"], sends=case.get("sends_c", ()), **sock_c)
    ps = pkt.PPeer("server", strict, case["frags_s"], ext_info=case["ext_info"], sends=case.get("sends_s", ()), **sock_s)
    stats = {}
    send_stats = {}

    def collect(*peers):
        for p in peers:
            for k, v in p.stats.items():
                stats[k] = stats.get(k, 0) + v

    try:
        # session A: paramiko <-> paramiko, reference receivers listening on the same bytes
        rc = pkt.RPeer("client", strict)
        rs = pkt.RPeer("server", strict)
        try:
            res = pkt.run_session(case, (pc, [ps, rs]), (ps, [pc, rc]))
            short_reads += res.short_reads
            messages += res.messages
            max_payload = res.max_payload
        except pkt.SessionFailed as e:
            failure = e
        # session B: reference senders -> paramiko receivers
        if failure is None:
            auto = ps.auto_after_newkeys()
            flush = FLUSH[case["flush"]]
            pc2 = pkt.PPeer("client", strict, case["frags_s"], **sock_s)
            ps2 = pkt.PPeer("server", strict, case["frags_c"], **sock_c)
            rc2 = pkt.RPeer("client", strict, case["pad_extra"], flush)
            rs2 = pkt.RPeer("server", strict, case["pad_extra"], flush, auto=auto)
            try:
                res = pkt.run_session(case, (rc2, [ps2]), (rs2, [pc2]))
                short_reads += res.short_reads
                messages += res.messages
            except pkt.SessionFailed as e:
                failure = e
            finally:
                collect(pc2, ps2)
                pc2.close()
                ps2.close()
    finally:
        collect(pc, ps)
        for p in (pc, ps):
            for k, v in p.sock.send_stats.items():
                send_stats[k] = send_stats.get(k, 0) + v
        pc.close()
        ps.close()
    classes, rekeys, comp_on = _classes(case)
    classes.update(pktx.send_classes(send_stats))
    nbulk = pktx.bulk_count(compact)
    if nbulk:
        classes.add("long-lived-sender")
        classes.add("long-lived-sender:%s" % ("<1000" if nbulk < 1000 else ">=1000"))
    if short_reads:
        classes.add("short-read-inside-packet")
    for k in (
        "timeout-inside-packet",
        "timeout-inside-first-block",
        "timeout-between-length-and-body",
        "timeout-inside-packet+rekey-pending",
        "timeout-inside-first-block+rekey-pending",
    ):
        if stats.get(k):
            classes.add(k)
    if stats.get("msgs-read-with-rekey-pending"):
        classes.add("rekey-pending-while-reading")
    if stats.get("rekey-signals"):
        classes.add("need-rekey-exception-retried")
    if max_payload > 32768:
        classes.add("payload>32k")
    nmsgs = sum(len(seg["c2s"]) + len(seg["s2c"]) for seg in case["segs"])
    nontrivial = nmsgs >= 2 and (short_reads > 0 or stats.get("timeout-inside-packet", 0) > 0 or send_stats.get("partial", 0) > 0 or rekeys >= 2 or comp_on or max_payload > 17)
    ctx.case(compact, nontrivial, sorted(classes))
    if case.get("excluded"):
        ctx.exclude("p2ref|" + FINDING_STALE, case["excluded"])
    if failure is not None:
        clause, bucket = _signature(case, failure)
        ctx.violation(clause, bucket, compact, "%s: %s" % (failure.clause, failure.detail))


def run(ctx):
    pkt.check_offered()
    ctx.set_budget(70, 840)
    excl = stale_open()
    ctx.assume("receivers are fed complete packets; end of the scripted stream is EOF (b'' from recv)")
    ctx.assume("compression context is re-created at every key exchange (RFC 4253 6.2) in the reference")
    ctx.assume("scripted socket timeouts / EAGAIN are raised only while unread bytes are buffered (an empty scripted stream is EOF); a pending re-key is answered by reading on, as Transport.run does, until the session script performs the next key exchange")
    ctx.assume("concurrent senders: real threads, the interleaving is whatever the interpreter produces under the generated switch interval; the oracle does not depend on it")
    lo, hi = (800, 1600) if ctx.quick else (3000, 6000)
    for idx, suite in enumerate(LONG_SUITES):
        if idx % ctx.nworkers != ctx.worker or ctx.unknown or ctx.out_of_time():
            continue
        ctx.explore(long_strategy(suite, lo, hi, exclude_stale=excl), lambda c: execute(ctx, c), 1 + ctx.scale(1, 2), shrink=False, seed_offset=7000 + idx)
    if not ctx.unknown:
        # collect-then-continue engine: after the first unlisted violation the remaining draws are skipped
        ctx.explore(concurrent_strategy(150, 400), lambda c: None if ctx.unknown else execute_concurrent(ctx, c), ctx.scale(30, 60), shrink=False, seed_offset=7500)
    if ctx.quick:
        if not ctx.unknown:
            ctx.explore(case_strategy(True, exclude_stale=excl), lambda c: execute(ctx, c), ctx.scale(600, 0))
    else:
        triples = [(c, m, z) for c in pkt.CIPHERS for m in pkt.MACS for z in pkt.COMPRESSIONS]
        mine = [t for i, t in enumerate(triples) if i % ctx.nworkers == ctx.worker]
        # pass 1 guarantees >= 40 cases with every triple as the first c2s suite even if the wall-clock
        # budget is hit later; pass 2 spends the rest of the per-worker case count
        rest = max(0, ctx.scale(0, 5000) // max(1, len(mine)) - 40)
        stop = False
        for rnd, per in ((0, 40), (1, rest)):
            for t in mine:
                if stop or per <= 0 or ctx.out_of_time():
                    break
                before = ctx._last_fail
                ctx.explore(
                    case_strategy(False, first_c2s=t, exclude_stale=excl), lambda c: execute(ctx, c), per, seed_offset=1 + triples.index(t) + 1000 * rnd
                )
                if ctx._last_fail is not before and ctx.unknown:
                    stop = True  # an unlisted violation was found and shrunk; do not shrink it again for every triple
    if ctx.quick:  # (per-worker numbers would be summed by the merger; thorough has the class histogram)
        cls = ctx.classes
        ctx.note("min_cases_per_cipher", "%d" % min(cls.get("cipher:" + c, 0) for c in pkt.CIPHERS))
        ctx.note("min_cases_per_mac", "%d" % min(cls.get("mac:" + m, 0) for m in pkt.MACS))
        ctx.note("triples_covered", "%d of 216" % len(TRIPLES_SEEN))
    else:
        for t in sorted(TRIPLES_SEEN):
            ctx.count("triple:" + t, 0)  # presence only; the per-name histograms carry the counts


def replay(ctx, case):
    case = pkt.norm_case(case)
    if case.get("kind") == "concurrent":
        # real threads: the interleaving that showed the violation is not part of the case; re-run the same
        # senders up to 25 times (a correct tree passes all of them, the verdict never depends on the interleaving)
        for _ in range(25):
            if execute_concurrent(ctx, case):
                break
        return
    case.setdefault("excluded", 0)
    execute(ctx, case)
