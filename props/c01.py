"""C01 - the encrypted packet layer delivers exactly the message stream that was sent.

Domain: generated duplex *sessions* on the E2 bench (vlib.pkt): a plaintext segment, then
1-4 rekey segments (each with its own K/H, kex hash, cipher/MAC/compression per direction)
and at most one authentication event (delayed zlib@openssh.com), with messages in both
directions in every segment (type byte 0..255, body 0..69 999 bytes, dense around block
boundaries); strict-kex flag; server EXT_INFO after NEWKEYS; generated recv() fragment sizes.
Keys are installed through Transport._set_K_H / _activate_outbound / _parse_newkeys; the two
directions of every key exchange get independently generated suites (RFC 4253 7.1), and every
paramiko receiver is keyed in both directions.

Socket behaviour: besides short reads, the scripted socket raises socket.timeout / EAGAIN
between fragments at generated positions (paramiko always runs its socket with a timeout), and
the receiving Packetizer gets generated lowered REKEY_PACKETS / REKEY_BYTES (public
``packetizer_class`` kwarg) so that a re-key becomes pending through the production counters
while the stream goes on; the reader reacts to NeedRekeyException like Transport.run (retry).

Oracles: (pp) paramiko client <-> paramiko server: every receiver delivers exactly the sent
(type, body) list, consumes every byte, then hits EOF; (p2ref) the same wire bytes decode to
the same list with the independent vlib.refssh receiver; (ref2p) a stream produced by the
refssh sender (other legal padding lengths, partial/sync/full zlib flush) is decoded
correctly by paramiko receivers.  p2ref/ref2p make bugs that are symmetric in paramiko visible.
"""
from hypothesis import strategies as st

from vlib import core
from vlib import pkt

PROPERTY = "C01"
LEVEL = "exploration"
THOROUGH_WORKERS = 16
RULE = (
    "hypothesis-generated duplex sessions: plain segment + 1-4 rekey segments (cipher x MAC x compression per "
    "direction, kex hash, K 1-8192 bit, H 20-64 bytes) + optional auth event, 0-N messages per segment and direction "
    "(body lengths dense at 0-99, 254-259, 32758-32776, 65529-69999, uniform to 69999), strict-kex, EXT_INFO, recv "
    "fragment lists; c2s and s2c suites of every key exchange are drawn independently (classes asymmetric-suites / "
    "asymmetric-style:<in>/<out> / asymmetric-mac-size), every paramiko receiver also activates its outbound keys; "
    "per receiver a generated timeout script (socket.timeout / EAGAIN raised between fragments: classes "
    "timeout-inside-packet, timeout-inside-first-block, timeout-between-length-and-body) and generated lowered "
    "REKEY_PACKETS (1-6) / REKEY_BYTES (1-4000) via packetizer_class, so that need_rekey() is pending while later "
    "packets are read (classes rekey-pending-while-reading, timeout-inside-packet+rekey-pending) and "
    "NeedRekeyException is answered by retrying like Transport.run; each session is run paramiko<->paramiko "
    "(+reference receivers on the same bytes) and reference "
    "senders->paramiko receivers; thorough shards the full cipher x MAC x compression product over the workers. "
    "non-trivial = >=2 messages and (a recv returned less than requested inside a packet, or a timeout fell inside a "
    "packet, or >=2 key switches, or compression active, or a payload longer than one cipher block); distinct by "
    "SHA-1 of the session"
)

FINDING_STALE = "stale-compressor-after-rekey"
FLUSH = {"partial": None, "sync": 2, "full": 3}  # zlib.Z_SYNC_FLUSH / Z_FULL_FLUSH


def stale_open():
    """True while the stale-compressor finding is listed as open (then such rekeys are
    excluded by construction; VERIF_INCLUDE_EXCLUDED=1 generates them anyway, e.g. to
    validate the fix on a scratch copy)."""
    import os

    if os.environ.get("VERIF_INCLUDE_EXCLUDED") == "1":
        return False
    known = core.load_known(PROPERTY)
    return any(k.endswith("|" + FINDING_STALE) and e.get("status") == "open" for k, e in known.items())


def sanitize(case):
    """Exclude the open stale-compressor finding by construction: a rekey that would have to
    stop a running compressor keeps the previous compression name instead.  Returns the
    number of rewritten transitions (stored in the case for the evidence counter)."""
    n = 0
    while True:
        tr = pkt.comp_off_transitions(case["segs"])
        if not tr:
            break
        si, d = tr[0]
        prev = None
        for seg in case["segs"][:si]:
            if seg["op"] == "rekey":
                prev = seg["keys"][d][2]
        case["segs"][si]["keys"][d][2] = prev
        n += 1
    return n


def case_strategy(tier_quick, first_c2s=None, exclude_stale=True):
    S = pkt.strategies()
    body_len = S.body_len_quick if tier_quick else S.body_len_full
    max_msgs = 8 if tier_quick else 50
    msgs = st.lists(S.msg(body_len), max_size=max_msgs)
    few = st.lists(S.msg(st.integers(0, 40)), max_size=2)

    def rekey_seg(c2s=None):
        return st.fixed_dictionaries({"op": st.just("rekey"), "keys": S.keys(c2s=c2s), "c2s": msgs, "s2c": msgs})

    auth_seg = st.fixed_dictionaries({"op": st.just("auth"), "c2s": msgs, "s2c": msgs})
    plain_seg = st.fixed_dictionaries({"op": st.just("plain"), "c2s": few, "s2c": few})

    @st.composite
    def segs(draw):
        out = [draw(plain_seg)]
        first = draw(rekey_seg(st.just(list(first_c2s)) if first_c2s else None))
        auth_at = draw(st.sampled_from([None, None, 0, 1, 2, 3]))
        n_more = draw(st.sampled_from([0, 0, 1, 1, 2, 3]))
        if auth_at == 0:
            out.append(draw(auth_seg))
        out.append(first)
        for i in range(n_more):
            if auth_at == i + 1:
                out.append(draw(auth_seg))
            out.append(draw(rekey_seg()))
        if auth_at is not None and auth_at > n_more:
            out.append(draw(auth_seg))
        return out

    base = st.fixed_dictionaries(
        {
            "strict": st.booleans(),
            "ext_info": st.sampled_from([False, False, False, True]),
            "frags_c": S.frags,
            "frags_s": S.frags,
            "timeouts_c": S.timeouts,
            "timeouts_s": S.timeouts,
            "rekey_packets_c": S.rekey_packets,
            "rekey_packets_s": S.rekey_packets,
            "rekey_bytes_c": S.rekey_bytes,
            "rekey_bytes_s": S.rekey_bytes,
            "pad_extra": st.lists(st.integers(0, 3), max_size=4),
            "flush": st.sampled_from(["partial", "partial", "sync", "full"]),
            "segs": segs(),
        }
    )

    def post(case):
        case = pkt.norm_case(case)
        case["excluded"] = sanitize(case) if exclude_stale else 0
        return case

    return base.map(post)


def _signature(case, e):
    """clause = oracle; bucket = root cause."""
    for si, d in pkt.comp_off_transitions(case["segs"]):
        if e.dname == d and e.seg is not None and e.seg >= si and e.oracle in ("p2ref", "ref2p"):
            return e.oracle, FINDING_STALE
    return e.oracle, "%s:%s" % (e.kind, e.where)


TRIPLES_SEEN = set()


def _classes(case):
    out = set()
    triples = TRIPLES_SEEN
    rekeys = 0
    comp_on = False
    authed = False
    for seg in case["segs"]:
        if seg["op"] == "auth":
            authed = True
            out.add("auth-event")
        if seg["op"] != "rekey":
            continue
        rekeys += 1
        out.add("hash:" + seg["keys"]["hash"])
        out.update(pkt.asymmetry_classes(seg["keys"]))
        for d in ("c2s", "s2c"):
            c, m, z = seg["keys"][d]
            out.add("cipher:" + c)
            out.add("mac:" + m)
            out.add("comp:" + z)
            out.add("framing:" + pkt.framing_class(c, m))
            triples.add("%s|%s|%s" % (c, m, z))
            if z == "zlib" or z == "zlib@openssh.com":
                comp_on = True
    out.add("rekeys:%d" % rekeys)
    if case["strict"]:
        out.add("strict-kex")
    if case["ext_info"]:
        out.add("ext-info")
    if authed:
        out.add("authed")
    return out, rekeys, comp_on


def execute(ctx, case):
    strict = case["strict"]
    failure = None
    short_reads = 0
    messages = 0
    max_payload = 0
    sock_c = dict(timeouts=case.get("timeouts_c", ()), rekey_packets=case.get("rekey_packets_c"), rekey_bytes=case.get("rekey_bytes_c"))
    sock_s = dict(timeouts=case.get("timeouts_s", ()), rekey_packets=case.get("rekey_packets_s"), rekey_bytes=case.get("rekey_bytes_s"))
    pc = pkt.PPeer("client", strict, case["frags_c"], **sock_c)
    ps = pkt.PPeer("server", strict, case["frags_s"], ext_info=case["ext_info"], **sock_s)
    stats = {}

    def collect(*peers):
        for p in peers:
            for k, v in p.stats.items():
                stats[k] = stats.get(k, 0) + v

    try:
        # session A: paramiko <-> paramiko, reference receivers listening on the same bytes
        rc = pkt.RPeer("client", strict)
        rs = pkt.RPeer("server", strict)
        try:
            res = pkt.run_session(case, (pc, [ps, rs]), (ps, [pc, rc]))
            short_reads += res.short_reads
            messages += res.messages
            max_payload = res.max_payload
        except pkt.SessionFailed as e:
            failure = e
        # session B: reference senders -> paramiko receivers
        if failure is None:
            auto = ps.auto_after_newkeys()
            flush = FLUSH[case["flush"]]
            pc2 = pkt.PPeer("client", strict, case["frags_s"], **sock_s)
            ps2 = pkt.PPeer("server", strict, case["frags_c"], **sock_c)
            rc2 = pkt.RPeer("client", strict, case["pad_extra"], flush)
            rs2 = pkt.RPeer("server", strict, case["pad_extra"], flush, auto=auto)
            try:
                res = pkt.run_session(case, (rc2, [ps2]), (rs2, [pc2]))
                short_reads += res.short_reads
                messages += res.messages
            except pkt.SessionFailed as e:
                failure = e
            finally:
                collect(pc2, ps2)
                pc2.close()
                ps2.close()
    finally:
        collect(pc, ps)
        pc.close()
        ps.close()
    classes, rekeys, comp_on = _classes(case)
    if short_reads:
        classes.add("short-read-inside-packet")
    for k in (
        "timeout-inside-packet",
        "timeout-inside-first-block",
        "timeout-between-length-and-body",
        "timeout-inside-packet+rekey-pending",
        "timeout-inside-first-block+rekey-pending",
    ):
        if stats.get(k):
            classes.add(k)
    if stats.get("msgs-read-with-rekey-pending"):
        classes.add("rekey-pending-while-reading")
    if stats.get("rekey-signals"):
        classes.add("need-rekey-exception-retried")
    if max_payload > 32768:
        classes.add("payload>32k")
    nmsgs = sum(len(seg["c2s"]) + len(seg["s2c"]) for seg in case["segs"])
    nontrivial = nmsgs >= 2 and (short_reads > 0 or stats.get("timeout-inside-packet", 0) > 0 or rekeys >= 2 or comp_on or max_payload > 17)
    ctx.case(case, nontrivial, sorted(classes))
    if case.get("excluded"):
        ctx.exclude("p2ref|" + FINDING_STALE, case["excluded"])
    if failure is not None:
        clause, bucket = _signature(case, failure)
        ctx.violation(clause, bucket, case, "%s: %s" % (failure.clause, failure.detail))


def run(ctx):
    pkt.check_offered()
    ctx.set_budget(70, 840)
    excl = stale_open()
    ctx.assume("receivers are fed complete packets; end of the scripted stream is EOF (b'' from recv)")
    ctx.assume("compression context is re-created at every key exchange (RFC 4253 6.2) in the reference")
    ctx.assume("scripted socket timeouts / EAGAIN are raised only while unread bytes are buffered (an empty scripted stream is EOF); a pending re-key is answered by reading on, as Transport.run does, until the session script performs the next key exchange")
    if ctx.quick:
        ctx.explore(case_strategy(True, exclude_stale=excl), lambda c: execute(ctx, c), ctx.scale(700, 0))
    else:
        triples = [(c, m, z) for c in pkt.CIPHERS for m in pkt.MACS for z in pkt.COMPRESSIONS]
        mine = [t for i, t in enumerate(triples) if i % ctx.nworkers == ctx.worker]
        # pass 1 guarantees >= 40 cases with every triple as the first c2s suite even if the wall-clock
        # budget is hit later; pass 2 spends the rest of the per-worker case count
        rest = max(0, ctx.scale(0, 5000) // max(1, len(mine)) - 40)
        stop = False
        for rnd, per in ((0, 40), (1, rest)):
            for t in mine:
                if stop or per <= 0 or ctx.out_of_time():
                    break
                before = ctx._last_fail
                ctx.explore(
                    case_strategy(False, first_c2s=t, exclude_stale=excl), lambda c: execute(ctx, c), per, seed_offset=1 + triples.index(t) + 1000 * rnd
                )
                if ctx._last_fail is not before and ctx.unknown:
                    stop = True  # an unlisted violation was found and shrunk; do not shrink it again for every triple
    if ctx.quick:  # (per-worker numbers would be summed by the merger; thorough has the class histogram)
        cls = ctx.classes
        ctx.note("min_cases_per_cipher", "%d" % min(cls.get("cipher:" + c, 0) for c in pkt.CIPHERS))
        ctx.note("min_cases_per_mac", "%d" % min(cls.get("mac:" + m, 0) for m in pkt.MACS))
        ctx.note("triples_covered", "%d of 216" % len(TRIPLES_SEEN))
    else:
        for t in sorted(TRIPLES_SEEN):
            ctx.count("triple:" + t, 0)  # presence only; the per-name histograms carry the counts


def replay(ctx, case):
    case = pkt.norm_case(case)
    case.setdefault("excluded", 0)
    execute(ctx, case)
