"""C09 - strict key exchange (Terrapin counter-measure).

inject cases: tested role (client / server) x kex (curve25519, nistp256, group14-sha256,
    gex-sha256) x strict flag of each side x position i (the injected packet is delivered
    immediately before the i-th plaintext packet the peer sends during the initial exchange:
    0 = before KEXINIT ... last = before NEWKEYS) x injected message (IGNORE, DEBUG, UNIMPLEMENTED,
    unknown type 192, a second KEXINIT, SERVICE_REQUEST). The PlainMitm injects; both peers are
    real Transports. Oracle when both KEXINITs on the wire carry the strict markers: the tested side
    ends with an error, never sets initial_kex_done. Nothing is asserted when strict mode was not
    agreed (outcome only counted).
    Injected-type domain ("type:N"): EVERY message number 1..49 (transport layer generic 1..19 incl.
    EXT_INFO 7, algorithm negotiation 20/21, kex method 30..49) and a sample of the numbers from 50
    up (user auth, connection protocol, local extensions), each with a body that is WELL-FORMED for
    that message (a malformed body would end the session in the message's parser and hide that the
    message had been let through), at every position. The only injected message without obligation
    is one of the very type the tested side is waiting for at that position (it IS "the next expected
    key-exchange message"; outcome counted). Hypothesis additionally draws (type 0..255, body
    well-formed / random bytes, position, role, kex).
terrapin cases (client tested, both strict): IGNORE injected before the server's NEWKEYS and / or
    the server's first encrypted packet deleted. Oracle: inject -> handshake fails; delete only ->
    no authenticated session can be obtained afterwards (the shifted stream must not verify).
honest cases: strict flags x cipher/MAC with a sequence-number dependent MAC x 0..2 re-exchanges.
    Both directions of the recorded byte stream are decoded by peers.Tap (refssh); whether strict mode
    applies is decided from the two KEXINIT payloads on the wire (not from paramiko's flag). The
    Tap is told to restart the sequence number at 0 after every NEWKEYS iff strict applies, and to
    keep counting otherwise: every packet's MAC has to verify under exactly that numbering, in both
    directions, for every epoch - an observation of the reset that does not go through paramiko.
"""
import threading

from hypothesis import strategies as st

from vlib import core, mitm, peers
from vlib import refssh as R

PROPERTY = "C09"
LEVEL = "exploration"
RULE = (
    "inject: role x kex(4) x strict_c x strict_s x position(0..3) x injected type(6), enumerated (quick: complete for "
    "curve25519 and for both-strict on nistp256/group14/gex; thorough: complete product); injected-type domain under both-strict: "
    "every message number 1..49 (incl. EXT_INFO 7, NEWKEYS 21, all kex-method numbers) plus 23 numbers >= 50, each with a body "
    "well-formed for that message, x role x every position (quick: numbers < 50 complete for curve25519, otherwise one rotating "
    "position/role per number and kex method; thorough: complete), plus hypothesis-drawn (type 0..255, well-formed or random body, position, role, "
    "kex); an injected message of the type the receiver is waiting for carries no obligation; terrapin: {inject+delete, delete} x "
    "cipher/mac (4); honest: strict flags(4) x cipher/mac(5) x rekeys 0..2 with initiators drawn by hypothesis. non-trivial = "
    "injection at a position > 0, a deletion, or an honest session with >= 1 re-exchange; distinct by full case"
)

KEXES = ["curve25519-sha256@libssh.org", "ecdh-sha2-nistp256", "diffie-hellman-group14-sha256", "diffie-hellman-group-exchange-sha256"]
INJECT = ["ignore", "debug", "unimplemented", "unknown192", "kexinit", "service-request"]
SUITES = [
    ("aes128-ctr", "hmac-sha2-256"),
    ("aes256-cbc", "hmac-sha2-512-etm@openssh.com"),
    ("aes128-cbc", "hmac-sha1"),
    ("aes192-ctr", "hmac-sha2-256-etm@openssh.com"),
    ("3des-cbc", "hmac-md5-96"),
]
ALLKEYS = ["ssh-ed25519", "ecdsa-sha2-nistp256", "ecdsa-sha2-nistp384", "ecdsa-sha2-nistp521", "rsa-sha2-512", "rsa-sha2-256", "ssh-rsa"]


TYPES_BELOW_50 = [t for t in range(1, 50) if t != 20]  # (a second KEXINIT is the "kexinit" kind)
TYPES_ABOVE = [50, 51, 52, 53, 60, 61, 80, 81, 82, 90, 91, 92, 93, 94, 95, 96, 97, 98, 99, 100, 128, 191, 255]


def wellformed(t):
    """Payload (type byte first) of message number t with a body its parser accepts."""
    table = {
        1: lambda: peers.m_disconnect(11, b"verif"),
        2: lambda: peers.m_ignore(b"verif"),
        3: lambda: peers.m_unimplemented(0),
        4: lambda: peers.m_debug(b"verif"),
        5: lambda: peers.m_service_request(),
        6: lambda: peers.m_service_accept(),
        7: lambda: bytes([7]) + R.u32(1) + R.string(b"server-sig-algs") + R.string(b"ssh-ed25519,rsa-sha2-512,rsa-sha2-256"),
        21: lambda: bytes([21]),
        50: lambda: peers.m_userauth_request(b"u", b"ssh-connection", b"none"),
        51: lambda: peers.m_userauth_failure(),
        52: lambda: peers.m_userauth_success(),
        53: lambda: bytes([53]) + R.string(b"verif banner") + R.string(b""),
        60: lambda: bytes([60]) + R.string(b"ssh-ed25519") + R.string(b""),
        61: lambda: bytes([61]) + R.u32(0),
        80: lambda: peers.m_global_request(b"keepalive@verif", False),
        81: lambda: peers.m_request_success(),
        82: lambda: peers.m_request_failure(),
        90: lambda: peers.m_channel_open(b"session", 0),
        91: lambda: peers.m_channel_open_confirm(0, 0),
        92: lambda: peers.m_channel_open_failure(0),
        93: lambda: peers.m_window_adjust(0, 1024),
        94: lambda: peers.m_channel_data(0, b"verif"),
        95: lambda: peers.m_channel_ext_data(0, 1, b"verif"),
        96: lambda: peers.m_channel_eof(0),
        97: lambda: peers.m_channel_close(0),
        98: lambda: peers.m_channel_request(0, b"shell", False),
        99: lambda: peers.m_channel_success(0),
        100: lambda: peers.m_channel_failure(0),
    }
    if t in table:
        return table[t]()
    return bytes([t]) + R.string(b"verif")  # unassigned / kex-method numbers: one string


def _payload(name, body=None):
    if name.startswith("type:"):
        t = int(name[5:])
        return wellformed(t) if body is None else bytes([t]) + bytes(body)
    return {
        "ignore": peers.m_ignore(b"verif"),
        "debug": peers.m_debug(b"verif"),
        "unimplemented": peers.m_unimplemented(0),
        "unknown192": bytes([192]) + b"verif",
        "service-request": peers.m_service_request(),
    }[name]


def _pair(kex, strict_c, strict_s, suite=None):
    import paramiko

    dis = {"kex": mitm.only(mitm.ALL_KEX, kex), "keys": mitm.only(ALLKEYS, "ssh-ed25519")}
    if suite is not None:
        dis["ciphers"] = mitm.only(paramiko.Transport._preferred_ciphers, suite[0])
        dis["macs"] = mitm.only(paramiko.Transport._preferred_macs, suite[1])
    return peers.make_pair(client_kw={"disabled_algorithms": dis, "strict_kex": strict_c}, server_kw={"strict_kex": strict_s}, host_keys=("ed25519",))


def _pack(kex):
    return mitm.modulus_pack([(2, mitm.group_prime(1024))] if mitm.kex_family(kex) == "gex" else [])


def wire_strict(m):
    """Strict mode applies iff the client's first KEXINIT lists kex-strict-c-v00@openssh.com and the
    server's first KEXINIT lists kex-strict-s-v00@openssh.com (PROTOCOL, OpenSSH 9.6)."""
    c, s = m.kexinit("c2s"), m.kexinit("s2c")
    if c is None or s is None:
        return None
    return "kex-strict-c-v00@openssh.com" in c["kex"] and "kex-strict-s-v00@openssh.com" in s["kex"]


# ----------------------------------------------------------------------------- injection


def run_inject(ctx, case):
    role, kex, pos, what = case["role"], case["kex"], case["pos"], case["inject"]
    target = "s2c" if role == "client" else "c2s"
    applied = []

    def cb(m, d, i, payload):
        if d != target or i != pos or applied:
            return None
        applied.append(payload[0])
        if what == "kexinit":
            first = m.seen[d][0]
            return [first, payload] if i > 0 else [payload, payload]
        return [_payload(what, case.get("body")), payload]

    with _pack(kex):
        link, tc, ts = _pair(kex, case["strict_c"], case["strict_s"])
        m = mitm.PlainMitm(link)
        m.on_packet = lambda d, i, p: cb(m, d, i, p)
        try:
            ce, se = peers.start_both(tc, ts, timeout=60.0)
            if ce is not None and se is None:
                ts.join(15)
                se = ts.get_exception() or (None if ts.is_active() else EOFError())
            tested = tc if role == "client" else ts
            done = bool(tested.initial_kex_done)
            active = bool(tested.is_active())
            err = ce if role == "client" else se
        finally:
            peers.shutdown(tc, ts)
            mitm.cancel_timers(tc, ts)
    if m.errors:
        raise core.HarnessError("PlainMitm could not parse the handshake: %r" % (m.errors,))
    strict = wire_strict(m)
    if not applied:
        ctx.case(case, False, ["inject:not-applied"])
        return True
    cl = ["inject", "inject:" + what, "role:" + role, "kex:" + kex, "pos:%d(before type %d)" % (pos, applied[0]), "strict-agreed" if strict else "strict-not-agreed"]
    awaited = False
    if what.startswith("type:"):
        t = int(what[5:])
        cl.append("inject-type:" + ("1-19" if t < 20 else "20-29" if t < 30 else "30-49" if t < 50 else "50-79" if t < 80 else "80-127" if t < 128 else "128-255"))
        cl.append("inject-body:" + ("wellformed" if case.get("body") is None else "random"))
        if pos == len(m.seen[target]) - 1 and applied[0] == 21:
            cl.append("inject-window:after-own-newkeys-before-peer-newkeys")
        # the message the receiver is waiting for at this point is not an *unexpected* message
        # (gex servers wait for GEX_REQUEST 34 or the old-style request 30)
        awaited = t == applied[0] or (t == 30 and applied[0] == 34)
    ctx.case(case, pos > 0, cl)
    if not strict:
        ctx.count("nonstrict:" + ("session-established" if done else "session-failed"))
        return True
    if awaited:
        ctx.count("injected-type-is-the-awaited-one:" + ("session-established" if done else "session-failed"))
        return True
    if err is None and not done:
        ctx.inconc("inject:tested-side-neither-failed-nor-established-in-time")
        return True
    if done:
        ctx.violation(
            "strict-kex-terminates-on-unexpected-message",
            "%s:%s:%s" % (role, what, "before-kexinit" if pos == 0 else "after-kexinit"),
            case,
            "strict mode agreed on the wire; %s received %s before the peer's packet #%d (type %d); error=%r initial_kex_done=%s active=%s" % (role, what, pos, applied[0], err, done, active),
        )
        return False
    return True


# ----------------------------------------------------------------------------- terrapin shape


def run_terrapin(ctx, case):
    suite = tuple(case["suite"])
    inject, drop = case["inject"], case["drop"]
    kex = KEXES[0]
    state = {"inj": 0, "drop": 0}

    def cb(m, d, i, payload):
        if inject and d == "s2c" and payload[0] == 21 and not state["inj"]:
            state["inj"] = 1
            return [_payload("ignore"), payload]
        return None

    def ecb(d, j, chunk):
        if drop and d == "s2c" and j == 0:
            state["drop"] = 1
            return []
        return None

    link, tc, ts = _pair(kex, True, True, suite)
    m = mitm.PlainMitm(link, on_encrypted=ecb)
    m.on_packet = lambda d, i, p: cb(m, d, i, p)
    authed = None
    auth_exc = None
    try:
        ce, se = peers.start_both(tc, ts, timeout=60.0)
        done = bool(tc.initial_kex_done)
        if ce is None:
            tc.auth_timeout = 12
            res = {}

            def go():
                try:
                    tc.auth_password("u", "pw")
                except Exception as e:  # recorded
                    res["e"] = e

            th = threading.Thread(target=go, daemon=True)
            th.start()
            th.join(30)
            auth_exc = res.get("e")
            authed = bool(tc.is_authenticated())
    finally:
        peers.shutdown(tc, ts)
        mitm.cancel_timers(tc, ts)
    strict = wire_strict(m)
    ctx.case(case, True, ["terrapin", "terrapin:%s%s" % ("inject" if inject else "", "+delete" if drop else ""), "suite:%s/%s" % suite])
    if not strict:
        raise core.HarnessError("strict mode not agreed in a terrapin case")
    if inject:
        if done:
            ctx.violation("strict-kex-terminates-on-unexpected-message", "client:terrapin-ignore-before-newkeys", case, "start_client -> %r initial_kex_done=%s" % (ce, done))
            return False
        return True
    if not state["drop"]:
        ctx.inconc("terrapin:no-encrypted-packet-to-delete")
        return True
    if authed:
        ctx.violation("no-shifted-session", "client:first-encrypted-packet-deleted-yet-authenticated", case, "suite %s/%s" % suite)
        return False
    return True


# ----------------------------------------------------------------------------- honest sessions, external sequence numbers


def _seq_check(ctx, case, chunks, epochs, strict, c2s):
    """Decode one direction with the Tap under the numbering the property demands."""
    name = "c2s" if c2s else "s2c"
    forced = [dict(e, strict=strict) for e in epochs]
    try:
        pk = peers.Tap(chunks, forced, c2s).packets()
    except R.RefError as e:
        # find out which numbering the wire really used, for the bucket / detail
        other = None
        try:
            peers.Tap(chunks, [dict(e, strict=not strict) for e in epochs], c2s).packets()
            other = "wire verifies with %s instead" % ("sequence numbers counting on" if strict else "a reset to 0")
        except R.RefError:
            other = "wire verifies under neither numbering"
        ctx.violation("seqno-after-newkeys", "%s:%s" % (name, "not-reset-under-strict" if strict else "reset-without-strict"), case, "%r; %s" % (e, other))
        return None
    # the first packet of every later epoch must have verified with seq 0 (strict) / running count
    prev_epoch, prev_seq = 0, None
    firsts = []
    for epoch, seq, ptype, _ in pk:
        if epoch != prev_epoch:
            firsts.append((epoch, seq, prev_seq))
            prev_epoch = epoch
        prev_seq = seq
    for epoch, seq, before in firsts:
        want = 0 if strict else (before + 1) & 0xFFFFFFFF
        if seq != want:
            ctx.violation("seqno-after-newkeys", "%s:first-seq-%s" % (name, "nonzero" if strict else "not-continued"), case, "epoch %d starts with seq %d, expected %d" % (epoch, seq, want))
            return None
    return firsts


def run_honest(ctx, case):
    kex = case["kex"]
    suite = tuple(case["suite"])
    rekeys = list(case["rekeys"])
    with _pack(kex):
        link, tc, ts = _pair(kex, case["strict_c"], case["strict_s"], suite)
        m = mitm.PlainMitm(link)
        try:
            ce, se = peers.start_both(tc, ts, timeout=60.0)
            if ce or se:
                ctx.case(case, bool(rekeys), ["honest"])
                ctx.violation("honest-session-works", "handshake:%s" % type(ce or se).__name__, case, "client=%r server=%r" % (ce, se))
                return False
            try:
                tc.auth_password("u", "pw")
                for k, who in enumerate(rekeys):
                    (tc if who == "c" else ts).renegotiate_keys()
                    if not mitm.wait_exchanges(2 + k, tc, ts):
                        raise EOFError("re-exchange %d did not complete on both sides" % (k + 1))
                    tc.global_request("verif-c09@verif", wait=True)
                tc.global_request("verif-c09-end@verif", wait=True)
            except Exception as e:
                ctx.case(case, bool(rekeys), ["honest"])
                ctx.violation("honest-session-works", "traffic:%s" % type(e).__name__, case, "%r (client exc %r, server exc %r)" % (e, tc.get_exception(), ts.get_exception()))
                return False
            c_chunks, s_chunks = list(link.ab.sent), list(link.ba.sent)
            c_ep, s_ep = list(tc.v_out), list(ts.v_out)
            flags = (tc.agreed_on_strict_kex, ts.agreed_on_strict_kex)
        finally:
            peers.shutdown(tc, ts)
            mitm.cancel_timers(tc, ts)
    strict = wire_strict(m)
    ctx.case(case, bool(rekeys), ["honest", "honest:strict" if strict else "honest:not-strict", "honest:rekeys=%d" % len(rekeys), "suite:%s/%s" % suite])
    if strict is None:
        raise core.HarnessError("no KEXINIT captured")
    if len(c_ep) != 1 + len(rekeys) or len(s_ep) != 1 + len(rekeys):
        ctx.violation("honest-session-works", "epoch-count", case, "client %d server %d" % (len(c_ep), len(s_ep)))
        return False
    a = _seq_check(ctx, case, c_chunks, c_ep, strict, True)
    b = _seq_check(ctx, case, s_chunks, s_ep, strict, False)
    if a is None or b is None:
        return False
    if len(a) != 1 + len(rekeys) or len(b) != 1 + len(rekeys):
        ctx.inconc("honest:epoch-without-traffic")
    return True


# ----------------------------------------------------------------------------- drivers


def inject_domain(quick):
    out = []
    for role in ("client", "server"):
        for kex in KEXES:
            npk = 4 if mitm.kex_family(kex) == "gex" else 3
            cheap = kex in KEXES[:2]
            for sc in (True, False):
                for ss in (True, False):
                    if quick and not (sc and ss) and kex != KEXES[0]:
                        continue
                    for pos in range(npk):
                        for what in INJECT:
                            out.append({"kind": "inject", "role": role, "kex": kex, "strict_c": sc, "strict_s": ss, "pos": pos, "inject": what})
    # injected-type domain (strict mode agreed): every number below 50 and a sample above, at every position
    for ki, kex in enumerate(KEXES):
        npk = 4 if mitm.kex_family(kex) == "gex" else 3
        for j, t in enumerate(TYPES_BELOW_50 + TYPES_ABOVE):
            for ri, role in enumerate(("client", "server")):
                for pos in range(npk):
                    rotating = pos == (j + ki) % npk and ri == (j // npk + ki) % 2
                    if quick and not rotating and (ki > 0 or t >= 50):
                        continue
                    if quick and t >= 50 and ki in (1, 2):
                        continue
                    out.append({"kind": "inject", "role": role, "kex": kex, "strict_c": True, "strict_s": True, "pos": pos, "inject": "type:%d" % t})
    return out


def _dispatch(ctx, case):
    k = case["kind"]
    if k == "inject":
        return run_inject(ctx, case)
    if k == "terrapin":
        return run_terrapin(ctx, case)
    return run_honest(ctx, case)


def run(ctx):
    ctx.set_budget(80, 780)
    dom = inject_domain(ctx.quick)
    for s in SUITES[:4]:
        dom.append({"kind": "terrapin", "suite": list(s), "inject": True, "drop": True})
        dom.append({"kind": "terrapin", "suite": list(s), "inject": False, "drop": True})
    dom.append({"kind": "terrapin", "suite": list(SUITES[0]), "inject": True, "drop": False})
    # honest floor: every strict combination with one rekey from each side
    for i, (sc, ss) in enumerate(((True, True), (True, False), (False, True), (False, False))):
        dom.append({"kind": "honest", "kex": KEXES[i % 2], "strict_c": sc, "strict_s": ss, "suite": list(SUITES[i]), "rekeys": ["c", "s"]})
    dom.append({"kind": "honest", "kex": KEXES[3], "strict_c": True, "strict_s": True, "suite": list(SUITES[4]), "rekeys": ["s"]})
    mine = [c for i, c in enumerate(dom) if i % ctx.nworkers == ctx.worker]
    complete = True
    for c in mine:
        if ctx.out_of_time():
            complete = False
            break
        _dispatch(ctx, c)
    if complete:
        ctx.exhaustive = True
        ctx.note("exhaustive_over", "injection product (%s) + terrapin shapes: %d cases; honest sessions are sampled" % ("quick subset: non-strict combinations only for curve25519; injected-type domain complete for curve25519 and numbers < 50, rotating otherwise" if ctx.quick else "complete", len(dom)))
    honest = st.fixed_dictionaries(
        {
            "kind": st.just("honest"),
            "kex": st.sampled_from(KEXES[:2] + KEXES[3:]),
            "strict_c": st.integers(0, 3).map(lambda k: k > 0),
            "strict_s": st.integers(0, 3).map(lambda k: k > 0),
            "suite": st.sampled_from(SUITES).map(list),
            "rekeys": st.integers(0, 3).flatmap(lambda k: st.lists(st.sampled_from(["c", "s"]), min_size=min(k, 1), max_size=2)),
        }
    )
    ctx.explore(honest, lambda c: _dispatch(ctx, c), ctx.scale(30, 800), shrink=False)
    drawn = st.fixed_dictionaries(
        {
            "kind": st.just("inject"),
            "role": st.sampled_from(["client", "server"]),
            "kex": st.sampled_from(KEXES[:2] + KEXES[3:] if ctx.quick else KEXES),
            "strict_c": st.just(True),
            "strict_s": st.just(True),
            "pos": st.integers(0, 3),
            "inject": st.one_of(st.integers(0, 49), st.integers(0, 255)).filter(lambda t: t != 20).map(lambda t: "type:%d" % t),
        },
        optional={"body": st.binary(max_size=40)},
    )
    ctx.explore(drawn, lambda c: _dispatch(ctx, c), ctx.scale(40, 1500), shrink=False, seed_offset=1)


def replay(ctx, case):
    _dispatch(ctx, case)
