"""C09 - strict key exchange (Terrapin counter-measure).

inject cases: tested role (client / server) x kex (curve25519, nistp256, group14-sha256,
    gex-sha256) x strict flag of each side x position i (the injected packet is delivered
    immediately before the i-th plaintext packet the peer sends during the initial exchange:
    0 = before KEXINIT ... last = before NEWKEYS) x injected message (IGNORE, DEBUG, UNIMPLEMENTED,
    unknown type 192, a second KEXINIT, SERVICE_REQUEST). The PlainMitm injects; both peers are
    real Transports. Oracle when both KEXINITs on the wire carry the strict markers: the tested side
    ends with an error, never sets initial_kex_done. Nothing is asserted when strict mode was not
    agreed (outcome only counted).
    Injected-type domain ("type:N"): EVERY message number 1..49 (transport layer generic 1..19 incl.
    EXT_INFO 7, algorithm negotiation 20/21, kex method 30..49) and a sample of the numbers from 50
    up (user auth, connection protocol, local extensions), each with a body that is WELL-FORMED for
    that message (a malformed body would end the session in the message's parser and hide that the
    message had been let through), at every position. The only injected message without obligation
    is one of the very type the tested side is waiting for at that position (it IS "the next expected
    key-exchange message"; outcome counted). Hypothesis additionally draws (type 0..255, body
    well-formed / random bytes, position, role, kex).
    LAYOUT OF THE PEER'S KEXINIT ("layout"): strict mode is agreed by a marker name inside the kex name-list, and a
    peer may put it anywhere (paramiko / OpenSSH append it, Dropbear lists kexguess2@matt.ucc.asn.au after it). The
    NON-tested peer is a LayoutTransport that moves its own marker - first, right after its first method, followed
    by a method name the tested side does not know, between two unknown names (with ext-info next to it) - and hashes
    the KEXINIT it really sent (an honest peer with another habit). Whether strict mode applies is still read off
    the wire by membership, so the oracle above holds unchanged for every layout; the honest sessions below are run
    with every layout too (laid out by the client, the server or both) and are the control that such a peer works.
    OTHER FIELDS OF THE PEER'S KEXINIT ("follows"): the boolean first_kex_packet_follows (RFC 4253 7) is a field every
    peer may set. The NON-tested peer sets it to TRUE in its first KEXINIT (and hashes what it sent) with a guess
    that is right (its first kex method and first host key algorithm are the negotiated ones), wrong in the kex method
    (an OpenSSH method name the tested side does not know heads its list) or wrong in the host key algorithm (likewise).
    RFC 4253 lets a receiver drop "the next packet" after a wrong guess - that packet is a key-exchange-method message
    (numbers 30..49) by definition, so the only injected messages without obligation here are those numbers delivered
    right after such a KEXINIT (counted); IGNORE, DEBUG, UNIMPLEMENTED, unknown and every other message still has to end
    the connection at every position, whatever the flag says.
terrapin cases (client tested, both strict): IGNORE injected before the server's NEWKEYS and / or
    the server's first encrypted packet deleted. Oracle: inject -> handshake fails; delete only ->
    no authenticated session can be obtained afterwards (the shifted stream must not verify).
honest cases: strict flags x cipher/MAC with a sequence-number dependent MAC x 0..2 re-exchanges.
    Both directions of the recorded byte stream are decoded by peers.Tap (refssh); whether strict mode
    applies is decided from the two KEXINIT payloads on the wire (not from paramiko's flag). The
    Tap is told to restart the sequence number at 0 after every NEWKEYS iff strict applies, and to
    keep counting otherwise: every packet's MAC has to verify under exactly that numbering, in both
    directions, for every epoch - an observation of the reset that does not go through paramiko.
"""
import threading

from hypothesis import strategies as st

from vlib import core, mitm, peers
from vlib import refssh as R

PROPERTY = "C09"
LEVEL = "exploration"
RULE = (
    "inject: role x kex(4) x strict_c x strict_s x position(0..3) x injected type(6), enumerated (quick: complete for "
    "curve25519 and for both-strict on nistp256/group14/gex; thorough: complete product); injected-type domain under both-strict: "
    "every message number 1..49 (incl. EXT_INFO 7, NEWKEYS 21, all kex-method numbers) plus 23 numbers >= 50, each with a body "
    "well-formed for that message, x role x every position (quick: numbers < 50 complete for curve25519, otherwise one rotating "
    "position/role per number and kex method; thorough: complete), plus hypothesis-drawn (type 0..255, well-formed or random body, position, role, "
    "kex); layout of the peer's KEXINIT (classes kexinit-layout:<name>, strict-marker:<side>:last / followed-by-pseudo-names-only / "
    "followed-by-algorithm-names[+first]): the non-tested peer moves its strict marker to the front / behind its first method / in "
    "front of an unknown method name / between unknown names, x role x position x IGNORE + one rotating other message (thorough: all 6, "
    "kex rotating), drawn in the hypothesis parts, honest sessions with every layout by client / server / both; "
    "first_kex_packet_follows = TRUE in the non-tested peer's KEXINIT (classes kexinit-follows:<right-guess|wrong-kex-guess|"
    "wrong-hostkey-guess>, kexinit-follows:injected-right-after-flagged-kexinit) x role x position x IGNORE + one rotating other message "
    "(all 6 right after the flagged KEXINIT; thorough: all 6 everywhere x kex rotating x every layout once), drawn in the hypothesis part; kex-method numbers 30..49 right after a flagged KEXINIT "
    "carry no obligation (the guessed packet of RFC 4253 7); "
    "an injected message of the type the receiver is waiting for carries no obligation; terrapin: {inject+delete, delete} x "
    "cipher/mac (4); honest: strict flags(4) x cipher/mac(5) x rekeys 0..2 with initiators drawn by hypothesis. non-trivial = "
    "injection at a position > 0, a deletion, or an honest session with >= 1 re-exchange or a re-laid KEXINIT; distinct by full case"
)

KEXES = ["curve25519-sha256@libssh.org", "ecdh-sha2-nistp256", "diffie-hellman-group14-sha256", "diffie-hellman-group-exchange-sha256"]
INJECT = ["ignore", "debug", "unimplemented", "unknown192", "kexinit", "service-request"]
SUITES = [
    ("aes128-ctr", "hmac-sha2-256"),
    ("aes256-cbc", "hmac-sha2-512-etm@openssh.com"),
    ("aes128-cbc", "hmac-sha1"),
    ("aes192-ctr", "hmac-sha2-256-etm@openssh.com"),
    ("3des-cbc", "hmac-md5-96"),
]
ALLKEYS = ["ssh-ed25519", "ecdsa-sha2-nistp256", "ecdsa-sha2-nistp384", "ecdsa-sha2-nistp521", "rsa-sha2-512", "rsa-sha2-256", "ssh-rsa"]


TYPES_BELOW_50 = [t for t in range(1, 50) if t != 20]  # (a second KEXINIT is the "kexinit" kind)
TYPES_ABOVE = [50, 51, 52, 53, 60, 61, 80, 81, 82, 90, 91, 92, 93, 94, 95, 96, 97, 98, 99, 100, 128, 191, 255]


def wellformed(t):
    """Payload (type byte first) of message number t with a body its parser accepts."""
    table = {
        1: lambda: peers.m_disconnect(11, b"verif"),
        2: lambda: peers.m_ignore(b"verif"),
        3: lambda: peers.m_unimplemented(0),
        4: lambda: peers.m_debug(b"verif"),
        5: lambda: peers.m_service_request(),
        6: lambda: peers.m_service_accept(),
        7: lambda: bytes([7]) + R.u32(1) + R.string(b"server-sig-algs") + R.string(b"ssh-ed25519,rsa-sha2-512,rsa-sha2-256"),
        21: lambda: bytes([21]),
        50: lambda: peers.m_userauth_request(b"u", b"ssh-connection", b"none"),
        51: lambda: peers.m_userauth_failure(),
        52: lambda: peers.m_userauth_success(),
        53: lambda: bytes([53]) + R.string(b"verif banner") + R.string(b""),
        60: lambda: bytes([60]) + R.string(b"ssh-ed25519") + R.string(b""),
        61: lambda: bytes([61]) + R.u32(0),
        80: lambda: peers.m_global_request(b"keepalive@verif", False),
        81: lambda: peers.m_request_success(),
        82: lambda: peers.m_request_failure(),
        90: lambda: peers.m_channel_open(b"session", 0),
        91: lambda: peers.m_channel_open_confirm(0, 0),
        92: lambda: peers.m_channel_open_failure(0),
        93: lambda: peers.m_window_adjust(0, 1024),
        94: lambda: peers.m_channel_data(0, b"verif"),
        95: lambda: peers.m_channel_ext_data(0, 1, b"verif"),
        96: lambda: peers.m_channel_eof(0),
        97: lambda: peers.m_channel_close(0),
        98: lambda: peers.m_channel_request(0, b"shell", False),
        99: lambda: peers.m_channel_success(0),
        100: lambda: peers.m_channel_failure(0),
    }
    if t in table:
        return table[t]()
    return bytes([t]) + R.string(b"verif")  # unassigned / kex-method numbers: one string


def _payload(name, body=None):
    if name.startswith("type:"):
        t = int(name[5:])
        return wellformed(t) if body is None else bytes([t]) + bytes(body)
    return {
        "ignore": peers.m_ignore(b"verif"),
        "debug": peers.m_debug(b"verif"),
        "unimplemented": peers.m_unimplemented(0),
        "unknown192": bytes([192]) + b"verif",
        "service-request": peers.m_service_request(),
    }[name]


# Where a peer puts its strict-kex marker inside the kex name-list of its KEXINIT is its own business (OpenSSH and
# paramiko append it, Dropbear lists "kexguess2@matt.ucc.asn.au" after it): the marker counts wherever it stands.
LAYOUTS = ["marker-first", "marker-after-first-name", "marker-then-unknown-name", "marker-between-unknown-names"]
UNKNOWN_KEX_NAMES = ["kexguess2@matt.ucc.asn.au", "sntrup761x25519-sha512@openssh.com"]


def relayout(names, layout):
    """The kex name-list `names` with its strict-kex marker moved (same set of names, + names the other side
    cannot know for the layouts that say so)."""
    markers = [n for n in names if n.startswith("kex-strict-")]
    rest = [n for n in names if not n.startswith("kex-strict-")]
    if not markers or not layout:
        return list(names)
    if layout == "marker-first":
        return markers + rest
    if layout == "marker-after-first-name":
        return rest[:1] + markers + rest[1:]
    if layout == "marker-then-unknown-name":
        return rest + markers + UNKNOWN_KEX_NAMES[:1]
    if layout == "marker-between-unknown-names":
        real = [n for n in rest if not mitm.is_pseudo(n)]
        pseudo = [n for n in rest if mitm.is_pseudo(n)]
        return real + UNKNOWN_KEX_NAMES[1:] + pseudo[:1] + markers + pseudo[1:] + UNKNOWN_KEX_NAMES[:1]
    raise core.HarnessError("unknown KEXINIT layout %r" % (layout,))


FOLLOWS = ["right-guess", "wrong-kex-guess", "wrong-hostkey-guess"]
UNKNOWN_HOSTKEY_NAME = "webauthn-sk-ecdsa-sha2-nistp256@openssh.com"


def with_guess(d, follows, kex, hostkey="ssh-ed25519"):
    """KEXINIT fields `d` with first_kex_packet_follows = TRUE and the name lists arranged so that the announced guess
    (first kex method, first host key algorithm: RFC 4253 7) is right / wrong for the negotiation that will pick
    `kex` and `hostkey`. Same set of names the peer really supports, + one name the other side cannot know for the
    wrong guesses (so the negotiation result is unchanged)."""
    d = dict(d, follows=True)
    if follows == "right-guess":
        d["kex"] = [kex] + [n for n in d["kex"] if n != kex]
        d["hostkey"] = [hostkey] + [n for n in d["hostkey"] if n != hostkey]
    elif follows == "wrong-kex-guess":
        d["kex"] = UNKNOWN_KEX_NAMES[1:] + [n for n in d["kex"] if n not in UNKNOWN_KEX_NAMES[1:]]
    elif follows == "wrong-hostkey-guess":
        d["hostkey"] = [UNKNOWN_HOSTKEY_NAME] + list(d["hostkey"])
    else:
        raise core.HarnessError("unknown first_kex_packet_follows variant %r" % (follows,))
    return d


class LayoutTransport(peers.VTransport):
    """NON-tested peer that lays out the kex name-list of its own KEXINITs as `v_layout` says and / or sets
    first_kex_packet_follows in its FIRST KEXINIT as `v_follows` says (v_guess = (kex, host key algorithm) that the
    negotiation will pick). It hashes what it sent (its I_C / I_S is the payload that went on the wire), so for the
    tested side it is an honest peer with another habit of ordering its list."""

    v_layout = None
    v_follows = None
    v_guess = None
    v_kexinits = 0

    def _send_message(self, data):
        raw = data.asbytes()
        if (self.v_layout or self.v_follows) and raw[:1] == b"\x14":
            from paramiko.message import Message

            d = mitm.parse_kexinit(raw)
            d["kex"] = relayout(d["kex"], self.v_layout)
            if self.v_follows and not self.v_kexinits:
                d = with_guess(d, self.v_follows, *self.v_guess)
            self.v_kexinits += 1
            new = mitm.build_kexinit(d)
            if new != raw:
                self.local_kex_init = self._latest_kex_init = new
                data = Message(new)
        return peers.VTransport._send_message(self, data)


def _pair(kex, strict_c, strict_s, suite=None, layout=None, layout_side=None, follows=None):
    """layout / layout_side: the peer(s) named by layout_side ("c", "s" or "cs") lay out their KEXINIT kex list
    as `layout` says and set first_kex_packet_follows as `follows` says."""
    import paramiko

    dis = {"kex": mitm.only(mitm.ALL_KEX, kex), "keys": mitm.only(ALLKEYS, "ssh-ed25519")}
    if suite is not None:
        dis["ciphers"] = mitm.only(paramiko.Transport._preferred_ciphers, suite[0])
        dis["macs"] = mitm.only(paramiko.Transport._preferred_macs, suite[1])
    side = (layout_side or "") if (layout or follows) else ""
    link, tc, ts = peers.make_pair(
        client_cls=LayoutTransport if "c" in side else peers.VTransport,
        server_cls=LayoutTransport if "s" in side else peers.VTransport,
        client_kw={"disabled_algorithms": dis, "strict_kex": strict_c},
        server_kw={"strict_kex": strict_s},
        host_keys=("ed25519",),
    )
    for t, x in ((tc, "c"), (ts, "s")):
        if x in side:
            t.v_layout = layout
            t.v_follows = follows
            t.v_guess = (kex, "ssh-ed25519")
    return link, tc, ts


def _marker_classes(m):
    """Evidence: where the strict marker stands in each side's first KEXINIT on the wire."""
    out = []
    for d, who in (("c2s", "client"), ("s2c", "server")):
        ki = m.kexinit(d)
        names = ki["kex"] if ki else []
        idx = [i for i, n in enumerate(names) if n.startswith("kex-strict-")]
        if not idx:
            continue
        after = names[idx[-1] + 1 :]
        if not after:
            where = "last"
        elif all(mitm.is_pseudo(n) for n in after):
            where = "followed-by-pseudo-names-only"
        else:
            where = "followed-by-algorithm-names"
        if idx[0] == 0:
            where += "+first"
        out.append("strict-marker:%s:%s" % (who, where))
    return out


def _pack(kex):
    return mitm.modulus_pack([(2, mitm.group_prime(1024))] if mitm.kex_family(kex) == "gex" else [])


def wire_strict(m):
    """Strict mode applies iff the client's first KEXINIT lists kex-strict-c-v00@openssh.com and the
    server's first KEXINIT lists kex-strict-s-v00@openssh.com (PROTOCOL, OpenSSH 9.6)."""
    c, s = m.kexinit("c2s"), m.kexinit("s2c")
    if c is None or s is None:
        return None
    return "kex-strict-c-v00@openssh.com" in c["kex"] and "kex-strict-s-v00@openssh.com" in s["kex"]


# ----------------------------------------------------------------------------- injection


def run_inject(ctx, case):
    role, kex, pos, what = case["role"], case["kex"], case["pos"], case["inject"]
    target = "s2c" if role == "client" else "c2s"
    applied = []

    def cb(m, d, i, payload):
        if d != target or i != pos or applied:
            return None
        applied.append(payload[0])
        if what == "kexinit":
            first = m.seen[d][0]
            return [first, payload] if i > 0 else [payload, payload]
        return [_payload(what, case.get("body")), payload]

    with _pack(kex):
        # (the NON-tested peer = the sender of the packets the tested side receives lays out its KEXINIT)
        link, tc, ts = _pair(kex, case["strict_c"], case["strict_s"], layout=case.get("layout"), layout_side="s" if role == "client" else "c", follows=case.get("follows"))
        m = mitm.PlainMitm(link)
        m.on_packet = lambda d, i, p: cb(m, d, i, p)
        try:
            ce, se = peers.start_both(tc, ts, timeout=60.0)
            if ce is not None and se is None:
                ts.join(15)
                se = ts.get_exception() or (None if ts.is_active() else EOFError())
            tested = tc if role == "client" else ts
            done = bool(tested.initial_kex_done)
            active = bool(tested.is_active())
            err = ce if role == "client" else se
        finally:
            peers.shutdown(tc, ts)
            mitm.cancel_timers(tc, ts)
    if m.errors:
        raise core.HarnessError("PlainMitm could not parse the handshake: %r" % (m.errors,))
    strict = wire_strict(m)
    if not applied:
        ctx.case(case, False, ["inject:not-applied"])
        return True
    cl = ["inject", "inject:" + what, "role:" + role, "kex:" + kex, "pos:%d(before type %d)" % (pos, applied[0]), "strict-agreed" if strict else "strict-not-agreed"]
    cl.append("kexinit-layout:" + (case.get("layout") or "default"))
    cl += _marker_classes(m)
    awaited = False
    guessed = False
    if case.get("follows"):
        # (read off the wire like the strict markers: what the tested side was really shown)
        ki = m.kexinit(target)
        if not (ki and ki.get("follows")):
            raise core.HarnessError("first_kex_packet_follows not set on the wire: %r" % (case,))
        right = ki["kex"][:1] == [kex] and ki["hostkey"][:1] == ["ssh-ed25519"]
        if right != (case["follows"] == "right-guess"):
            raise core.HarnessError("the peer's guess is %s on the wire, the case wants %s: %r" % ("right" if right else "wrong", case["follows"], ki))
        cl.append("kexinit-follows:" + case["follows"])
        if pos == 1:
            cl.append("kexinit-follows:injected-right-after-flagged-kexinit")
            cl.append("kexinit-follows:%s:injected-right-after-flagged-kexinit" % ("right-guess" if right else "wrong-guess"))
            # RFC 4253 7: the packet after a flagged KEXINIT is the peer's guessed first key-exchange-method message
            # (numbers 30..49); a receiver may have to drop it silently. Everything else is not a key exchange message.
            guessed = what.startswith("type:") and 30 <= int(what[5:]) <= 49
    else:
        cl.append("kexinit-follows:not-set")
    if what.startswith("type:"):
        t = int(what[5:])
        cl.append("inject-type:" + ("1-19" if t < 20 else "20-29" if t < 30 else "30-49" if t < 50 else "50-79" if t < 80 else "80-127" if t < 128 else "128-255"))
        cl.append("inject-body:" + ("wellformed" if case.get("body") is None else "random"))
        if pos == len(m.seen[target]) - 1 and applied[0] == 21:
            cl.append("inject-window:after-own-newkeys-before-peer-newkeys")
        # the message the receiver is waiting for at this point is not an *unexpected* message
        # (gex servers wait for GEX_REQUEST 34 or the old-style request 30)
        awaited = t == applied[0] or (t == 30 and applied[0] == 34)
    ctx.case(case, pos > 0, cl)
    if not strict:
        ctx.count("nonstrict:" + ("session-established" if done else "session-failed"))
        return True
    if awaited:
        ctx.count("injected-type-is-the-awaited-one:" + ("session-established" if done else "session-failed"))
        return True
    if guessed:
        ctx.count("injected-kex-method-message-in-place-of-the-guessed-packet:" + ("session-established" if done else "session-failed"))
        return True
    if err is None and not done:
        ctx.inconc("inject:tested-side-neither-failed-nor-established-in-time")
        return True
    if done:
        ctx.violation(
            "strict-kex-terminates-on-unexpected-message",
            "%s:%s:%s%s%s" % (role, what, "before-kexinit" if pos == 0 else "after-kexinit", ":peer-kexinit-layout" if case.get("layout") else "", ":peer-kexinit-first-kex-packet-follows" if case.get("follows") else ""),
            case,
            "strict mode agreed on the wire (peer's kex list laid out: %s; first_kex_packet_follows: %s); %s received %s before the peer's packet #%d (type %d); error=%r initial_kex_done=%s active=%s" % (case.get("layout") or "default", case.get("follows") or "not set", role, what, pos, applied[0], err, done, active),
        )
        return False
    return True


# ----------------------------------------------------------------------------- terrapin shape


def run_terrapin(ctx, case):
    suite = tuple(case["suite"])
    inject, drop = case["inject"], case["drop"]
    kex = KEXES[0]
    state = {"inj": 0, "drop": 0}

    def cb(m, d, i, payload):
        if inject and d == "s2c" and payload[0] == 21 and not state["inj"]:
            state["inj"] = 1
            return [_payload("ignore"), payload]
        return None

    def ecb(d, j, chunk):
        if drop and d == "s2c" and j == 0:
            state["drop"] = 1
            return []
        return None

    link, tc, ts = _pair(kex, True, True, suite)
    m = mitm.PlainMitm(link, on_encrypted=ecb)
    m.on_packet = lambda d, i, p: cb(m, d, i, p)
    authed = None
    auth_exc = None
    try:
        ce, se = peers.start_both(tc, ts, timeout=60.0)
        done = bool(tc.initial_kex_done)
        if ce is None:
            tc.auth_timeout = 12
            res = {}

            def go():
                try:
                    tc.auth_password("u", "pw")
                except Exception as e:  # recorded
                    res["e"] = e

            th = threading.Thread(target=go, daemon=True)
            th.start()
            th.join(30)
            auth_exc = res.get("e")
            authed = bool(tc.is_authenticated())
    finally:
        peers.shutdown(tc, ts)
        mitm.cancel_timers(tc, ts)
    strict = wire_strict(m)
    ctx.case(case, True, ["terrapin", "terrapin:%s%s" % ("inject" if inject else "", "+delete" if drop else ""), "suite:%s/%s" % suite])
    if not strict:
        raise core.HarnessError("strict mode not agreed in a terrapin case")
    if inject:
        if done:
            ctx.violation("strict-kex-terminates-on-unexpected-message", "client:terrapin-ignore-before-newkeys", case, "start_client -> %r initial_kex_done=%s" % (ce, done))
            return False
        return True
    if not state["drop"]:
        ctx.inconc("terrapin:no-encrypted-packet-to-delete")
        return True
    if authed:
        ctx.violation("no-shifted-session", "client:first-encrypted-packet-deleted-yet-authenticated", case, "suite %s/%s" % suite)
        return False
    return True


# ----------------------------------------------------------------------------- honest sessions, external sequence numbers


def _seq_check(ctx, case, chunks, epochs, strict, c2s):
    """Decode one direction with the Tap under the numbering the property demands."""
    name = "c2s" if c2s else "s2c"
    forced = [dict(e, strict=strict) for e in epochs]
    try:
        pk = peers.Tap(chunks, forced, c2s).packets()
    except R.RefError as e:
        # find out which numbering the wire really used, for the bucket / detail
        other = None
        try:
            peers.Tap(chunks, [dict(e, strict=not strict) for e in epochs], c2s).packets()
            other = "wire verifies with %s instead" % ("sequence numbers counting on" if strict else "a reset to 0")
        except R.RefError:
            other = "wire verifies under neither numbering"
        ctx.violation("seqno-after-newkeys", "%s:%s" % (name, "not-reset-under-strict" if strict else "reset-without-strict"), case, "%r; %s" % (e, other))
        return None
    # the first packet of every later epoch must have verified with seq 0 (strict) / running count
    prev_epoch, prev_seq = 0, None
    firsts = []
    for epoch, seq, ptype, _ in pk:
        if epoch != prev_epoch:
            firsts.append((epoch, seq, prev_seq))
            prev_epoch = epoch
        prev_seq = seq
    for epoch, seq, before in firsts:
        want = 0 if strict else (before + 1) & 0xFFFFFFFF
        if seq != want:
            ctx.violation("seqno-after-newkeys", "%s:first-seq-%s" % (name, "nonzero" if strict else "not-continued"), case, "epoch %d starts with seq %d, expected %d" % (epoch, seq, want))
            return None
    return firsts


def run_honest(ctx, case):
    kex = case["kex"]
    suite = tuple(case["suite"])
    rekeys = list(case["rekeys"])
    with _pack(kex):
        link, tc, ts = _pair(kex, case["strict_c"], case["strict_s"], suite, layout=case.get("layout"), layout_side=case.get("layout_side"))
        m = mitm.PlainMitm(link)
        try:
            ce, se = peers.start_both(tc, ts, timeout=60.0)
            if ce or se:
                ctx.case(case, bool(rekeys), ["honest"])
                ctx.violation("honest-session-works", "handshake:%s" % type(ce or se).__name__, case, "client=%r server=%r" % (ce, se))
                return False
            try:
                tc.auth_password("u", "pw")
                for k, who in enumerate(rekeys):
                    (tc if who == "c" else ts).renegotiate_keys()
                    if not mitm.wait_exchanges(2 + k, tc, ts):
                        raise EOFError("re-exchange %d did not complete on both sides" % (k + 1))
                    tc.global_request("verif-c09@verif", wait=True)
                tc.global_request("verif-c09-end@verif", wait=True)
            except Exception as e:
                ctx.case(case, bool(rekeys), ["honest"])
                ctx.violation("honest-session-works", "traffic:%s" % type(e).__name__, case, "%r (client exc %r, server exc %r)" % (e, tc.get_exception(), ts.get_exception()))
                return False
            c_chunks, s_chunks = list(link.ab.sent), list(link.ba.sent)
            c_ep, s_ep = list(tc.v_out), list(ts.v_out)
            flags = (tc.agreed_on_strict_kex, ts.agreed_on_strict_kex)
        finally:
            peers.shutdown(tc, ts)
            mitm.cancel_timers(tc, ts)
    strict = wire_strict(m)
    lay = case.get("layout") if case.get("layout_side") else None
    ctx.case(case, bool(rekeys) or bool(lay), ["honest", "honest:strict" if strict else "honest:not-strict", "honest:rekeys=%d" % len(rekeys), "suite:%s/%s" % suite, "kexinit-layout:" + (lay or "default")] + ["honest:kexinit-layout-by:" + x for x in (case.get("layout_side") or "") if lay] + _marker_classes(m))
    if strict is None:
        raise core.HarnessError("no KEXINIT captured")
    if len(c_ep) != 1 + len(rekeys) or len(s_ep) != 1 + len(rekeys):
        ctx.violation("honest-session-works", "epoch-count", case, "client %d server %d" % (len(c_ep), len(s_ep)))
        return False
    a = _seq_check(ctx, case, c_chunks, c_ep, strict, True)
    b = _seq_check(ctx, case, s_chunks, s_ep, strict, False)
    if a is None or b is None:
        return False
    if len(a) != 1 + len(rekeys) or len(b) != 1 + len(rekeys):
        ctx.inconc("honest:epoch-without-traffic")
    return True


# ----------------------------------------------------------------------------- drivers


def inject_domain(quick):
    out = []
    for role in ("client", "server"):
        for kex in KEXES:
            npk = 4 if mitm.kex_family(kex) == "gex" else 3
            cheap = kex in KEXES[:2]
            for sc in (True, False):
                for ss in (True, False):
                    if quick and not (sc and ss) and kex != KEXES[0]:
                        continue
                    for pos in range(npk):
                        for what in INJECT:
                            out.append({"kind": "inject", "role": role, "kex": kex, "strict_c": sc, "strict_s": ss, "pos": pos, "inject": what})
    # injected-type domain (strict mode agreed): every number below 50 and a sample above, at every position
    for ki, kex in enumerate(KEXES):
        npk = 4 if mitm.kex_family(kex) == "gex" else 3
        for j, t in enumerate(TYPES_BELOW_50 + TYPES_ABOVE):
            for ri, role in enumerate(("client", "server")):
                for pos in range(npk):
                    rotating = pos == (j + ki) % npk and ri == (j // npk + ki) % 2
                    if quick and not rotating and (ki > 0 or t >= 50):
                        continue
                    if quick and t >= 50 and ki in (1, 2):
                        continue
                    out.append({"kind": "inject", "role": role, "kex": kex, "strict_c": True, "strict_s": True, "pos": pos, "inject": "type:%d" % t})
    # layout of the peer's KEXINIT (strict mode agreed): role x layout x position x IGNORE and one rotating other message
    j = 0
    for role in ("client", "server"):
        for li, layout in enumerate(LAYOUTS):
            kex = KEXES[0] if quick else KEXES[li % len(KEXES)]
            npk = 4 if mitm.kex_family(kex) == "gex" else 3
            for pos in range(npk):
                for what in (["ignore", INJECT[1 + j % (len(INJECT) - 1)]] if quick else INJECT):
                    out.append({"kind": "inject", "role": role, "kex": kex, "strict_c": True, "strict_s": True, "pos": pos, "inject": what, "layout": layout})
                j += 1
    # first_kex_packet_follows = TRUE in the peer's KEXINIT (strict mode agreed): role x guess x position x IGNORE and one
    # rotating other message (thorough: all 6, kex rotating, + every layout once per guess)
    for role in ("client", "server"):
        for fi, follows in enumerate(FOLLOWS):
            kex = KEXES[0] if quick else KEXES[(fi + (role == "server")) % len(KEXES)]
            npk = 4 if mitm.kex_family(kex) == "gex" else 3
            for pos in range(npk):
                # (pos 1 = right after the flagged KEXINIT, where the guessed packet would stand: all 6 messages)
                for what in (["ignore", INJECT[1 + j % (len(INJECT) - 1)]] if quick and pos != 1 else INJECT):
                    out.append({"kind": "inject", "role": role, "kex": kex, "strict_c": True, "strict_s": True, "pos": pos, "inject": what, "follows": follows})
                j += 1
            if not quick:
                for li, layout in enumerate(LAYOUTS):
                    out.append({"kind": "inject", "role": role, "kex": KEXES[li % len(KEXES)], "strict_c": True, "strict_s": True, "pos": 1, "inject": INJECT[(li + fi) % len(INJECT)], "follows": follows, "layout": layout})
    return out


def _dispatch(ctx, case):
    k = case["kind"]
    if k == "inject":
        return run_inject(ctx, case)
    if k == "terrapin":
        return run_terrapin(ctx, case)
    return run_honest(ctx, case)


def run(ctx):
    # (VERIF_BUDGET_SCALE: validation runs on an oversubscribed machine may stretch the wall-clock safety net; never part of a verdict)
    _bs = max(1.0, float(__import__("os").environ.get("VERIF_BUDGET_SCALE", "1") or 1))
    ctx.set_budget(80 * _bs, 780 * _bs)
    dom = inject_domain(ctx.quick)
    for s in SUITES[:4]:
        dom.append({"kind": "terrapin", "suite": list(s), "inject": True, "drop": True})
        dom.append({"kind": "terrapin", "suite": list(s), "inject": False, "drop": True})
    dom.append({"kind": "terrapin", "suite": list(SUITES[0]), "inject": True, "drop": False})
    # honest floor: every strict combination with one rekey from each side
    for i, (sc, ss) in enumerate(((True, True), (True, False), (False, True), (False, False))):
        dom.append({"kind": "honest", "kex": KEXES[i % 2], "strict_c": sc, "strict_s": ss, "suite": list(SUITES[i]), "rekeys": ["c", "s"]})
    dom.append({"kind": "honest", "kex": KEXES[3], "strict_c": True, "strict_s": True, "suite": list(SUITES[4]), "rekeys": ["s"]})
    # honest floor: every KEXINIT layout, laid out by the client / the server / both
    for i, layout in enumerate(LAYOUTS):
        dom.append({"kind": "honest", "kex": KEXES[i % 2], "strict_c": True, "strict_s": True, "suite": list(SUITES[i % len(SUITES)]), "rekeys": [["s"], [], ["c"], []][i], "layout": layout, "layout_side": ["s", "c", "cs", "s"][i]})
    mine = [c for i, c in enumerate(dom) if i % ctx.nworkers == ctx.worker]
    complete = True
    for c in mine:
        if ctx.out_of_time():
            complete = False
            break
        _dispatch(ctx, c)
    if complete:
        ctx.exhaustive = True
        ctx.note("exhaustive_over", "injection product (%s) + terrapin shapes: %d cases; honest sessions are sampled" % ("quick subset: non-strict combinations only for curve25519; injected-type domain complete for curve25519 and numbers < 50, rotating otherwise" if ctx.quick else "complete", len(dom)))
    honest = st.fixed_dictionaries(
        {
            "kind": st.just("honest"),
            "kex": st.sampled_from(KEXES[:2] + KEXES[3:]),
            "strict_c": st.integers(0, 3).map(lambda k: k > 0),
            "strict_s": st.integers(0, 3).map(lambda k: k > 0),
            "suite": st.sampled_from(SUITES).map(list),
            "rekeys": st.integers(0, 3).flatmap(lambda k: st.lists(st.sampled_from(["c", "s"]), min_size=min(k, 1), max_size=2)),
        },
        optional={"layout": st.sampled_from(LAYOUTS), "layout_side": st.sampled_from(["c", "s", "cs"])},
    )
    ctx.explore(honest, lambda c: _dispatch(ctx, c), ctx.scale(22, 800), shrink=False)
    drawn = st.fixed_dictionaries(
        {
            "kind": st.just("inject"),
            "role": st.sampled_from(["client", "server"]),
            "kex": st.sampled_from(KEXES[:2] + KEXES[3:] if ctx.quick else KEXES),
            "strict_c": st.just(True),
            "strict_s": st.just(True),
            "pos": st.integers(0, 3),
            "inject": st.one_of(st.integers(0, 49), st.integers(0, 255)).filter(lambda t: t != 20).map(lambda t: "type:%d" % t),
        },
        optional={"body": st.binary(max_size=40), "layout": st.sampled_from(LAYOUTS), "follows": st.sampled_from(FOLLOWS)},
    )
    ctx.explore(drawn, lambda c: _dispatch(ctx, c), ctx.scale(32, 1500), shrink=False, seed_offset=1)


def replay(ctx, case):
    _dispatch(ctx, case)
