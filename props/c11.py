"""C11 - key re-exchange is transparent to whatever traffic is in flight.

Tested transport T (client or server role) against a `peers.Puppet` P on an in-memory `net.Link`
whose P->T direction is *held*: the crossing order is forced, not hoped for.

  1. production handshake + auth + 4 channels; P switches to raw mode (kex still production code)
  2. hold P->T; P sends the in-flight connection-layer message(s) M (they wait on the link)
  3. T's KEXINIT is triggered: `renegotiate_keys()` from a harness thread ("explicit"), the
     REKEY_PACKETS threshold of a C10 SmallPacketizer ("threshold"), additionally P starts an
     exchange of its own behind M ("crossing"), or only P does ("peer": M reaches T *before* its
     KEXINIT - trivial for the crossing, still a valid history)
  4. as soon as T's KEXINIT is on the wire: user operations are started on T (they must queue):
     channel send / stream, global_request(wait=False|True), exec_command, open_session / open_channel,
     request_port_forward, renegotiate_keys() (the application asks for new keys while an exchange is already
     running); `op_at`: they are started right after T's KEXINIT, or at the last step of the exchange (T's NEWKEYS
     is on the wire, the peer's NEWKEYS still held); the link stays held for `hold_ms`, then M is released, then the rest in
     generated portions. M kinds "open-confirm" / "open-failure" answer a channel open that T issued
     before the exchange (the caller is blocked in open_channel while the reply crosses the exchange).
     P->T bytes are read by T through a generated finite fragmentation plan (`net.Direction.frag`:
     maximum recv sizes and idle GAPs = one socket timeout with part of a packet delivered), installed
     when M is released
  5. P sends a sentinel GLOBAL_REQUEST(want_reply); the run ends with its reply or T's death

bulk stream (dimension `bulk`, any mode): a 5th channel whose receive window on the tested side is w = 32-64 KiB
(`open_session(window_size=)` / `Transport(default_window_size=)`); the puppet is an eager, window-respecting sender: when
the exchange starts it has `fill` percent of that window in flight behind M (16-512 CHANNEL_DATA packets held on the
link; in mode "threshold" that is a multiple of the lowered REKEY_PACKETS and, with `rb`, of a lowered REKEY_BYTES,
while the overflow allowances keep their defaults), and after the exchange it goes on for `more` quarter windows,
writing whenever initial window + WINDOW_ADJUSTs seen - bytes written > 0. The application reads the stream with recv
calls of `chunk` bytes: operation "read" = started with the other queued operations (after the tested side's KEXINIT /
its NEWKEYS), i.e. reads cross the window-adjust threshold while the send gate is closed and the adjustment is a queued
user message; otherwise after the exchange. The harness waits (pacing) until the reader has taken what is buffered or
sits in a call before it lets the exchange finish. Oracle: session-died as above (the in-flight volume is far below the
default overflow allowance); op-lost: the reader receives every byte of the stream, i.e. "the queued traffic is
delivered afterwards" and the transfer continues - a sender left without window for 12 s although the application has
read everything is a violation (component `op:read` / `bulk-stream`); foreign-type-in-kex covers a WINDOW_ADJUST written
inside the exchange.

Oracle (on the Tap-decoded, ordered log of everything T sent; `c10.Wire` gives the global order):
  foreign-type-in-kex  between T's KEXINIT (20) and its next NEWKEYS (21) only types 1..49
  session-died         the exchange completes, T and P are active afterwards, sentinel answered
  op-lost              queued user operations complete; M's reply (if one is due) is on the wire
                       after NEWKEYS; M's payload (data, stderr data, exit status, the outcome of a
                       pending channel open) reaches the app
                       an "open-failure" M counts as delivered when the blocked open_channel() call failed with an
                       SSHException that is not its own timeout; only when it is the single refused open of the
                       session must that be the ChannelException with the peer's reason code (correction: the
                       transport keeps one saved-exception slot, so with several refusals in flight the second caller
                       gets "Unable to open channel." - which subclass a caller sees is not this property's subject)
Harness conformance: everything the puppet's harness threads send (M, bulk stream, sentinel, answers to the queued
operations; storm sentinels) goes through `Puppet.send_conn`: test "not between the puppet's own KEXINIT and its own
NEWKEYS" and write are one step under the packetizer's write lock, so the puppet never puts a connection-layer message
inside an exchange of its own (correction: with lowered thresholds the bulk stream makes the tested side ask for the
next exchange while the sender thread is still writing; data after the puppet's KEXINIT made the tested side end the
session with MessageOrderError - a protocol violation of the harness). Data written before the puppet's KEXINIT while
the tested side's KEXINIT is already out is the crossing traffic of the statement and stays.
Buckets: `<clause>|<component>` where component is the M kind (`chanreq:<name>:<want_reply>`,
`close`, `global:1`, `open:accepted`, ...), `keepalive`, or `op:<kind>`. A failing case with several
components is re-run with each component alone (delta debugging by construction) so that buckets
name single root causes; a failure only the combination shows is reported as `combo:...`.
Non-trivial: every M was released to T strictly after T's KEXINIT was pushed and before T pushed
a NEWKEYS (global order from the wire log; also structurally forced: P's KEXINIT is behind M).

family "storm" (`execute_storm`; concurrent user threads of the quantifier): n = 2-16 harness threads stream numbered
records on n channels of T while re-exchanges start one after the other (rounds: T.renegotiate_keys() | the puppet's |
alternating; or mode "threshold": the streams themselves cross a lowered REKEY_PACKETS again and again). For every
round the streams are (re)started, the exchange is triggered while all of them are writing, and a sentinel round trip
after the puppet's NEWKEYS separates it from the next one. Schedule dimensions: number of senders, interpreter switch
interval (0 = default, 5-500 us), records per sender and round, and `stall` = the senders are descheduled for 1-4 ms at
the entry of `Packetizer.send_message` (harness subclass passed through the public `Transport(packetizer_class=)`;
`StallCtl`), i.e. after the transport decided to send and before the packetizer took the message - this owns the
interleaving "sender between gate and wire when the exchange starts" instead of hoping for it; "free-running" cases
(no stall, 8-16 senders) leave it to the interpreter. Same oracle, on the independent decode of everything T wrote:
foreign-type-in-kex (no type >= 50 between any KEXINIT and the next NEWKEYS; a fact of the recorded wire, reported
without confirming re-runs; a free-running hit is re-run with stalled senders to get a replay that reproduces),
session-died (every round completes, both sides up, sentinels answered), op-lost (per channel, the bytes on the wire
are exactly the records the application sent, in order; no sender error). Bucket `concurrent-senders`. Non-trivial:
>= 2 senders and >= 1 exchange whose KEXINIT was written while stream records were going out (within the 60
preceding wire events) and that was followed by more records after NEWKEYS.
"""
import concurrent.futures
import os
import sys
import threading
import time
import traceback

from hypothesis import strategies as st

from vlib import core, net, peers
from vlib import refssh as R
from props import c10

PROPERTY = "C11"
LEVEL = "exploration"
THOROUGH_WORKERS = 16
RULE = (
    "enumeration of role x in-flight message kind (24 kinds: data, extended data, window adjust, EOF, CLOSE, CHANNEL_REQUEST "
    "exec|env|exit-status|unknown x want_reply 0|1, CHANNEL_OPEN accepted|rejected, CHANNEL_OPEN_CONFIRMATION|FAILURE answering an open "
    "the tested side issued before the exchange, GLOBAL_REQUEST want_reply 0|1, REQUEST_SUCCESS|"
    "FAILURE, CHANNEL_SUCCESS|FAILURE, tested side's own keepalive) with initiator=explicit; role x {open_session/open_channel, "
    "request_port_forward, global_request(wait=True)} started during the exchange x every in-flight kind; role x initiator x renegotiate_keys() "
    "by the application at the first | last step of the running exchange; role x every operation at the last step; role x threshold-initiated "
    "exchange x recv fragmentation plans with idle gaps (partial first block, partial body) on the tested side's inbound link; plus "
    "hypothesis-drawn cases: initiator "
    "explicit|threshold|crossing|peer, 1-3 messages, 0-2 queued user operations (send, stream, global request wait 0|1, exec, channel "
    "open, port forward request, renegotiate_keys) started after the tested side's KEXINIT or after its NEWKEYS (peer's NEWKEYS held), keepalive on/off, hold time, release portions, fragmentation plan (0-10 items: max recv size 1-64 | GAP); non-trivial = every M released to the tested side strictly between its KEXINIT and "
    "its NEWKEYS in the global wire order (or keepalive due while the exchange was held >= 0.3 s); distinct by the case dict; "
    "bulk stream dimension (enumerated: role x 4 initiators x reader during the exchange, reader at the last step, no reader x lowered packet / byte thresholds; "
    "and drawn): tested side's receive window 32|48|64 KiB x 25|50|100 % of it in flight behind the KEXINIT in packets of 32-4096 bytes (16-512 packets, a multiple of the lowered "
    "REKEY_PACKETS 30-60 / REKEY_BYTES 8|16 KiB with default overflow allowances) x application recv size 64-65536 started during | after the exchange x 1-6 quarter windows sent "
    "afterwards by a window-respecting sender; "
    "family storm: role x initiator explicit|peer|alternate|threshold x 2-16 concurrent sender threads streaming on their own channels "
    "while 1-3 (thorough: up to 40) consecutive exchanges start x senders stalled 1-4 ms at the packetizer entry every 1-3 sends | "
    "free-running x interpreter switch interval default|5|50|500 us x record size 8|64|200 x 10-80 records per sender and round (<= 6000 per session); "
    "non-trivial = >= 2 senders and an exchange whose KEXINIT was written while records were going out"
)

WAIT = 12.0
CTS_TIMEOUT = 2.0  # clear_to_send_timeout on the tested transport: time scale only
SENTINEL = b"verif-sentinel@verif"

M_KINDS = [
    "data",
    "extdata",
    "window-adjust",
    "eof",
    "close",
    "chanreq:exec:0",
    "chanreq:exec:1",
    "chanreq:env:0",
    "chanreq:env:1",
    "chanreq:exit-status:0",
    "chanreq:exit-status:1",
    "chanreq:unknown:0",
    "chanreq:unknown:1",
    "open:accepted",
    "open:rejected",
    "open-confirm",
    "open-failure",
    "global:0",
    "global:1",
    "request-success",
    "request-failure",
    "channel-success",
    "channel-failure",
]
OP_KINDS = ["send", "stream", "global", "exec", "open", "fwd", "globalw", "rekey", "read"]
OP_ATS = ["kexinit", "newkeys"]  # when the queued operations are started: right after the tested side's KEXINIT / its NEWKEYS
WAITING_GLOBALS = ("fwd", "globalw")  # ops that wait for the peer's REQUEST_SUCCESS / FAILURE
PENDING_OPEN = ("open-confirm", "open-failure")  # M kinds answering an open the tested side has outstanding
MODES = ["explicit", "threshold", "crossing", "peer"]

# reply types that are due for an M kind (checked to be on the wire after NEWKEYS)
REPLY = {"close": (97,), "open:accepted": (91, 92), "open:rejected": (91, 92), "global:1": (81, 82)}


def reply_types(kind):
    if kind.startswith("chanreq:") and kind.endswith(":1"):
        return (99, 100)
    return REPLY.get(kind, ())


def build_m(kind, i, t_id, role):
    """payload bytes of the i-th in-flight message, addressed to T's channel t_id."""
    if kind == "data":
        return peers.m_channel_data(t_id, c10.pattern(11, i, 40 + i))
    if kind == "extdata":
        return peers.m_channel_ext_data(t_id, 1, c10.pattern(12, i, 30 + i))
    if kind == "window-adjust":
        return peers.m_window_adjust(t_id, 1000 + i)
    if kind == "eof":
        return peers.m_channel_eof(t_id)
    if kind == "close":
        return peers.m_channel_close(t_id)
    if kind.startswith("chanreq:"):
        _, name, wr = kind.split(":")
        wr = wr == "1"
        if name == "exec":
            return peers.m_channel_request(t_id, b"exec", wr, R.string(b"true"))
        if name == "env":
            return peers.m_channel_request(t_id, b"env", wr, R.string(b"A") + R.string(b"b"))
        if name == "exit-status":
            return peers.m_channel_request(t_id, b"exit-status", wr, R.u32(7 + i))
        return peers.m_channel_request(t_id, b"nothing@verif", wr)
    if kind == "open:accepted":
        if role == "server":
            return peers.m_channel_open(b"session", 1000 + i)
        return peers.m_channel_open(b"forwarded-tcpip", 1000 + i, rest=R.string(b"127.0.0.1") + R.u32(4242) + R.string(b"10.0.0.1") + R.u32(55555))
    if kind == "open:rejected":
        return peers.m_channel_open(b"nope@verif", 1000 + i)
    if kind == "open-confirm":
        return peers.m_channel_open_confirm(t_id, 2000 + i)
    if kind == "open-failure":
        return peers.m_channel_open_failure(t_id, 2, b"verif says no")
    if kind == "global:0":
        return peers.m_global_request(b"hello@verif", False)
    if kind == "global:1":
        return peers.m_global_request(b"hello@verif", True)
    if kind == "request-success":
        return peers.m_request_success()
    if kind == "request-failure":
        return peers.m_request_failure()
    if kind == "channel-success":
        return peers.m_channel_success(t_id)
    if kind == "channel-failure":
        return peers.m_channel_failure(t_id)
    raise core.HarnessError("unknown M kind %r" % kind)


class OpFailed(Exception):
    """a queued user operation came back with the wrong outcome (recorded in opres, judged by the oracle)"""


# Known open findings that would make every generated case containing the operation fail (and cost its isolation
# re-runs): excluded by construction while the entry is open; the committed replays demonstrate them in every run.
FINDING_OPS = {"op-lost|op:globalw": "globalw", "op-lost|op:fwd": "fwd", "session-died|op:rekey": "rekey"}


def excluded_ops():
    if os.environ.get("C11_ASSUME_FIXED"):
        # for runs against a scratch tree that carries the proposed fix
        return set()
    known = core.load_known(PROPERTY)
    return set(op for key, op in FINDING_OPS.items() if known.get(key, {}).get("status") == "open")


def open_refused(e, exact):
    """the outcome of an open_channel() call whose CHANNEL_OPEN_FAILURE crossed the exchange: the refusal reached the
    caller = the call failed with an SSHException that is not its own timeout. `exact` (this is the only refused open
    of the session): the failure is the ChannelException carrying the reason code the peer sent (2). With several
    refusals in flight the transport's single saved-exception slot may hand one ChannelException to the first caller
    and "Unable to open channel." to the next - which subclass a caller sees then is outside this property."""
    from paramiko.ssh_exception import ChannelException, SSHException

    if e is None or not isinstance(e, SSHException) or "Timeout opening channel" in str(e):
        return False
    if exact:
        return isinstance(e, ChannelException) and e.code == 2
    return True


def open_sender(payload):
    """sender channel id of a logged CHANNEL_OPEN (payload without the type byte)."""
    n = int.from_bytes(payload[:4], "big")
    return int.from_bytes(payload[4 + n : 8 + n], "big")


def _stack_of(t):
    fr = sys._current_frames().get(t.ident)
    if fr is None:
        return ""
    out = []
    for f in traceback.extract_stack(fr)[-6:]:
        out.append("%s:%s:%d" % (f.filename.rsplit("/", 1)[-1], f.name, f.lineno))
    return " > ".join(out)


_CACHE = {}


def execute_cached(case):
    """The replay tier and the enumeration of one process run identical cases: execute once."""
    h = core.case_hash(case)
    if h in _CACHE:
        return _CACHE.pop(h)
    return execute(case)


def execute(case):
    """Run one case. Returns dict(viol=[(clause, detail)], nontrivial=bool, info=dict)."""
    from paramiko.packet import Packetizer

    role, mode = case["role"], case["mode"]
    ms, ops = list(case["ms"]), list(case["ops"])
    bulk = case.get("bulk") or None
    link = net.Link()
    wire = c10.Wire(link)
    tkw = {}
    if mode == "threshold":
        # lowered thresholds only: the overflow allowances keep their defaults (2**29), so whatever the peer has in
        # flight when the tested side asks for new keys stays far below them
        tkw = dict(packetizer_class=c10.small_packetizer(Packetizer, case["rp"], case.get("rb") or Packetizer.REKEY_BYTES, Packetizer.REKEY_PACKETS_OVERFLOW_MAX, Packetizer.REKEY_BYTES_OVERFLOW_MAX))
    if bulk and role == "server":
        tkw["default_window_size"] = bulk["w"]
    policy = {
        "check_auth_password": peers.AUTH_SUCCESSFUL,
        "check_global_request": bool(case.get("greply", False)),
        "check_channel_request": lambda kind, chanid: peers.OPEN_SUCCEEDED if kind == "session" else peers.OPEN_FAILED_ADMINISTRATIVELY_PROHIBITED,
        "check_port_forward_request": lambda a, p: p or 4242,
    }
    if role == "client":
        link, tc, ts = peers.make_pair(client_kw=tkw, server_cls=peers.Puppet, link=link)
        T, P = tc, ts
        out_d, in_d = link.ab, link.ba
    else:
        link, tc, ts = peers.make_pair(client_cls=peers.Puppet, server_kw=tkw, link=link)
        T, P = ts, tc
        out_d, in_d = link.ba, link.ab
    viol = []
    info = {}
    threads = []
    opres = {}
    opexc = {}
    # harness-side instrumentation of the in-memory socket: count T's read timeouts (each one is
    # an opportunity for its keepalive timer to fire)
    import socket as _socket

    t_ep = link.a if role == "client" else link.b
    timeouts = [0]
    _recv = t_ep.recv

    def counting_recv(n):
        try:
            return _recv(n)
        except _socket.timeout:
            timeouts[0] += 1
            raise

    t_ep.recv = counting_recv
    try:
        T.clear_to_send_timeout = CTS_TIMEOUT
        ce, se = peers.start_both(tc, ts, peers.RecordingServer(policy))
        if ce or se:
            raise core.HarnessError("handshake failed: %r %r" % (ce, se))
        tc.auth_password("u", "pw")
        chans_c, chans_s = [], []
        for _ in range(4):
            chans_c.append(tc.open_session(timeout=WAIT))
            sc = ts.accept(WAIT)
            if sc is None:
                raise core.HarnessError("no channel accepted")
            chans_s.append(sc)
        if bulk:
            # 5th channel for the bulk stream P->T; the tested side's receive window is bulk["w"]
            chans_c.append(tc.open_session(window_size=bulk["w"], timeout=WAIT) if role == "client" else tc.open_session(timeout=WAIT))
            sc = ts.accept(WAIT)
            if sc is None:
                raise core.HarnessError("no channel accepted")
            chans_s.append(sc)
        chT = chans_c if role == "client" else chans_s
        chP = chans_s if role == "client" else chans_c
        for ch in chT:
            ch.settimeout(WAIT)
        kept = []  # forwarded channels must stay referenced (Channel.__del__ closes them)
        if role == "client" and "open:accepted" in ms:
            T.request_port_forward("127.0.0.1", 4242, handler=lambda ch, o, s: kept.append(ch))
        P.raw()
        if not link.wait_quiescent(WAIT):
            raise core.HarnessError("link not quiescent after setup")

        def dec_out():
            return wire.decode(tc, ts, only=out_d.name)[out_d.name]

        def n_type_out(ty):
            return sum(1 for r in dec_out() if r[3] == ty)

        def bg(name, fn):
            def w():
                try:
                    opres[name] = ("ok", fn())
                except Exception as e:  # judged by the oracle
                    opres[name] = ("exc", repr(e), type(e).__name__)
                    opexc[name] = e

            th = threading.Thread(target=w, daemon=True, name="c11-" + name)
            threads.append(th)
            th.start()
            return th

        def p_send(payload):
            """the puppet's connection-layer messages before the exchange under test: `Puppet.send_conn`, i.e. never
            between the puppet's own KEXINIT and its NEWKEYS (an exchange nobody asked for yet cannot be pending
            here for long; one that does not end is a harness problem at this point)"""
            try:
                return P.send_conn(payload, WAIT)
            except peers.NotSent as e:
                raise core.HarnessError("puppet could not send before the exchange under test: %s" % e)

        def p_send_after(payload):
            """the same after the exchange under test (sentinel, answers to the queued operations): the tested side
            may have started the next exchange already (lowered thresholds, counted in both directions); if that
            one does not end within WAIT nothing is written and the oracle sees the missing round trip"""
            try:
                P.send_conn(payload, WAIT)
                return True
            except (EOFError, OSError, peers.NotSent) as e:
                info.setdefault("not_sent", []).append(repr(e))
                return False

        def t_open():
            if role == "client":
                return T.open_session(timeout=WAIT)
            return T.open_channel("forwarded-tcpip", ("127.0.0.1", 4242), ("10.0.0.1", 55555), timeout=WAIT)

        def logged_opens(lg):
            return [e for e in lg if e[1] == 90]

        # channel opens of the tested side that are outstanding when the exchange starts (the mute
        # puppet has logged the CHANNEL_OPEN; its answer is the in-flight message)
        t_ids = [ch.get_id() for ch in chT]
        n_pre = 0
        for i, kind in enumerate(ms):
            if kind in PENDING_OPEN:
                bg("pre-open:%d" % i, t_open)
                o = P.wait_log(lambda lg: logged_opens(lg)[n_pre:], WAIT)
                if not o:
                    raise core.HarnessError("CHANNEL_OPEN of the tested side not seen")
                t_ids[i] = open_sender(o[0][2])
                n_pre += 1
        kx0 = n_type_out(20)
        nk0 = n_type_out(21)
        if case["ka"]:
            T.set_keepalive(0.05)
        # ---- 2. M in flight (held)
        in_d.set_hold(True)
        m_index = []
        for i, kind in enumerate(ms):
            m_index.append(len(in_d.sent))
            p_send(build_m(kind, i, t_ids[i], role))
        # bulk stream: an eager sender has filled `fill` percent of the tested side's receive window when the exchange
        # starts (all of it in flight behind M), and goes on as fast as the window allows afterwards
        bst = dict(sent=0, got=0, pk=0, total=0, adj=0, cont_at=None)
        if bulk:
            b_w, b_size = bulk["w"], bulk["size"]
            b_fly = b_w * bulk["fill"] // 100
            bst["total"] = b_fly + b_w * bulk["more"] // 4
            b_tid, b_pid = chT[4].get_id(), chP[4].get_id()

            def bulk_send(n):
                while n > 0:
                    k = min(b_size, n)
                    P.send_conn(peers.m_channel_data(b_tid, c10.pattern(40, bst["sent"], k)), WAIT)
                    bst["sent"] += k
                    bst["pk"] += 1
                    n -= k

            try:
                bulk_send(b_fly)
            except peers.NotSent as e:
                raise core.HarnessError("puppet could not send before the exchange under test: %s" % e)
        n_held = len(ms) + bst["pk"]
        info["bulk_packets_in_flight"] = bst["pk"]
        if not in_d.wait_pending(n_held, WAIT):
            raise core.HarnessError("M not pending")

        # ---- 3. trigger

        stream_n = 40

        def op_stream():
            for k in range(stream_n):
                chT[3].send(c10.pattern(21, k, 8))
            return stream_n

        if "stream" in ops:
            bg("op:stream", op_stream)  # already running when the exchange starts (race coverage)
        if mode in ("crossing", "peer"):
            bg("P-renegotiate", P.renegotiate_keys)
            if not in_d.wait_pending(n_held + 1, WAIT):
                raise core.HarnessError("puppet KEXINIT not pending")
        if mode in ("explicit", "crossing"):
            bg("T-renegotiate", T.renegotiate_keys)
        elif mode == "threshold":
            n = 0
            from paramiko.ssh_exception import SSHException

            while not T.packetizer.need_rekey():  # pacing via the public accessor
                try:
                    T.send_ignore(4)
                except SSHException:
                    # T's own keepalives crossed the threshold first and the exchange is already
                    # running (held): this harness send was gated like any user message
                    if n_type_out(20) > kx0:
                        break
                    raise
                n += 1
                if n > 10 * case["rp"]:
                    raise core.HarnessError("threshold never reached")
        elif mode == "peer":
            # M and the puppet's KEXINIT reach T first; T's KEXINIT is its answer
            wire.mark("release-M")
            in_d.set_frag(case.get("frag"))
            in_d.release(n_held + 1)
        end = time.time() + WAIT
        while time.time() < end and T.is_active() and n_type_out(20) <= kx0:
            time.sleep(0.005)
        if n_type_out(20) <= kx0:
            viol.append(("session-died", "no KEXINIT from the tested side within %.0f s (active=%s, exc=%r)" % (WAIT, T.is_active(), T.get_exception())))
            return dict(viol=viol, nontrivial=False, info=info)
        wire.mark("kexinit-seen")

        # ---- 4. user operations now have to queue behind the exchange
        def op_globalw():
            if T.global_request("opw@verif", wait=True) is None:
                raise OpFailed("global_request(wait=True) returned None (= denied) although the peer answers REQUEST_SUCCESS")
            return True

        def op_read():
            # the application reads the bulk stream (recv calls of bulk["chunk"] bytes) until all of it has arrived
            ch = chT[4]
            buf = []
            n = 0
            total = bst["total"]
            try:
                while n < total:
                    x = ch.recv(min(bulk["chunk"], total - n))
                    if not x:
                        break
                    buf.append(x)
                    n += len(x)
                    bst["got"] = n
            except _socket.timeout:
                pass
            if b"".join(buf) != c10.pattern(40, 0, total):
                raise OpFailed("bulk stream: reader got %d of %d bytes (%s) and then nothing for %.0f s" % (n, total, "a prefix" if c10.pattern(40, 0, total).startswith(b"".join(buf)) else "CONTENT DIFFERS", WAIT))
            return n

        def reader_settled(limit=1.0):
            """pacing: the reader has taken what is buffered (or sits in a call that does not return)"""
            end = time.time() + limit
            last, t_last = -1, time.time()
            while time.time() < end and T.is_active():
                if bst["got"] >= bst["sent"]:
                    return
                if bst["got"] != last:
                    last, t_last = bst["got"], time.time()
                elif in_d.idle() and time.time() - t_last > 0.04:
                    return
                time.sleep(0.003)

        def start_ops():
            if "read" in ops and bulk:
                bg("op:read", op_read)
            if "send" in ops:
                bg("op:send", lambda: chT[3].send(c10.pattern(22, 0, 33)))
            if "global" in ops:
                bg("op:global", lambda: T.global_request("op@verif", wait=False))
            if "exec" in ops:
                bg("op:exec", lambda: chT[2 if len(ms) < 3 else 3].exec_command("true"))
            if "open" in ops:
                bg("op:open", t_open)
            if "fwd" in ops:
                bg("op:fwd", lambda: T.request_port_forward("127.0.0.1", 4243))
            if "globalw" in ops:
                bg("op:globalw", op_globalw)
            if "rekey" in ops:
                # the application asks for new keys while an exchange is already under way on this side
                bg("op:rekey", T.renegotiate_keys)

        op_at = case.get("op_at", "kexinit")
        if op_at == "kexinit":
            start_ops()
        t_hold = time.time()
        to0 = timeouts[0]
        if case["hold_ms"]:
            time.sleep(case["hold_ms"] / 1000.0)
        if case["ka"]:
            # keep the exchange waiting until T's reader has timed out twice with the keepalive
            # interval (0.05 s) long expired: the keepalive is then due *inside* the exchange
            end = time.time() + WAIT
            while time.time() < end and T.is_active() and timeouts[0] < to0 + 2:
                if not T.clear_to_send.is_set() and "_send_user_message" in _stack_of(T):
                    break  # transport thread already stuck
                time.sleep(0.01)
        info["held_s"] = round(time.time() - t_hold, 3)
        info["timeouts_in_hold"] = timeouts[0] - to0
        if mode != "peer":
            wire.mark("release-M")
            in_d.set_frag(case.get("frag"))
            in_d.release(n_held)
        if bulk and "read" in ops and op_at == "kexinit":
            reader_settled()
        if op_at == "newkeys":
            # last step of the exchange: the peer's packets are let through one at a time until the tested side's
            # NEWKEYS is on the wire; the peer's NEWKEYS stays held while the user operations are started
            end = time.time() + WAIT
            while time.time() < end and T.is_active() and n_type_out(21) <= nk0:
                if in_d.n_pending():
                    wire.mark("release")
                    in_d.release(1)
                t1 = time.time() + 0.05
                while time.time() < t1 and not (in_d.idle() and out_d.idle()):
                    time.sleep(0.002)
            in_d.wait_pending(1, 1.0)
            info["late_window"] = bool(n_type_out(21) > nk0 and in_d.n_pending() >= 1 and not T.clear_to_send.is_set())
            start_ops()
            time.sleep(max(case["hold_ms"], 20) / 1000.0)
            if bulk and "read" in ops:
                reader_settled()
        for n in case["sched"]:
            end = time.time() + 0.05
            while time.time() < end and not in_d.idle():
                time.sleep(0.002)
            in_d.wait_pending(1, 0.05)
            wire.mark("release")
            in_d.release(n)
        in_d.set_hold(False)
        # ---- completion
        stack = ""
        end = time.time() + WAIT
        t_stack = time.time() + 0.5
        while time.time() < end and T.is_active() and P.is_active():
            if T.clear_to_send.is_set() and P.clear_to_send.is_set() and n_type_out(21) > nk0 and link.quiescent():
                break
            if not stack and time.time() > t_stack and not T.clear_to_send.is_set():
                stack = _stack_of(T)
            time.sleep(0.005)
        info["stack"] = stack
        n_glob = sum(1 for k in ms if k == "global:1")
        if T.is_active() and P.is_active():
            seen = len(P.log)
            p_send_after(peers.m_global_request(SENTINEL, True))

            def got(lg):
                if sum(1 for e in lg if e[1] in (81, 82)) >= n_glob + 1 and any(e[1] in (81, 82) for e in lg[seen:]):
                    return "reply"
                if not T.is_active():
                    return "dead"
                return None

            info["sentinel"] = P.wait_log(got, WAIT)
        # exec op: answer the request once it shows up (after the exchange)
        if "exec" in ops and T.is_active():
            ex_ch = chT[2 if len(ms) < 3 else 3]
            p_id = chP[2 if len(ms) < 3 else 3].get_id()
            o = P.wait_log(lambda lg: any(e[1] == 98 and e[2][:4] == R.u32(p_id) for e in lg), WAIT)
            if o:
                p_send_after(peers.m_channel_success(ex_ch.get_id()))
        # channel open / waiting global requests: answered once they show up (after the exchange)
        if "open" in ops and T.is_active():
            o = P.wait_log(lambda lg: logged_opens(lg)[n_pre:], WAIT)
            if o:
                p_send_after(peers.m_channel_open_confirm(open_sender(o[0][2]), 3000))
        for opk, rname in (("fwd", b"tcpip-forward"), ("globalw", b"opw@verif")):
            if opk in ops and T.is_active():
                if P.wait_log(lambda lg: any(e[1] == 80 and e[2].startswith(R.string(rname)) for e in lg), WAIT):
                    p_send_after(peers.m_request_success())
        if bulk and T.is_active() and P.is_active():
            # the transfer continues: the sender writes whenever the window the tested side has granted allows it
            bst["cont_at"] = len(in_d.sent)
            if "read" not in ops:
                bg("bulk:read", op_read)
            t_prog = time.time()
            try:
                while bst["sent"] < bst["total"] and T.is_active() and time.time() - t_prog < WAIT:
                    bst["adj"] = sum(int.from_bytes(e[2][4:8], "big") for e in list(P.log) if e[1] == 93 and e[2][:4] == R.u32(b_pid))
                    credit = b_w + bst["adj"] - bst["sent"]
                    if credit > 0:
                        bulk_send(min(credit, bst["total"] - bst["sent"]))
                        t_prog = time.time()
                    else:
                        time.sleep(0.002)
            except (EOFError, OSError):
                pass
            except peers.NotSent as e:
                # a later exchange (lowered thresholds: the stream itself makes the tested side ask again) that does
                # not end: the transfer cannot go on, reported by the op-lost clause below
                info.setdefault("not_sent", []).append(repr(e))
            info["bulk"] = dict(sent=bst["sent"], total=bst["total"], window=b_w, adjusted=bst["adj"])
        for th in threads:
            th.join(WAIT)
        hung = [th.name for th in threads if th.is_alive()]
        info["gaps"] = in_d.gaps
        # ---- application-level delivery of M
        delivered = {}
        if T.is_active():
            for i, kind in enumerate(ms):
                ch = chT[i]
                ch.settimeout(3.0)
                try:
                    if kind == "data":
                        delivered[i] = ch.recv(100) == c10.pattern(11, i, 40 + i)
                    elif kind == "extdata":
                        delivered[i] = ch.recv_stderr(100) == c10.pattern(12, i, 30 + i)
                    elif kind.startswith("chanreq:exit-status"):
                        delivered[i] = ch.exit_status_ready() and ch.recv_exit_status() == 7 + i
                    elif kind == "eof":
                        delivered[i] = ch.recv(10) == b""
                    elif kind in PENDING_OPEN:
                        res = opres.get("pre-open:%d" % i)
                        if res is None:
                            ok = False
                        elif kind == "open-confirm":
                            ok = res[0] == "ok"
                        else:
                            ok = open_refused(opexc.get("pre-open:%d" % i), exact=ms.count("open-failure") == 1)
                        delivered[i] = ok or "open_channel outcome %r" % (res,)
                except Exception as e:
                    delivered[i] = "exc %r" % (e,)
        alive = (T.is_active(), P.is_active())
        t_exc = T.get_exception() if not alive[0] else None
        if t_exc is None and opres.get("T-renegotiate", ("", ""))[0] == "exc":
            t_exc = "(raised by renegotiate_keys) " + opres["T-renegotiate"][1]
        snap = wire.snapshot()
        p_ids = [c.get_id() for c in chP]
    finally:
        in_d.set_hold(False)
        peers.shutdown(tc, ts)
        for th in threads:
            th.join(5)
    # ---- oracle
    ev = snap[0]
    try:
        dec = wire.decode(tc, ts, snap)
    except R.RefError as e:
        viol.append(("session-died", "wire-undecodable: %s" % e))
        return dict(viol=viol, nontrivial=False, info=info)
    rows = dec[out_d.name]
    rows_in = dec[in_d.name]
    # M really is what sits at the recorded positions of the P->T stream
    for i, kind in enumerate(ms):
        pl = build_m(kind, i, t_ids[i], role)
        r = rows_in[m_index[i] - 1] if m_index[i] - 1 < len(rows_in) else None
        if r is None or bytes([r[3]]) + r[4] != pl:
            raise core.HarnessError("M %d not found at its recorded position" % i)
    kx = [r for r in rows if r[3] == 20][kx0:]
    g_kx = kx[0][0] if kx else None
    later = [r for r in rows if g_kx is not None and r[0] > g_kx]
    g_nk = next((r[0] for r in later if r[3] == 21), None)
    window = [r for r in later if g_nk is None or r[0] < g_nk]
    after = [r for r in later if g_nk is not None and r[0] > g_nk]
    g_rel = next((g for g, e in enumerate(ev) if e == ("mark", "release-M")), None)
    nontrivial = bool(ms or bulk) and g_kx is not None and g_rel is not None and g_kx < g_rel and (g_nk is None or g_rel < g_nk)
    if case["ka"] and info.get("timeouts_in_hold", 0) >= 1:
        nontrivial = True
    info["window_types"] = [r[3] for r in window]
    foreign = [r for r in window if not (1 <= r[3] <= 49)]
    if foreign:
        viol.append(("foreign-type-in-kex", "types %r sent between KEXINIT and %s (first payload %s)" % ([r[3] for r in foreign], "NEWKEYS" if g_nk is not None else "end of log (no NEWKEYS)", foreign[0][4][:24].hex())))
    if alive != (True, True) or g_nk is None or info.get("sentinel") != "reply":
        viol.append(
            (
                "session-died",
                "active(T,P)=%r T exception=%r NEWKEYS sent=%s sentinel=%r; transport thread while the exchange was pending: %s"
                % (alive, t_exc, g_nk is not None, info.get("sentinel"), info.get("stack") or "-"),
            )
        )
    else:
        lost = []
        for i, kind in enumerate(ms):
            rt = reply_types(kind)
            if rt:
                if kind.startswith("open:"):
                    match = [r for r in rows if r[0] > g_rel and r[3] in rt and r[4][:4] == R.u32(1000 + i)]
                elif kind == "global:1":
                    match = [r for r in rows if r[0] > g_rel and r[3] in rt]
                else:
                    match = [r for r in rows if r[0] > g_rel and r[3] in rt and r[4][:4] == R.u32(p_ids[i])]
                if not match:
                    lost.append("reply %r to M[%d]=%s never sent" % (rt, i, kind))
            if delivered.get(i) not in (None, True):
                lost.append("payload of M[%d]=%s not delivered to the application (%r)" % (i, kind, delivered.get(i)))
        for name in ["op:" + k for k in OP_KINDS]:
            if name[3:] in ops:
                res = opres.get(name)
                if res is None or res[0] != "ok":
                    lost.append("%s did not complete: %r" % (name, res))
        if "send" in ops and not any(r[3] == 94 and r[4][:4] == R.u32(p_ids[3]) and r[4][8:] == c10.pattern(22, 0, 33) for r in after):
            lost.append("op:send data not on the wire after NEWKEYS")
        if "stream" in ops:
            got = b"".join(r[4][8:] for r in rows if r[3] == 94 and r[4][:4] == R.u32(p_ids[3]) and not (r[4][8:] == c10.pattern(22, 0, 33)))
            want = b"".join(c10.pattern(21, k, 8) for k in range(40))
            if got != want:
                lost.append("op:stream data on the wire differs (%d of %d bytes)" % (len(got), len(want)))
        if "global" in ops and not any(r[3] == 80 and r[4].startswith(R.string(b"op@verif")) for r in after):
            lost.append("op:global request not on the wire after NEWKEYS")
        if "open" in ops and not any(r[3] == 90 for r in after):
            lost.append("op:open CHANNEL_OPEN not on the wire after NEWKEYS")
        for opk, rname in (("fwd", b"tcpip-forward"), ("globalw", b"opw@verif")):
            if opk in ops and not any(r[3] == 80 and r[4].startswith(R.string(rname)) for r in after):
                lost.append("op:%s request not on the wire after NEWKEYS" % opk)
        if bulk:
            res = opres.get("op:read" if "read" in ops else "bulk:read")
            if res is None or res[0] != "ok":
                bi = info.get("bulk", {})
                lost.append(
                    "bulk stream P->T did not continue after the exchange: %r; sender wrote %s of %s bytes and %s (window %s + %s bytes of WINDOW_ADJUST seen)"
                    % (res, bi.get("sent"), bi.get("total"), "waited for an exchange that did not end: %r" % info["not_sent"] if info.get("not_sent") else "has no window left", bi.get("window"), bi.get("adjusted"))
                )
            # evidence: a WINDOW_ADJUST of the bulk channel that was written after NEWKEYS and before the sender went on
            g_cont = rows_in[bst["cont_at"] - 1][0] if bst["cont_at"] is not None and bst["cont_at"] - 1 < len(rows_in) else None
            info["adjust_queued_behind_exchange"] = any(r[3] == 93 and r[4][:4] == R.u32(p_ids[4]) and (g_cont is None or r[0] < g_cont) for r in after)
        if hung:
            lost.append("threads still blocked: %r" % hung)
        if lost:
            viol.append(("op-lost", "; ".join(lost)))
    return dict(viol=viol, nontrivial=nontrivial, info=info)


# ----------------------------------------------------------------------------- concurrent senders ("storm" family)


class StallCtl:
    """Schedule control at a public boundary: the tested transport runs `Transport(packetizer_class=...)` with a
    Packetizer subclass whose send_message() first calls `enter()`. For the harness' sender threads every `every`-th
    call sleeps `ms` milliseconds there, i.e. the thread is descheduled after the transport has decided to send the
    message and before the packetizer has taken it (nothing else changes: the same bytes are written afterwards)."""

    def __init__(self, plan, wire):
        self.ms = (plan or {}).get("ms", 0)
        self.every = max(1, (plan or {}).get("every", 1))
        self.on = bool(plan) and self.ms > 0
        self.calls = {}
        self.stalls = 0
        self.wire = wire

    def enter(self):
        if not self.on:
            return
        name = threading.current_thread().name
        if not name.startswith("c11-snd-"):
            return
        n = self.calls[name] = self.calls.get(name, 0) + 1
        if n % self.every == 0:
            self.stalls += 1
            time.sleep(self.ms / 1000.0)


def storm_packetizer(base, ctl, consts):
    def send_message(self, data):
        ctl.enter()
        return base.send_message(self, data)

    return type("StormPacketizer", (base,), dict(consts, send_message=send_message))


STORM_CAP = 6000  # records per session (keeps the 2 MiB channel window of the mute puppet open and the wire log small)


def execute_storm(case):
    """n user threads stream numbered records on n channels of the tested side while `rounds` re-exchanges are run
    one after the other (initiator per round: "explicit" = T.renegotiate_keys(), "peer" = the puppet's; or
    mode "threshold": the streams themselves cross REKEY_PACKETS again and again). Returns like execute()."""
    from paramiko.packet import Packetizer

    role, n = case["role"], case["senders"]
    rounds = list(case["rounds"])
    rec = case["rec"]
    link = net.Link()
    wire = c10.Wire(link)
    ctl = StallCtl(case.get("stall"), wire)
    consts = {}
    if case.get("rp"):
        consts = dict(REKEY_PACKETS=case["rp"])
    tkw = dict(packetizer_class=storm_packetizer(Packetizer, ctl, consts))
    policy = {"check_auth_password": peers.AUTH_SUCCESSFUL, "check_global_request": False}
    if role == "client":
        link, tc, ts = peers.make_pair(client_kw=tkw, server_cls=peers.Puppet, link=link)
        T, P = tc, ts
        out_d, in_d = link.ab, link.ba
    else:
        link, tc, ts = peers.make_pair(client_cls=peers.Puppet, server_kw=tkw, link=link)
        T, P = ts, tc
        out_d, in_d = link.ba, link.ab
    viol = []
    info = {}
    threads = []
    sent = [0] * n
    errs = {}
    stop = threading.Event()
    old_switch = sys.getswitchinterval()
    try:
        T.clear_to_send_timeout = CTS_TIMEOUT
        ce, se = peers.start_both(tc, ts, peers.RecordingServer(policy))
        if ce or se:
            raise core.HarnessError("handshake failed: %r %r" % (ce, se))
        tc.auth_password("u", "pw")
        chans_c, chans_s = [], []
        for _ in range(n):
            chans_c.append(tc.open_session(timeout=WAIT))
            sc = ts.accept(WAIT)
            if sc is None:
                raise core.HarnessError("no channel accepted")
            chans_s.append(sc)
        chT = chans_c if role == "client" else chans_s
        chP = chans_s if role == "client" else chans_c
        p_ids = [c.get_id() for c in chP]
        P.raw()
        if not link.wait_quiescent(WAIT):
            raise core.HarnessError("link not quiescent after setup")
        base_sent = len(out_d.sent)

        burst = threading.Event()  # explicit / peer rounds: the streams run around the start of every exchange
        t_end = [None]

        round_no = [0]
        quota = case.get("quota") or STORM_CAP

        def sender(j):
            ch = chT[j]
            cap = min(max(200, STORM_CAP // n), 1000000 // rec)
            my_round, my_count = -1, 0
            try:
                while sent[j] < cap and not stop.is_set():
                    if not burst.wait(0.05):
                        continue
                    if t_end[0] is not None and time.time() > t_end[0]:
                        break
                    if my_round != round_no[0]:
                        my_round, my_count = round_no[0], 0
                    if my_count >= quota:
                        time.sleep(0.001)  # this round's records are out: wait for the next exchange
                        continue
                    ch.sendall(c10.pattern(30 + j, sent[j] * rec, rec))
                    sent[j] += 1
                    my_count += 1
            except Exception as e:  # judged by the oracle
                errs[j] = repr(e)

        if case.get("switch_us"):
            sys.setswitchinterval(case["switch_us"] / 1e6)
        for j in range(n):
            th = threading.Thread(target=sender, args=(j,), daemon=True, name="c11-snd-%d" % j)
            threads.append(th)
        for th in threads:
            th.start()
        if case["mode"] == "threshold":
            # the streams themselves cross REKEY_PACKETS again and again for dur_ms (pacing only)
            t_end[0] = time.time() + case.get("dur_ms", 400) / 1000.0
            burst.set()

        def p_newkeys():
            return sum(1 for e in list(P.packetizer.sent_log) if e[1] == 21)

        def n_replies():
            return sum(1 for e in list(P.log) if e[1] in (81, 82))

        def barrier(k_newkeys, why):
            """both sides have finished the exchange: the puppet's NEWKEYS is out and a round trip started after it
            has come back (the tested side's answer follows its own NEWKEYS on the wire)."""
            end = time.time() + WAIT
            while time.time() < end and T.is_active() and P.is_active() and not (p_newkeys() >= k_newkeys and P.clear_to_send.is_set()):
                time.sleep(0.002)
            if p_newkeys() < k_newkeys or not P.clear_to_send.is_set() or not (T.is_active() and P.is_active()):
                return "%s: exchange not finished by the peer (its NEWKEYS: %d of %d; active(T,P)=%r)" % (why, p_newkeys(), k_newkeys, (T.is_active(), P.is_active()))
            r0 = n_replies()
            try:
                # never inside an exchange of the puppet's own (mode "threshold": the streams may have made the tested
                # side ask for the next one between the test above and this write)
                P.send_conn(peers.m_global_request(SENTINEL, True), WAIT)
            except (EOFError, OSError, peers.NotSent) as e:
                return "%s: sentinel not sent: %r" % (why, e)
            got = P.wait_log(lambda lg: sum(1 for e in lg if e[1] in (81, 82)) > r0 or not T.is_active(), WAIT)
            if n_replies() <= r0:
                return "%s: sentinel round trip after the exchange not answered (active(T,P)=%r)" % (why, (T.is_active(), P.is_active()))
            return None

        problem = None
        nk = p_newkeys()
        done_rounds = 0
        for r, init in enumerate(rounds):
            res = {}

            def go(t=(T if init == "explicit" else P)):
                try:
                    t.renegotiate_keys()
                    res["ok"] = True
                except Exception as e:  # judged by the oracle
                    res["exc"] = repr(e)

            round_no[0] += 1
            burst.set()
            out_d.wait_sent(len(out_d.sent) + n, 0.5)  # every stream is writing again
            th = threading.Thread(target=go, daemon=True, name="c11-init")
            threads.append(th)
            th.start()
            th.join(WAIT)
            burst.clear()
            if not res.get("ok"):
                problem = "round %d (%s): renegotiate_keys() %s" % (r, init, res.get("exc", "did not return within %.0f s" % WAIT))
                break
            nk += 1
            problem = barrier(nk, "round %d (%s)" % (r, init))
            if problem:
                break
            done_rounds += 1
        if case["mode"] == "threshold" and problem is None:
            # the streams drive the exchanges themselves: let them run out
            end = time.time() + 2 * WAIT
            for th in threads:
                th.join(max(0.0, end - time.time()))
        stop.set()
        burst.set()
        for th in threads:
            th.join(WAIT)
        hung = [th.name for th in threads if th.is_alive()]
        if problem is None and T.is_active() and P.is_active():
            # nothing pending any more (pacing), then a last round trip
            end = time.time() + WAIT
            while time.time() < end and T.is_active() and P.is_active():
                if T.clear_to_send.is_set() and P.clear_to_send.is_set() and not T.packetizer.need_rekey() and link.quiescent():
                    break
                time.sleep(0.005)
            problem = barrier(p_newkeys(), "final")
        info["stalls"] = ctl.stalls
        info["rounds_done"] = done_rounds
        alive = (T.is_active(), P.is_active())
        t_exc = T.get_exception() if not alive[0] else None
        snap = wire.snapshot()
    finally:
        sys.setswitchinterval(old_switch)
        stop.set()
        peers.shutdown(tc, ts)
        for th in threads:
            th.join(5)
    # ---- oracle on the independent decode of everything the tested side wrote
    try:
        dec = wire.decode(tc, ts, snap)
    except R.RefError as e:
        viol.append(("session-died", "wire-undecodable: %s; %s" % (e, problem)))
        return dict(viol=viol, nontrivial=False, info=info)
    rows = dec[out_d.name]
    foreign = []
    exchanges = 0
    active = 0  # exchanges with stream records on the wire before the KEXINIT and after the NEWKEYS
    in_kex = False
    first = True
    kx_g, nk_g = [], []
    for g, ep, seq, ty, pl, ln in rows:
        if ty == 20:
            if first:
                first = False  # the initial exchange
                in_kex = None
            else:
                in_kex = True
                kx_g.append(g)
        elif ty == 21:
            if in_kex:
                exchanges += 1
                nk_g.append(g)
            in_kex = False
        elif in_kex and not (1 <= ty <= 49):
            foreign.append((g, ty, pl[:12].hex()))
    data_g = [r[0] for r in rows if r[3] == 94]
    for a, b in zip(kx_g, nk_g):
        # stream records were being written right up to this KEXINIT and the streams went on after the NEWKEYS
        if any(a - 60 < g < a for g in data_g) and any(g > b for g in data_g):
            active += 1
    info["exchanges"] = exchanges
    info["active_exchanges"] = active
    if foreign:
        viol.append(("foreign-type-in-kex", "%d message(s) of types %r written between a KEXINIT and the following NEWKEYS of the tested side (first: type %d payload %s); %d sender threads, %d exchanges" % (len(foreign), sorted(set(f[1] for f in foreign)), foreign[0][1], foreign[0][2], n, exchanges)))
    if alive != (True, True) or problem is not None or in_kex:
        viol.append(("session-died", "active(T,P)=%r T exception=%r; %s; exchanges completed on the wire: %d; exchange open at the end: %s" % (alive, t_exc, problem or "-", exchanges, bool(in_kex))))
    else:
        lost = []
        for j in range(n):
            got = b"".join(r[4][8:] for r in rows if r[3] == 94 and r[4][:4] == R.u32(p_ids[j]))
            want = c10.pattern(30 + j, 0, sent[j] * rec)
            if got != want and got != c10.pattern(30 + j, 0, (sent[j] + 1) * rec):
                lost.append("stream %d: %d bytes on the wire, %d sent by the application (%s)" % (j, len(got), len(want), "prefix" if want.startswith(got) else "content differs"))
            if j in errs:
                lost.append("sender %d failed: %s" % (j, errs[j]))
        if hung:
            lost.append("threads still blocked: %r" % hung)
        if case["mode"] != "threshold" and exchanges < len(rounds):
            lost.append("%d of %d requested exchanges seen on the wire" % (exchanges, len(rounds)))
        if lost:
            viol.append(("op-lost", "; ".join(lost[:6])))
    info["records"] = sum(sent)
    return dict(viol=viol, nontrivial=bool(n >= 2 and active >= 1), info=info)


def storm_case(role, mode="alternate", senders=4, k=2, stall=None, switch_us=0, rec=64, rp=0, dur_ms=0, quota=40):
    rounds = {"explicit": ["explicit"] * k, "peer": ["peer"] * k, "alternate": (["explicit", "peer"] * k)[:k], "threshold": []}[mode]
    return dict(family="storm", role=role, mode=mode, senders=senders, rounds=rounds, stall=stall, switch_us=switch_us, rec=rec, rp=rp if mode == "threshold" else 0, dur_ms=dur_ms if mode == "threshold" else 0, quota=0 if mode == "threshold" else quota)


@st.composite
def storm_cases(draw, big=False):
    mode = draw(st.sampled_from(["explicit", "peer", "alternate", "alternate", "threshold"]))
    stall = draw(st.sampled_from([0, 0, 1, 1, 1] if not big else [0, 0, 0, 1]))
    senders = draw(st.integers(2, 6)) if stall else draw(st.sampled_from([4, 8, 12, 16]))
    k = draw(st.integers(1, 3)) if not big else (draw(st.integers(1, 4)) if stall else draw(st.integers(8, 40)))
    return storm_case(
        draw(st.sampled_from(["client", "server"])),
        mode,
        senders,
        k,
        dict(ms=draw(st.sampled_from([1, 2, 4])), every=draw(st.integers(1, 3))) if stall else None,
        draw(st.sampled_from([0, 0, 5, 50, 500])),
        draw(st.sampled_from([8, 64, 200])),
        draw(st.integers(30, 60)),
        draw(st.sampled_from([300, 450])),
        draw(st.sampled_from([10, 40, 80] if stall or not big else [10, 20, 40])),
    )


def storm_classes(case, r):
    i = r["info"]
    cls = ["storm", "role:" + case["role"], "storm:init:" + case["mode"], "storm:senders:%d" % case["senders"], "storm:" + ("stalled-at-packetizer-entry" if case.get("stall") else "free-running")]
    cls += ["storm:switch-interval-us:%d" % case.get("switch_us", 0), "storm:exchanges:%d" % min(i.get("exchanges", 0), 10)]
    if i.get("active_exchanges"):
        cls.append("storm:exchange-started-under-streaming-senders")
        cls.append("storm:%s:%s:exchange-under-senders" % (case["mode"], "stalled" if case.get("stall") else "free"))
    cls.append("nontrivial" if r["nontrivial"] else "trivial")
    return cls


STORM_BUCKET = "concurrent-senders"
WIRE_FACTS = ("foreign-type-in-kex",)  # read off the recorded wire by the independent decoder: no timing inference involved


def stalled_variant(case):
    """the same session with the senders descheduled at the packetizer entry: turns a rare interleaving into a
    (nearly) deterministic one, so that the committed replay reproduces"""
    if case.get("stall"):
        return None
    v = dict(case, stall=dict(ms=2, every=1), switch_us=0, senders=min(case["senders"], 4), rounds=list(case["rounds"])[:2])
    if case["mode"] == "threshold":
        v["dur_ms"] = 400
    return v


def judge_storm(ctx, case, r, known, record=True):
    if record:
        ctx.case(case, r["nontrivial"], storm_classes(case, r))
    for clause, detail in r["viol"]:
        sig = "%s|%s" % (clause, STORM_BUCKET)
        if sig in known:
            ctx.violation(clause, STORM_BUCKET, case, detail)
            continue
        if ctx.out_of_time():
            ctx.inconc("failing-case-not-isolated(budget)")
            continue
        rep = None
        v = stalled_variant(case)
        if v is not None:
            rv = execute_storm(v)
            ctx.count("storm:rerun-with-stalled-senders")
            hit = [x for x in rv["viol"] if x[0] == clause]
            if hit and (clause in WIRE_FACTS or any(x[0] == clause for x in execute_storm(v)["viol"])):
                rep = (v, hit[0][1] + " [first seen free-running: %s]" % detail[:200])
        if rep is None:
            if clause in WIRE_FACTS:
                rep = (case, detail)
            else:
                # liveness verdicts are timing engines' verdicts: two confirming re-runs
                if all(any(x[0] == clause for x in execute_storm(case)["viol"]) for _ in range(2)):
                    rep = (case, detail)
        if rep is None:
            ctx.inconc("unconfirmed:" + sig)
            continue
        ctx.violation(clause, STORM_BUCKET, rep[0], rep[1])


# ----------------------------------------------------------------------------- reporting


def components(case):
    out = [("m", k) for k in case["ms"]] + [("op", k) for k in case["ops"]]
    if case["ka"]:
        out.append(("ka", "keepalive"))
    if case.get("bulk"):
        out.append(("bulk", "bulk-stream"))
    return out


def comp_name(c):
    return {"m": c[1], "op": "op:" + c[1], "ka": "keepalive", "bulk": "bulk-stream"}[c[0]]


def single(case, comp):
    base = dict(case, ms=[], ops=[], ka=False, sched=[1], bulk=None)
    if comp[0] == "m":
        base["ms"] = [comp[1]]
    elif comp[0] == "op":
        base["ops"] = [comp[1]]
        if comp[1] == "read":
            base["bulk"] = case.get("bulk")  # the reader reads the bulk stream
    elif comp[0] == "bulk":
        base["bulk"] = case.get("bulk")
    else:
        base["ka"] = True
        base["hold_ms"] = max(case["hold_ms"], 350)
    return base


def normalise(case):
    case = dict(case)
    ops = list(case["ops"])
    if case["role"] == "server":
        ops = [o for o in ops if o not in ("exec", "fwd")]
    if "fwd" in ops:
        # one outstanding waiting global request at a time (replies are matched by order, RFC 4254 section 4)
        ops = [o for o in ops if o != "globalw"]
    if any(k in ("request-success", "request-failure") for k in case["ms"]):
        # an unsolicited reply in flight would be taken - correctly - as the answer to the queued request
        ops = [o for o in ops if o not in WAITING_GLOBALS]
    b = case.get("bulk") or None
    if b:
        # bulk stream P->T: receive window of the tested side, packet size, percentage of the window in flight when the
        # exchange starts, size of the application's recv calls, quarter windows sent after the exchange
        w = min(max(int(b.get("w", 32768)), 32768), 131072)
        fill = min(max(int(b.get("fill", 100)), 1), 100)
        more = min(max(int(b.get("more", 4)), 1), 8)
        total = w * fill // 100 + w * more // 4
        size = min(max(int(b.get("size", 128)), 16, -(-total // 900)), 8192)
        b = dict(w=w, size=size, fill=fill, chunk=min(max(int(b.get("chunk", 4096)), 1), w), more=more)
    case["bulk"] = b
    if not b:
        ops = [o for o in ops if o != "read"]
    case["ops"] = sorted(set(ops))
    case["op_at"] = case.get("op_at", "kexinit") if [o for o in case["ops"] if o != "stream"] else "kexinit"
    case["ms"] = list(case["ms"])[:3]
    frag = []
    for x in list(case.get("frag") or [])[:10]:
        if x is None and frag.count(None) >= 3:
            continue
        frag.append(x)
    case["frag"] = frag
    if case["ka"]:
        case["hold_ms"] = max(case["hold_ms"], 350)
    if case["mode"] != "threshold":
        case["rp"] = 0
        case["rb"] = 0
    else:
        case["rb"] = int(case.get("rb") or 0)
    return case


class Runner:
    def __init__(self, ctx, parallel):
        self.ctx = ctx
        self.known = set(k for k, e in core.load_known(PROPERTY).items() if e.get("status") == "open")
        self.pool = concurrent.futures.ThreadPoolExecutor(max_workers=parallel) if parallel > 1 else None
        self.confirmed = set()  # signatures that already survived their two confirming re-runs in this process

    def close(self):
        if self.pool is not None:
            self.pool.shutdown(wait=True)

    def map(self, cases):
        if self.pool is None or len(cases) <= 1:
            return [execute_cached(c) for c in cases]
        return list(self.pool.map(execute_cached, cases))

    def report(self, case, result, bucket):
        """One component (or an irreducible combination) failed: report every clause it shows.
        Signatures that are not listed open findings are re-run twice first (timing engine)."""
        ctx = self.ctx
        if case.get("frag"):
            bucket += "@frag"  # fails only when the inbound bytes arrive fragmented (see judge)
        for clause, detail in result["viol"]:
            sig = "%s|%s" % (clause, bucket)
            if sig not in self.known and sig not in self.confirmed:
                confirmed = True
                for _ in range(2):
                    r2 = execute(case)
                    if not any(v[0] == clause for v in r2["viol"]):
                        confirmed = False
                        break
                if not confirmed:
                    ctx.inconc("unconfirmed:" + sig)
                    continue
                self.confirmed.add(sig)
            ctx.violation(clause, bucket, case, detail)

    @staticmethod
    def culprit(case, r):
        if [v[0] for v in r["viol"]] != ["session-died"]:
            return None
        stack = r["info"].get("stack") or ""
        if "_send_user_message" not in stack:
            return None
        if "_check_keepalive" in stack and case["ka"]:
            return ("ka", "keepalive")
        for fn, pred in (
            ("_handle_close", lambda k: k == "close"),
            ("_request_failed", lambda k: k == "channel-failure"),
            ("_handle_request", lambda k: k.startswith("chanreq:") and k.endswith(":1")),
        ):
            if "channel.py:%s:" % fn in stack:
                for k in case["ms"]:
                    if pred(k):
                        return ("m", k)
        return None

    def judge(self, cases, results, record=True):
        ctx = self.ctx
        for case, r in zip(cases, results):
            comps = components(case)
            if record:
                cls = ["role:" + case["role"], "mode:" + case["mode"]] + ["M:" + k for k in case["ms"]] + ["op:" + k for k in case["ops"]]
                if case["ka"]:
                    cls.append("keepalive")
                if case.get("op_at", "kexinit") != "kexinit":
                    cls += ["ops-at:" + case["op_at"], "ops-at:%s:%s" % (case["op_at"], "peer-newkeys-held" if r["info"].get("late_window") else "window-missed")]
                    cls += ["ops-at:%s:op:%s" % (case["op_at"], o) for o in case["ops"]]
                if case.get("frag"):
                    gaps = r["info"].get("gaps", 0)
                    cls += ["frag", "frag:gaps-taken:%d" % min(gaps, 3), "frag:mode:" + case["mode"]]
                    if case["frag"][0] is not None and case["frag"][0] < 16 and None in case["frag"][1:3]:
                        cls.append("frag:gap-in-first-block")
                if case.get("bulk"):
                    b = case["bulk"]
                    n_fl = r["info"].get("bulk_packets_in_flight", 0)
                    cls += ["bulk", "bulk:mode:" + case["mode"], "bulk:window:%d" % b["w"], "bulk:window-filled:%d%%" % b["fill"], "bulk:packets-in-flight:2^%d" % max(n_fl, 1).bit_length()]
                    if case["mode"] == "threshold":
                        ratio = max(n_fl // max(case["rp"], 1), (b["w"] * b["fill"] // 100) // case["rb"] if case.get("rb") else 0)
                        cls.append("bulk:threshold:in-flight-over-lowered-threshold:x2^%d" % max(ratio, 0).bit_length())
                        cls.append("bulk:threshold:bytes-%s" % ("lowered" if case.get("rb") else "default"))
                    if "read" in case["ops"]:
                        cls.append("bulk:application-reads-during-exchange:ops-at-" + case.get("op_at", "kexinit"))
                        if r["info"].get("adjust_queued_behind_exchange"):
                            cls.append("bulk:window-adjust-due-during-exchange-sent-after-newkeys")
                            cls.append("bulk:window-adjust-due-during-exchange:filled-%d%%" % b["fill"])
                cls.append("nontrivial" if r["nontrivial"] else "trivial")
                ctx.case(case, r["nontrivial"], cls)
            if not r["viol"]:
                continue
            if ctx.out_of_time():
                # no time left for isolation / confirmation re-runs: say so instead of guessing a bucket
                ctx.inconc("failing-case-not-isolated(budget)")
                continue
            if case.get("frag"):
                # one more dimension of the delta debugging: is the fragmentation plan needed?
                c0 = dict(case, frag=[])
                r0 = execute(c0)
                ctx.count("isolation-rerun")
                if r0["viol"]:
                    case, r = c0, r0
            if len(comps) <= 1:
                self.report(case, r, comp_name(comps[0]) if comps else "bare-exchange")
                continue
            # a stalled transport thread names its culprit itself (robust against scheduling noise)
            culprit = self.culprit(case, r)
            if culprit is not None and all(("%s|%s" % (v[0], comp_name(culprit))) in self.known for v in r["viol"]):
                ctx.count("attributed-by-stack")
                for clause, detail in r["viol"]:
                    ctx.violation(clause, comp_name(culprit), single(case, culprit), detail)
                continue
            singles = [single(case, c) for c in comps]
            # distinct components only
            uniq = []
            for c, s in zip(comps, singles):
                if all(comp_name(c) != comp_name(u[0]) for u in uniq):
                    uniq.append((c, s))
            rs = self.map([s for _, s in uniq])
            any_single = False
            # the reader's single keeps the bulk stream it reads: what the stream alone shows is not the reader's
            bulk_alone = set(v[0] for (c, s), r1 in zip(uniq, rs) if c[0] == "bulk" for v in r1["viol"])
            for (c, s), r1 in zip(uniq, rs):
                ctx.count("isolation-rerun")
                if c == ("op", "read") and bulk_alone:
                    r1 = dict(r1, viol=[v for v in r1["viol"] if v[0] not in bulk_alone])
                if r1["viol"]:
                    any_single = True
                    self.report(s, r1, comp_name(c))
            if not any_single:
                self.report(case, r, "combo:" + "+".join(sorted(set(comp_name(c) for c in comps))))


def base_case(role, mode="explicit", ms=(), ops=(), ka=False, hold_ms=0, sched=(1, 1), greply=False, rp=0, frag=(), op_at="kexinit", bulk=None, rb=0):
    return normalise(dict(role=role, mode=mode, ms=list(ms), ops=list(ops), ka=ka, hold_ms=hold_ms, sched=list(sched), greply=greply, rp=rp, frag=list(frag), op_at=op_at, bulk=bulk, rb=rb))


ENUM_BULK = dict(w=32768, size=128, fill=100, chunk=4096, more=4)
G = net.GAP
# recv fragmentation plans of the enumerated part: gap inside the first cipher block (8/16 bytes), inside the
# length field, inside the body, several gaps, no gap
FRAG_PLANS = [[1, G], [7, G, 2, G, 3], [15, G], [3, 3, G, 64], [16, G, 5, G, 1, G], [4, 4, 4, 4, 9, 64]]
FRAG_MS = ["data", "chanreq:env:1", "close", "global:1", "eof", "open:accepted", "window-adjust"]
frag_items = st.one_of(st.integers(1, 15), st.integers(1, 64), st.just(G))


bulks = st.one_of(
    st.none(),
    st.none().map(lambda v: v),
    st.fixed_dictionaries(
        dict(
            w=st.sampled_from([32768, 32768, 49152, 65536]),
            size=st.sampled_from([32, 64, 128, 128, 512, 1024, 4096]),
            fill=st.sampled_from([25, 50, 100, 100, 100]),
            chunk=st.sampled_from([64, 1024, 4096, 4096, 16384, 65536]),
            more=st.sampled_from([1, 2, 4, 6]),
        )
    ),
)


@st.composite
def cases(draw):
    mode = draw(st.sampled_from(["explicit", "explicit", "threshold", "crossing", "crossing", "peer"]))
    ms = draw(st.lists(st.sampled_from(M_KINDS), min_size=1, max_size=3))
    ops = draw(st.lists(st.sampled_from(OP_KINDS), min_size=0, max_size=2, unique=True))
    bulk = draw(bulks)
    if bulk and draw(st.sampled_from([0, 1, 1])):
        ops = ops + ["read"]  # the application reads the stream while the exchange runs
    return normalise(
        dict(
            role=draw(st.sampled_from(["client", "server"])),
            mode=mode,
            ms=ms,
            ops=ops,
            ka=draw(st.sampled_from([False, False, False, True])),
            hold_ms=draw(st.sampled_from([0, 0, 20, 150])),
            sched=draw(st.lists(st.integers(1, 3), min_size=0, max_size=4)),
            greply=draw(st.booleans()),
            rp=draw(st.integers(30, 60)),
            frag=draw(st.one_of(st.just([]), st.lists(frag_items, min_size=1, max_size=10))),
            op_at=draw(st.sampled_from(["kexinit", "kexinit", "newkeys"])),
            bulk=bulk,
            rb=draw(st.sampled_from([0, 0, 8192, 16384])),
        )
    )


def run(ctx):
    ctx.set_budget(80, 840)
    ctx.assume("clear_to_send_timeout is set to %.0f s on the tested transport instance (time scale only)" % CTS_TIMEOUT)
    ctx.assume("the peer is protocol-conformant: it sends nothing but kex messages after its own KEXINIT, so M always precedes the peer's KEXINIT on the wire")
    peers.keypool()
    par = 8
    rn = Runner(ctx, par)
    excl = excluded_ops()
    ctx.note("ops_excluded_by_open_findings", sorted(excl))

    def admit(case, keep_without_op=True):
        """Strip operations excluded by an open finding; None if nothing of the case is left to run."""
        hit = [o for o in case["ops"] if o in excl]
        if not hit:
            return case
        for o in hit:
            ctx.exclude("op:%s queued behind a key exchange comes back when NEWKEYS arrives (open finding op-lost|op:%s)" % (o, o))
        if not keep_without_op:
            return None
        return dict(case, ops=[o for o in case["ops"] if o not in excl])

    try:
        # part 1: every M kind once per role (explicit initiator), + keepalive, + each user op alone
        enum = []
        for role in ("client", "server"):
            for k in M_KINDS:
                enum.append(base_case(role, ms=[k], greply=(role == "server")))
            enum.append(base_case(role, ka=True, hold_ms=350))
            for o in OP_KINDS:
                if not (o == "exec" and role == "server") and o != "read":
                    enum.append(base_case(role, ops=[o], ms=["window-adjust"]))
            enum.append(base_case(role, mode="threshold", ms=["data"], rp=40))
            enum.append(base_case(role, mode="crossing", ms=["global:0"]))
            enum.append(base_case(role, mode="peer", ms=["data"], ops=["send"]))
            # channel open / waiting global requests started during the exchange x every in-flight kind
            for o in ("open",) + WAITING_GLOBALS:
                for k in M_KINDS:
                    c = base_case(role, ms=[k], ops=[o], hold_ms=20, greply=(role == "server"))
                    if c["ops"]:
                        enum.append(c)
            # renegotiate_keys() by the application while an exchange (any initiator) is unfinished on this side, at its
            # first and at its last step; every other operation started at the last step
            for m_ in MODES:
                for at in OP_ATS:
                    enum.append(base_case(role, mode=m_, ms=["window-adjust"], ops=["rekey"], hold_ms=20, rp=40, op_at=at))
            for o in OP_KINDS:
                c = base_case(role, ms=["data"], ops=[o], hold_ms=20, op_at="newkeys")
                if c["ops"] and o not in ("rekey", "stream"):
                    enum.append(c)
            # threshold-initiated exchange read through a fragmenting link with idle gaps
            for j, plan in enumerate(FRAG_PLANS):
                enum.append(base_case(role, mode="threshold", ms=[FRAG_MS[(j + (role == "server")) % len(FRAG_MS)]], rp=40, frag=plan))
            # bulk stream towards the tested side: an eager sender has filled the receive window when the exchange starts
            # (hundreds of packets in flight behind the tested side's KEXINIT, also relative to lowered thresholds);
            # the application reads during the exchange (window adjustments fall due while the gate is closed) or
            # afterwards; the transfer must go on
            for m_ in MODES:
                enum.append(base_case(role, mode=m_, ms=["data"], ops=["read"], hold_ms=20, rp=40, bulk=ENUM_BULK))
            enum.append(base_case(role, ms=["window-adjust"], ops=["read"], hold_ms=20, bulk=dict(ENUM_BULK, chunk=32768), op_at="newkeys"))
            enum.append(base_case(role, mode="crossing", ms=["close"], ops=["read"], bulk=dict(ENUM_BULK, fill=50, chunk=1024, size=512, more=6)))
            enum.append(base_case(role, mode="threshold", ms=["eof"], rp=40, bulk=dict(ENUM_BULK, size=64)))
            enum.append(base_case(role, mode="threshold", ms=["data"], rp=60, rb=8192, bulk=dict(ENUM_BULK, w=65536, size=1024)))
        mine = [c for i, c in enumerate(enum) if i % ctx.nworkers == ctx.worker]
        mine = [c for c in (admit(c, keep_without_op=False) for c in mine) if c is not None]
        for i in range(0, len(mine), 2 * par):
            if ctx.out_of_time():
                break
            batch = mine[i : i + 2 * par]
            rn.judge(batch, rn.map(batch))
        ctx.note("enumerated_kind_role_cases", len(mine))
        if ctx.nworkers == 1 and not ctx.budget_hit:
            ctx.exhaustive = True
            ctx.note("exhaustive_over", "in-flight message kind x role with an explicit initiator (the remaining dimensions are sampled)")

        # part 2: hypothesis-drawn combinations, a batch per example
        bsz = 6

        def body(batch):
            batch = [admit(c) for c in batch]
            rn.judge(batch, rn.map(batch))

        ctx.explore(st.lists(cases(), min_size=bsz, max_size=bsz), body, ctx.scale(3, 50), shrink=False)

        # part 3: concurrent user threads streaming on channels while exchanges start (one session at a time: the
        # interpreter switch interval is process-wide)
        storm = []
        stall = dict(ms=2, every=1)
        for i, role in enumerate(("client", "server")):
            storm.append(storm_case(role, "alternate", 4, 2, stall))
            storm.append(storm_case(role, "threshold", 3, 0, dict(ms=1, every=2), rp=40, dur_ms=350))
            storm.append(storm_case(role, ["peer", "explicit"][i], 3, 2, dict(ms=1, every=3), rec=8))
            storm.append(storm_case(role, "alternate", [12, 8][i], 6, None, switch_us=[5, 0][i]))
        storm.append(storm_case("client", "threshold", 8, 0, None, switch_us=500, rp=40, dur_ms=350))
        for c in [c for i, c in enumerate(storm) if i % ctx.nworkers == ctx.worker]:
            if ctx.out_of_time():
                break
            judge_storm(ctx, c, execute_storm(c), rn.known)
        ctx.explore(storm_cases(big=ctx.tier != "quick"), lambda c: judge_storm(ctx, c, execute_storm(c), rn.known), ctx.scale(5, 70), shrink=False, seed_offset=3)
    finally:
        rn.close()


def replay(ctx, case):
    rn = Runner(ctx, 1)
    if case.get("family") == "storm":
        r = execute_storm(case)
        tries = 0
        while not r["viol"] and not case.get("stall") and tries < 20:
            # a free-running interleaving: the saved case names the configuration, not the schedule
            r = execute_storm(case)
            tries += 1
        judge_storm(ctx, case, r, rn.known, record=False)
        return
    case = normalise(case)
    r = execute(case)
    if ctx.tier and not ctx.unknown:
        _CACHE[core.case_hash(case)] = r
    rn.judge([case], [r], record=False)
