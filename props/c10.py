"""C10 - long-lived sessions are rekeyed at the threshold; peers that refuse are dropped.

Tested transport: `Transport(packetizer_class=SmallPacketizer)` (public kwarg); the harness
subclass only lowers the four class constants REKEY_PACKETS / REKEY_BYTES /
REKEY_PACKETS_OVERFLOW_MAX / REKEY_BYTES_OVERFLOW_MAX. Everything is observed on the raw wire:
`Wire` stamps every chunk (= one packet) of both directions with a global push index, `peers.Tap`
decrypts both directions independently of paramiko (types, key epochs), chunk lengths give the
bytes. Paramiko's own counters are never read by the oracle (the public
`Packetizer.need_rekey()` accessor is used for *pacing* the harness only).

family "coop" (cooperative peer = production Transport with the default 2**29 thresholds, so it
never initiates): generated traffic programs (channel data T->P, P->T, both at once, IGNORE bursts,
keepalive-driven idle traffic). Oracle on the wire log:
  rekey-missing    a (direction, key epoch) whose packet or byte count reached the threshold is
                   never ended by a NEWKEYS (waited >= 12 s = 120x the 0.1 s poll; "never" detector)
  not-initiator    the exchange was started by the peer, not by the tested transport
  premature-rekey  the tested side sent a KEXINIT although neither of its current key epochs had
                   reached a threshold on the wire (counters did not restart)
  traffic-intact   channel byte streams differ / stall / a transport died / wire does not verify
family "refuse" (peer = Puppet whose packetizer also swallows the tested side's KEXINIT and keeps
sending IGNORE / DEBUG / CHANNEL_DATA): the tested side must emit KEXINIT at the crossing, must be
alive while strictly below both allowances (packets and bytes), and must be inactive with an
SSHException at the latest 20 packets after the first of the two allowances was reached.

stage (both families): "auth" = authenticated session with a channel (all of the above); "preauth" = the
session is connected (first NEWKEYS done) but NOT authenticated while the program runs: traffic is
Transport.send_ignore bursts of either side, keepalives, "kx" steps (IGNOREs up to a few packets below the
packet threshold, then only keepalives: the crossing packet is a keepalive) and failed password attempts
("authfail"; while the known finding AUTH_FINDING is open an attempt is only started >= 4 packets / 600 bytes
below the thresholds, so that the crossing packet itself is never part of an auth dialogue - counted as
excluded by construction; the committed replay runs unguarded). The same oracle applies before
authentication; afterwards the session is authenticated, a channel is opened and one round trip each way
must work. "kx" steps are also drawn for the authenticated stage.

link / compression dimensions (both families):
  frag   segmenting link towards the tested side (`SegLink`, installed as `net.Direction.frag` after the setup): a
         selected inbound packet arrives as its first `cut` bytes (inside the first cipher block / length field, or
         in the body), then one idle receive timeout (`net.GAP`), then the rest; selection = every packet | every
         j-th packet | the packets arriving while the tested side wants new keys (in-flight data and the peer's
         KEXINIT / kex reply / NEWKEYS of a threshold exchange); optional cap `mss` on every read; at most `gaps`
         idle gaps per session. Evidence classes frag:*, in particular
         frag:<family>:gap-inside-first-read-while-rekey-pending.
  comp   compression negotiated on both sides: none | zlib | zlib@openssh.com (delayed: starts with authentication).
         The wire oracle inflates independently (`ZTap`: a fresh context per key exchange, RFC 4253 6.2); channel
         data is incompressible (64 KiB-periodic SHA-256 stream) so that byte thresholds keep being crossed.
         Evidence classes comp:<name>[:<stage>|:rekeys>=1].

configuration dimension `strict` (both families): strict key exchange agreed (default) | `strict_kex=False` on the tested
side | on the peer | on both (sequence numbers then run on across NEWKEYS; the independent decoder follows the recorded
agreement). The oracle is unchanged: in particular premature-rekey = a KEXINIT of the tested side although neither of
its current key epochs has reached a threshold on the wire, i.e. the counters did not restart with the new keys.
Evidence classes strict-kex:*.

step "reqs" (family "coop", authenticated stage): `k` requests of the peer that need an answer from the tested side's
transport thread - channel opens the application accepts ("open": session / forwarded-tcpip with a handler), opens it
rejects ("open-rejected"), CHANNEL_REQUEST exec with want_reply on k channels opened before ("chanreq", client peer only) -
are in flight when the tested side crosses a threshold: the link T->P is held (latency), the tested side sends IGNOREs
up to the threshold and writes its KEXINIT, k peer threads issue their requests (k = 1-96, clipped below the overflow
allowance like every peer burst), the tested side handles all of them, then the link is released. Oracle ("traffic
continues intact"): every caller gets its answer within 12 s (accepted / rejected as the application decided; a
rejected open may surface as "Unable to open channel." because Transport.open_channel keeps the reason in one slot per
transport) and the tested side wrote exactly k replies (types 91/92/99/100, counted by the independent decoder); bucket
peer-request-unanswered:<kind>. Evidence classes note:reqs:<kind>, note:reqs-in-flight-behind-own-kexinit:2^n.

Peer bursts in family "coop" are clipped below the overflow allowance (minus the peer's own kex
packets): paramiko counts the allowance from the moment it *wants* to rekey, so a cooperative peer
whose traffic already in flight exceeds the allowance is dropped by design (statement: "If the peer
keeps sending ... past the overflow allowance, the connection is terminated").
"""
import threading
import time

from hypothesis import strategies as st

from vlib import core, net, peers
from vlib import refssh as R

PROPERTY = "C10"
LEVEL = "exploration"
THOROUGH_WORKERS = 16
RULE = (
    "hypothesis-drawn (role, stage authenticated|connected-but-unauthenticated, cipher/MAC class ctr|cbc|gcm|etm, REKEY_PACKETS 20-200, REKEY_BYTES 4-64 KiB, overflow "
    "10-100 packets / 2-32 KiB, traffic program of 4-40 steps {data T->P | P->T | both, IGNORE burst, keepalive idle, IGNOREs to just below the "
    "threshold then keepalives only, 1-96 peer requests needing a reply (channel open accepted|rejected, exec want_reply) in flight behind the tested side's threshold KEXINIT on a held link; before authentication: IGNORE bursts of either side, keepalives, failed password attempts}) for "
    "the cooperative family; (role, stage, thresholds, trigger direction in|out, packet pattern, 0-1 completed rekeys first) for the "
    "refusing-peer family; both families x strict kex agreed | strict_kex=False on tested side|peer|both x compression none|zlib|zlib@openssh.com x segmenting inbound link of the tested side (none | "
    "first `cut` 1-80 bytes of a selected packet, idle receive timeout, rest; selected = all | every j-th | those arriving while a "
    "re-key is pending; read cap 1-100 bytes; 2-4 gaps); non-trivial = >= 2 threshold crossings resolved in one session (counted on the wire), or a "
    "refusing peer; distinct by the case dict"
)

WAIT = 12.0  # "never happens" bound: 120x the 0.1 s read-timeout poll of the run loop
KEX_MARGIN_PK = 6  # packets the cooperative peer itself needs for an exchange (+ a WINDOW_ADJUST)
KEX_MARGIN_BY = 1536


def small_packetizer(base, rp, rb, op, ob):
    return type(
        "SmallPacketizer",
        (base,),
        dict(REKEY_PACKETS=rp, REKEY_BYTES=rb, REKEY_PACKETS_OVERFLOW_MAX=op, REKEY_BYTES_OVERFLOW_MAX=ob),
    )


class RefusingPacketizer(peers.RecPacketizer):
    """Puppet packetizer that can additionally swallow the peer's KEXINIT (`refuse`)."""

    def __init__(self, sock):
        peers.RecPacketizer.__init__(self, sock)
        self.refuse = False

    def read_message(self):
        from paramiko.common import MSG_IGNORE
        from paramiko.packet import Packetizer

        # the flags are evaluated when the packet has been read (the run loop may have been
        # blocked in here since before `refuse` was switched on)
        ptype, m = Packetizer.read_message(self)
        if self.refuse or (self.raw_mode and ptype not in peers.KEX_TYPES):
            with self.log_cv:
                self.log.append((m.seqno, ptype, m.get_remainder()))
                self.log_cv.notify_all()
            if ptype == 1:
                return ptype, m
            return MSG_IGNORE, m
        return ptype, m


# ----------------------------------------------------------------------------- wire log


class Wire:
    """Global push order of every chunk of both directions of a Link (+ harness marks)."""

    def __init__(self, link):
        self.link = link
        self.events = []  # (direction name | "mark", length | label)
        for d in (link.ab, link.ba):
            d.filter = self._mk(d.name)

    def _mk(self, name):
        ev = self.events

        def f(chunk):
            ev.append((name, len(chunk)))
            return [chunk]

        return f

    def mark(self, label):
        self.events.append(("mark", label))
        return len(self.events) - 1

    def snapshot(self):
        """Consistent copy: (events, {dirname: chunks}) with chunks cut to the events seen."""
        ev = list(self.events)
        out = {}
        for d in (self.link.ab, self.link.ba):
            n = sum(1 for e in ev if e[0] == d.name)
            out[d.name] = list(d.sent)[:n]
        return ev, out

    def decode(self, tc, ts, snap=None, only=None):
        """{dirname: [(g, epoch, seq, type, payload, length)]}; raises refssh.RefError. `only` = a direction name:
        decode just that direction (pacing polls)."""
        ev, chunks = snap or self.snapshot()
        res = {}
        for d, sender, c2s in ((self.link.ab, tc, True), (self.link.ba, ts, False)):
            if only is not None and d.name != only:
                continue
            pos = [i for i, e in enumerate(ev) if e[0] == d.name]
            ch = chunks[d.name]
            pk = ZTap(ch, list(sender.v_out), c2s).packets()
            # chunk 0 is the banner line; one chunk per packet afterwards
            if ch and len(pk) > len(ch) - 1:
                raise R.RefError("more packets than chunks on %s" % d.name)
            rows = []
            for i, (ep, seq, ty, pl) in enumerate(pk):
                rows.append((pos[i + 1], ep, seq, ty, pl, len(ch[i + 1])))
            res[d.name] = rows
            res[d.name + ":undecoded"] = max(0, len(ch) - 1 - len(pk))
        return res


def tail_counts(rows):
    """(packets, bytes) in the last key epoch of a decoded direction (after its last NEWKEYS)."""
    n = b = 0
    for r in rows:
        if r[3] == 21:
            n = b = 0
        else:
            n += 1
            b += r[5]
    return n, b


class ZTap(peers.Tap):
    """peers.Tap with the compression state a key exchange implies (RFC 4253 6.2: the context is initialised after
    each key exchange): "zlib" = a fresh inflater right after every NEWKEYS of the direction; "zlib@openssh.com" =
    a fresh inflater per key epoch that starts with the first payload carrying a zlib stream header (0x78 + FCHECK;
    120 is not an SSH message number), i.e. wherever the sender switched delayed compression on (after
    USERAUTH_SUCCESS, or at the NEWKEYS of a re-exchange of an authenticated session)."""

    def packets(self):
        data = self.data
        while True:
            i = data.find(b"\n")
            if i < 0:
                return []
            line, data = data[: i + 1], data[i + 1 :]
            if line.startswith(b"SSH-"):
                break
        rx = R.Receiver()
        rx.feed(data)
        out = []
        epoch = 0
        delayed = False
        while True:
            try:
                seq, payload, pad = rx.next_packet()
            except R.NeedMore:
                break
            if delayed and rx.decompress is None and len(payload) >= 2 and payload[0] == 0x78 and (payload[0] * 256 + payload[1]) % 31 == 0:
                rx.decompress = R.Decompressor()
                try:
                    payload = rx.decompress(payload)
                except Exception:
                    raise R.RefError("bad zlib (start of delayed compression)")
            if not payload:
                raise R.RefError("empty payload")
            out.append((epoch, seq, payload[0], payload[1:]))
            if payload[0] == 21:
                if epoch >= len(self.epochs):
                    break
                e = self.epochs[epoch]
                epoch += 1
                d = R.Direction(e["cipher"], e["mac"], e["hash"], e["K"], e["H"], e["sid"], self.c2s)
                rx.rekey(d, reset_seq=bool(e["strict"]))
                rx.decompress = R.Decompressor() if e["comp"] == "zlib" else None
                delayed = e["comp"] == "zlib@openssh.com"
                if e["comp"] not in ("none", None, "zlib", "zlib@openssh.com"):
                    raise R.RefError("Tap does not model compression %r" % e["comp"])
        return out


class SegLink:
    """Iterator for `net.Direction.frag`: a segmenting link towards the tested side. A *selected* packet arrives as
    its first `cut` bytes, then nothing for one receive timeout (net.GAP), then the rest; `mss` (0 = unlimited) caps
    every read. Selection `sel`: "all" = every packet, "every" = every `every`-th packet, "rekey" = the packets that
    arrive while the tested side wants new keys (its public Packetizer.need_rekey() accessor; pacing only). At most
    `gaps` gaps per session (each costs one 0.1 s read timeout). Packet boundaries are the chunks of the direction
    (one chunk per packet); positions are counted from the bytes the reader has consumed."""

    BIG = 1 << 20

    def __init__(self, d, transport, plan, header):
        self.d = d
        self.t = transport
        self.cut = max(1, int(plan.get("cut", 1)))
        self.sel = plan.get("sel", "all")
        self.every = max(1, int(plan.get("every", 1)))
        self.left = int(plan.get("gaps", 4))
        self.mss = int(plan.get("mss", 0)) or self.BIG
        self.header = header  # bytes of the first read of a packet (cipher block / length field)
        self.idx = 0
        self.start = 0
        self.split = -1
        self.gapped = True
        self.stats = {"gaps": 0, "rekey": 0, "rekey-header": 0}

    def __iter__(self):
        return self

    def wants_rekey(self):
        f = getattr(getattr(self.t, "packetizer", None), "need_rekey", None)
        try:
            return bool(f()) if f is not None else True
        except Exception:
            return True

    def __next__(self):
        d = self.d
        pos = d.bytes_delivered - len(d.buf)
        chunks = d.delivered
        while self.idx < len(chunks) and pos >= self.start + len(chunks[self.idx]):
            self.start += len(chunks[self.idx])
            self.idx += 1
        off = pos - self.start
        if off == 0 and self.left > 0 and self.split != self.idx:
            if self.sel == "all" or (self.sel == "every" and self.idx % self.every == 0) or (self.sel == "rekey" and self.wants_rekey()):
                self.split = self.idx
                self.gapped = False
        if self.split == self.idx and not self.gapped:
            if off < self.cut:
                return min(self.cut - off, self.mss)
            self.gapped = True
            if self.idx < len(chunks) and off < len(chunks[self.idx]):
                self.left -= 1
                self.stats["gaps"] += 1
                if self.wants_rekey():
                    self.stats["rekey"] += 1
                    if off < self.header:
                        self.stats["rekey-header"] += 1
                return net.GAP
        return self.mss


# ----------------------------------------------------------------------------- helpers


_PERIOD = 1 << 16
_BASE = []


def pattern(tag, off, n):
    """n bytes at offset `off` of the (64 KiB-periodic, incompressible: zlib's window is 32 KiB) stream `tag`."""
    if not _BASE:
        import hashlib

        _BASE.append(b"".join(hashlib.sha256(b"verif-c10-%d" % i).digest() for i in range(_PERIOD // 32)))
    base = _BASE[0]
    s = (off + tag * 4099) % _PERIOD
    out = base[s : s + n]
    while len(out) < n:
        out += base[: n - len(out)]
    return out


def recv_exact(ch, n):
    import socket

    got = b""
    while len(got) < n:
        try:
            x = ch.recv(min(65536, n - len(got)))
        except socket.timeout:
            break
        if not x:
            break
        got += x
    return got


COMPS = ["none", "zlib", "zlib@openssh.com"]


def restrict(t, cipher, mac, comp="none"):
    so = t.get_security_options()
    so.kex = [peers.FAST_KEX]
    so.ciphers = [cipher]
    so.digests = [mac]
    so.key_types = ["ssh-ed25519"]
    so.compression = [comp]


def settle(link, T, P, timeout=WAIT):
    """Pacing only: wait until nothing is in flight and no exchange is pending/in progress on T.
    Returns "ok" | "dead" | "stalled"."""
    end = time.time() + timeout
    ok = 0
    while time.time() < end:
        if not T.is_active() or not P.is_active():
            return "dead"
        if link.quiescent() and not T.packetizer.need_rekey() and T.clear_to_send.is_set() and P.clear_to_send.is_set():
            ok += 1
            if ok >= 3:
                return "ok"
        else:
            ok = 0
        time.sleep(0.003)
    return "stalled"


CIPHERS = {
    "ctr": ("aes128-ctr", "hmac-sha2-256"),
    "cbc": ("aes128-cbc", "hmac-sha1"),
    "gcm": ("aes128-gcm@openssh.com", "hmac-sha2-256"),
    "etm": ("aes256-ctr", "hmac-sha2-256-etm@openssh.com"),
}


# configuration: was strict key exchange agreed? (`Transport(strict_kex=False)` on the tested side, the peer, or both: the
# documented way to talk to / be a peer without kex-strict-*-v00@openssh.com; without it the sequence numbers run on
# across NEWKEYS, everything else the statement says is unchanged)
STRICTS = ["both", "tested-off", "peer-off", "neither"]


def strict_kw(case, who):
    s = case.get("strict", "both")
    off = s == "neither" or (s == "tested-off" and who == "T") or (s == "peer-off" and who == "P")
    return dict(strict_kex=False) if off else {}


def strict_classes(case, fam, rekeys):
    s = case.get("strict", "both")
    out = ["strict-kex:" + s, "strict-kex:%s:%s" % (fam, "agreed" if s == "both" else "not-agreed")]
    if rekeys:
        out.append("strict-kex:%s:%s:rekeys>=1" % (fam, "agreed" if s == "both" else "not-agreed"))
    return out


def install_seglink(case, link, T, role):
    """Install the case's segmenting-link plan on the tested side's inbound direction (None if the case has none)."""
    plan = case.get("frag")
    if not plan:
        return None
    in_d = link.ba if role == "client" else link.ab
    seg = SegLink(in_d, T, plan, 4 if case["suite"] in ("gcm", "etm") else 16)
    with in_d.cv:
        in_d.frag = seg
    return seg


def frag_classes(case, fr):
    plan = case.get("frag")
    if not plan:
        return []
    fam = case["family"]
    out = ["frag", "frag:%s" % fam, "frag:sel:" + plan.get("sel", "all"), "frag:gaps-taken:%d" % min((fr or {}).get("gaps", 0), 4)]
    if plan.get("mss"):
        out.append("frag:mss")
    if (fr or {}).get("rekey"):
        out.append("frag:%s:gap-while-rekey-pending" % fam)
    if (fr or {}).get("rekey-header"):
        out.append("frag:%s:gap-inside-first-read-while-rekey-pending" % fam)
    return out


# ----------------------------------------------------------------------------- cooperative family


# Known finding: a re-exchange that starts in the middle of a user-auth dialogue kills the session (auth messages are
# sent with Transport._send_message, i.e. also between KEXINIT and NEWKEYS). While its entry is open, auth dialogues
# are kept >= 4 packets / 600 bytes away from the thresholds (excluded by construction, counted); the committed replay
# runs without that guard.
AUTH_BUCKET = "auth-dialogue-crossing-rekey"
AUTH_FINDING = "traffic-intact|coop:" + AUTH_BUCKET
AUTH_EXCLUDED = "auth-dialogue-kept-away-from-threshold"
AUTH_GUARD = [False]


# Known finding (two root causes, one per role): with delayed compression ("zlib@openssh.com": both directions switch
# compression on around USERAUTH_SUCCESS) a re-exchange that starts inside the last round trip of the auth dialogue
# kills the session: client role = its KEXINIT follows its USERAUTH_REQUEST and reaches the server after that has
# switched its inflater on; server role = USERAUTH_SUCCESS is held back behind the running exchange but compression is
# switched on at once. Same exclusion by construction as above while the entries are open, for that sub-domain only.
DC = "zlib@openssh.com"
DC_BUCKET = AUTH_BUCKET + ":delayed-compression:"
DC_GUARD = {"client": False, "server": False}


def auth_bucket(case):
    return DC_BUCKET + case["role"] if case.get("comp") == DC else AUTH_BUCKET


def set_auth_guard():
    import os

    known = core.load_known(PROPERTY)
    fixed = bool(os.environ.get("C10_ASSUME_FIXED"))
    AUTH_GUARD[0] = known.get(AUTH_FINDING, {}).get("status") == "open" and not fixed
    for role in DC_GUARD:
        DC_GUARD[role] = known.get("traffic-intact|coop:" + DC_BUCKET + role, {}).get("status") == "open" and not fixed


# wire type of the packet that crossed a threshold (evidence classes)
TYPE_NAMES = {2: "ignore", 80: "keepalive", 82: "keepalive-reply", 94: "data", 93: "window-adjust", 5: "auth", 6: "auth", 50: "auth", 51: "auth", 52: "auth"}


def clip_peer_burst(k, size, op, ob):
    k = min(k, op - KEX_MARGIN_PK, (ob - KEX_MARGIN_BY) // (size + 96))
    return max(k, 0)


def run_coop(case):
    """Execute one cooperative case. Returns dict(viol=[(clause, bucket, detail)], crossings=int, info=...)."""
    from paramiko.packet import Packetizer

    from paramiko.ssh_exception import AuthenticationException, SSHException

    role = case["role"]
    stage = case.get("stage", "auth")
    guard_auth = case.get("auth_guard", AUTH_GUARD[0] or (case.get("comp") == DC and DC_GUARD[role]))
    rp, rb, op, ob = case["rp"], case["rb"], case["op"], case["ob"]
    cipher, mac = CIPHERS[case["suite"]]
    comp = case.get("comp", "none")
    link = net.Link()
    wire = Wire(link)
    kw = dict(packetizer_class=small_packetizer(Packetizer, rp, rb, op, ob), **strict_kw(case, "T"))
    pkw_ = strict_kw(case, "P")
    if role == "client":
        link, tc, ts = peers.make_pair(client_kw=kw, server_kw=pkw_, link=link)
        T, P = tc, ts
    else:
        link, tc, ts = peers.make_pair(client_kw=pkw_, server_kw=kw, link=link)
        T, P = ts, tc
    viol = []
    threads = []
    kept = []  # channels of "reqs" steps stay referenced (Channel.__del__ closes them)
    stalled = None
    notes = {}
    seg = None
    try:
        for t in (tc, ts):
            restrict(t, cipher, mac, comp)
            t.clear_to_send_timeout = 2 * WAIT
        srv = peers.OpenServer()
        srv.policy["check_auth_password"] = lambda u, p: peers.AUTH_SUCCESSFUL if p == "pw" else peers.AUTH_FAILED
        srv.policy["check_channel_request"] = lambda kind, chanid: peers.OPEN_SUCCEEDED if kind == "session" else peers.OPEN_FAILED_ADMINISTRATIVELY_PROHIBITED
        ce, se = peers.start_both(tc, ts, srv)
        if ce or se:
            raise core.HarnessError("handshake failed: %r %r" % (ce, se))
        chans = {}

        def authenticate():
            tc.auth_password("u", "pw")
            cc = tc.open_session(timeout=WAIT)
            sc = ts.accept(WAIT)
            if sc is None:
                raise core.HarnessError("no channel accepted")
            chans["T"], chans["P"] = (cc, sc) if role == "client" else (sc, cc)
            for ch in (cc, sc):
                ch.settimeout(WAIT)

        if stage == "auth":
            authenticate()
        seg = install_seglink(case, link, T, role)
        off = {"T": 0, "P": 0}
        out_dn, in_dn = ("a->b", "b->a") if role == "client" else ("b->a", "a->b")

        def tails():
            dec = wire.decode(tc, ts)
            return tail_counts(dec[out_dn]), tail_counts(dec[in_dn])

        def near_threshold(pk=4, by=600):
            return any(n + pk >= rp or b + by >= rb for n, b in tails())

        def send_data(side, k, size, res):
            ch = chans["T"] if side == "T" else chans["P"]
            tag = 1 if side == "T" else 2
            try:
                for _ in range(k):
                    ch.sendall(pattern(tag, off[side], size))
                    off[side] += size
                res[side] = "ok"
            except Exception as e:  # recorded; judged by the oracle below
                res[side] = "send failed: %r" % (e,)

        def expect(side, k, size, start):
            tag = 1 if side == "T" else 2
            return b"".join(pattern(tag, start + i * size, size) for i in range(k))

        def n_kexinit_out(types=(20,)):
            return sum(1 for r in wire.decode(tc, ts, only=out_dn)[out_dn] if r[3] in types)

        REPLIES = (91, 92, 99, 100)  # CHANNEL_OPEN_CONFIRMATION / _FAILURE, CHANNEL_SUCCESS / _FAILURE

        def peer_requests(rkind, k, si, step):
            """`k` requests of the peer that need an answer from the tested side's transport thread are in flight when
            the tested side crosses a threshold: the link T->P is held (latency), so the peer has not seen the KEXINIT
            when it sends them. Every one of them must be answered once the exchange is over."""
            from paramiko.ssh_exception import ChannelException

            out_dir, in_dir = (link.ab, link.ba) if role == "client" else (link.ba, link.ab)
            if rkind == "chanreq" and role == "client":
                rkind = "open"  # a server has no public call for a channel request that wants a reply
            pre = []
            if rkind == "open" and role == "client" and not chans.get("fwd"):
                T.request_port_forward("127.0.0.1", 4242, handler=lambda ch, o, s_: kept.append(ch))
                chans["fwd"] = True
            if rkind == "chanreq":
                for _ in range(k):
                    pre.append(P.open_session(timeout=WAIT))
                kept.extend(pre)
            if pre or chans.get("fwd"):
                if settle(link, T, P) != "ok":
                    return "before the requests of step %d %r" % (si, step)
            kx0 = n_kexinit_out()
            rep0 = n_kexinit_out(REPLIES)
            res = {}
            ths = []
            out_dir.set_hold(True)
            try:
                guard = 0
                while not T.packetizer.need_rekey() and guard < rp + rb // 64 + 10:  # pacing via the public accessor
                    T.send_ignore(32)
                    guard += 1
                end = time.time() + WAIT
                while time.time() < end and T.is_active() and n_kexinit_out() <= kx0:
                    time.sleep(0.005)
                if n_kexinit_out() <= kx0:
                    return None  # the wire oracle reports the unanswered threshold
                base = len(in_dir.sent)

                def one(i):
                    try:
                        if rkind == "open":
                            if role == "server":
                                kept.append(P.open_session(timeout=WAIT))
                            else:
                                kept.append(P.open_channel("forwarded-tcpip", ("127.0.0.1", 4242), ("10.0.0.1", 50000 + i), timeout=WAIT))
                            res[i] = "ok"
                        elif rkind == "open-rejected":
                            try:
                                kept.append(P.open_channel("nope@verif", timeout=WAIT))
                                res[i] = "accepted although the application rejects this kind"
                            except ChannelException:
                                res[i] = "ok"
                            except SSHException as e:
                                # Transport.open_channel keeps the reason of a rejected open in one slot per transport:
                                # concurrent rejected callers may find it taken (an artefact of the peer's API, the
                                # OPEN_FAILURE did arrive: counted on the wire below)
                                res[i] = "ok" if "Unable to open channel" in str(e) else repr(e)
                        else:
                            pre[i].exec_command("true")
                            res[i] = "ok"
                    except Exception as e:  # judged below
                        res[i] = repr(e)

                for i in range(k):
                    th = threading.Thread(target=one, args=(i,), daemon=True)
                    ths.append(th)
                    threads.append(th)
                    th.start()
                # every request is on the wire and handled by the tested side before its KEXINIT reaches the peer
                in_dir.wait_sent(base + k, WAIT)
                end = time.time() + WAIT
                while time.time() < end and T.is_active() and not in_dir.idle():
                    time.sleep(0.003)
                n_fl = len(in_dir.sent) - base
                notes["reqs:" + rkind] = notes.get("reqs:" + rkind, 0) + 1
                notes["reqs-in-flight-behind-own-kexinit:2^%d" % max(n_fl, 1).bit_length()] = n_fl
            finally:
                out_dir.set_hold(False)
            end = time.time() + WAIT + 3
            for th in ths:
                th.join(max(0.0, end - time.time()))
            bad = [(i, res.get(i, "no answer (caller still blocked)")) for i in range(k) if res.get(i) != "ok"]
            n_rep = n_kexinit_out(REPLIES) - rep0
            if not bad and n_rep != k and T.is_active():
                bad = [(0, "%d replies (types %r) written by the tested side for %d requests" % (n_rep, REPLIES, k))]
            if bad and T.is_active() and P.is_active():  # (a dead session is reported as such by the oracle below)
                viol.append(("traffic-intact", "peer-request-unanswered:" + rkind, "step %d %r: %d of %d requests the peer had in flight when the tested side sent KEXINIT were not answered correctly after the exchange; first: request %d -> %s; active(T,P)=%r" % (si, step, len(bad), k, bad[0][0], bad[0][1], (T.is_active(), P.is_active()))))
            return None

        def program():
            nonlocal stalled
            ka_on = False
            for si, step in enumerate(case["steps"]):
                kind = step[0]
                if kind == "data":
                    _, side, k, size = step
                    sides = ["T", "P"] if side == "B" else [side]
                    plan = {}
                    for s in sides:
                        kk = clip_peer_burst(k, size, op, ob) if s == "P" else k
                        if kk > 0:
                            plan[s] = (kk, off[s])
                    res = {}
                    ths = []
                    for s in plan:
                        th = threading.Thread(target=send_data, args=(s, plan[s][0], size, res), daemon=True)
                        threads.append(th)
                        ths.append(th)
                        th.start()
                    for s in plan:
                        rch = chans["P"] if s == "T" else chans["T"]
                        want = expect(s, plan[s][0], size, plan[s][1])
                        got = recv_exact(rch, len(want))
                        if got != want:
                            d = "step %d %r: %s->other stream: got %d of %d bytes, first diff at %s; sender: %s" % (
                                si,
                                step,
                                s,
                                len(got),
                                len(want),
                                next((i for i in range(min(len(got), len(want))) if got[i] != want[i]), None),
                                res.get(s),
                            )
                            viol.append(("traffic-intact", "stream-short" if want.startswith(got) else "stream-corrupt", d))
                    for th in ths:
                        th.join(2 * WAIT + 5)
                    for s in plan:
                        if res.get(s) != "ok" and not viol:
                            viol.append(("traffic-intact", "send-failed", "step %d %r: %s" % (si, step, res.get(s))))
                elif kind == "ign":
                    _, side, k, size = step
                    if side == "P":
                        k = clip_peer_burst(k, size, op, ob)
                    t = T if side == "T" else P
                    try:
                        for _ in range(k):
                            t.send_ignore(size)
                    except Exception as e:
                        viol.append(("traffic-intact", "send-failed", "step %d %r: %r" % (si, step, e)))
                elif kind == "ka":
                    # keepalive-driven traffic while both applications are idle
                    _, interval_ms, dur_ms = step
                    T.set_keepalive(interval_ms / 1000.0)
                    ka_on = True  # stays enabled until the step has settled (a real application never switches it off)
                    time.sleep(dur_ms / 1000.0)
                elif kind == "kx":
                    # IGNOREs up to `gap` packets below the packet threshold, then nothing but keepalives: the
                    # threshold is crossed by a keepalive (sent from the transport thread's idle poll)
                    _, gap, interval_ms = step
                    (n_o, b_o), _in = tails()
                    out_dir = link.ab if role == "client" else link.ba
                    guard = 0
                    try:
                        while n_o + gap < rp and b_o + 200 < rb and guard < rp:
                            before = len(out_dir.sent)
                            T.send_ignore(8)
                            guard += 1
                            n_o += 1
                            b_o += len(out_dir.sent[before])
                    except Exception as e:
                        viol.append(("traffic-intact", "send-failed", "step %d %r: %r" % (si, step, e)))
                    if not viol and settle(link, T, P) == "ok":
                        k0 = len(link.ab.sent if role == "client" else link.ba.sent)
                        T.set_keepalive(interval_ms / 1000.0)
                        end = time.time() + 0.4 + 0.25 * gap
                        ka_on = True
                        while time.time() < end and len(link.ab.sent if role == "client" else link.ba.sent) < k0 + gap + 1:
                            time.sleep(0.01)
                elif kind == "reqs":
                    kk = clip_peer_burst(step[2], 64, op, ob)
                    if kk > 0:
                        stalled = peer_requests(step[1], kk, si, step)
                        if stalled is not None:
                            break
                elif kind == "authfail":
                    # failed password attempts (while AUTH_FINDING is open they only add to the counters: never the crossing packet)
                    for _ in range(step[1]):
                        if guard_auth and near_threshold():
                            notes[AUTH_EXCLUDED] = notes.get(AUTH_EXCLUDED, 0) + 1
                            break
                        err = None
                        try:
                            tc.auth_password("u", "wrong")
                            raise core.HarnessError("wrong password accepted")
                        except AuthenticationException as e:
                            notes["authfail"] = notes.get("authfail", 0) + 1
                            if not (tc.is_active() and ts.is_active()):
                                err = e
                        except (SSHException, EOFError) as e:
                            err = e
                        if err is not None:
                            viol.append(("traffic-intact", auth_bucket(case), "step %d %r: password attempt ended with %r; active(T,P)=%r exceptions=%r" % (si, step, err, (T.is_active(), P.is_active()), (T.get_exception(), P.get_exception()))))
                            break
                if viol:
                    break
                st_ = settle(link, T, P)
                if ka_on:
                    T.set_keepalive(0)
                    ka_on = False
                    if st_ == "ok":
                        st_ = settle(link, T, P)
                if st_ != "ok":
                    stalled = "after step %d %r: %s" % (si, step, st_)
                    break
            if stage != "auth" and not viol and stalled is None:
                # authentication must still work; its packets are kept away from a crossing like "authfail"
                guard = 0
                while guard_auth and near_threshold(pk=6, by=1200) and guard < 40:
                    (n_o, b_o), (n_i, b_i) = tails()
                    if n_o + 6 >= rp or b_o + 1200 >= rb:
                        T.send_ignore(64)
                    if n_i + 6 >= rp or b_i + 1200 >= rb:
                        P.send_ignore(64)
                    guard += 1
                    if settle(link, T, P) != "ok":
                        stalled = "before authentication"
                        break
                if stalled is None:
                    try:
                        authenticate()
                    except (SSHException, EOFError) as e:
                        viol.append(("traffic-intact", auth_bucket(case), "authentication / first channel after the program ended with %r; active(T,P)=%r exceptions=%r" % (e, (T.is_active(), P.is_active()), (T.get_exception(), P.get_exception()))))
                    if not viol and settle(link, T, P) != "ok":
                        stalled = "after authentication"
            # final liveness probe: one more round trip each way
            if not viol and stalled is None:
                for s in ("T", "P"):
                    res = {}
                    start = off[s]
                    send_data(s, 1, 32, res)
                    got = recv_exact(chans["P"] if s == "T" else chans["T"], 32)
                    if got != expect(s, 1, 32, start):
                        viol.append(("traffic-intact", "final-roundtrip", "direction %s: %r / %s" % (s, got[:8], res.get(s))))
                if settle(link, T, P) != "ok":
                    stalled = "after final round trip"

        try:
            program()
        except R.RefError as e:
            # a pacing decode of the wire log failed while the program was running
            viol.append(("traffic-intact", "wire-undecodable", "independent decoder rejects the recorded stream: %s" % e))
        alive = (T.is_active(), P.is_active())
        exc = (T.get_exception(), P.get_exception()) if alive != (True, True) else (None, None)
        snap = wire.snapshot()
    finally:
        peers.shutdown(tc, ts)
        for th in threads:
            th.join(5)
    # ---- oracle on the wire log
    out_name, in_name = ("a->b", "b->a") if role == "client" else ("b->a", "a->b")
    try:
        dec = wire.decode(tc, ts, snap)
    except R.RefError as e:
        viol.append(("traffic-intact", "wire-undecodable", "independent decoder rejects the recorded stream: %s" % e))
        return dict(viol=viol, crossings=0, rekeys=0, frag=dict(seg.stats) if seg is not None else None)
    pk_out, pk_in = dec[out_name], dec[in_name]
    crossings = []
    unresolved = []
    xtypes = set()
    for name, pk in (("out", pk_out), ("in", pk_in)):
        cnt = {}
        for g, ep, seq, ty, pl, ln in pk:
            c = cnt.setdefault(ep, [0, 0, None])
            c[0] += 1
            c[1] += ln
            if c[2] is None and (c[0] >= rp or c[1] >= rb):
                c[2] = g
                crossings.append((name, ep, g, "packets" if c[0] >= rp else "bytes"))
                xtypes.add("%s:%s" % (name, TYPE_NAMES.get(ty, "other")))
        ended = set(ep for g, ep, seq, ty, pl, ln in pk if ty == 21)
        for ep, c in sorted(cnt.items()):
            if c[2] is not None and ep not in ended:
                unresolved.append((name, ep, c[0], c[1]))
    kx_out = [r[0] for r in pk_out if r[3] == 20]
    kx_in = [r[0] for r in pk_in if r[3] == 20]
    nk_out = [r[0] for r in pk_out if r[3] == 21]
    nk_in = [r[0] for r in pk_in if r[3] == 21]
    for k in range(1, len(kx_out)):
        g = kx_out[k]
        if k < len(kx_in) and kx_in[k] < g:
            viol.append(("not-initiator", "peer-kexinit-first", "exchange %d: peer KEXINIT at %d precedes tested KEXINIT at %d" % (k, kx_in[k], g)))
            continue
        ep_o = sum(1 for x in nk_out if x < g)
        ep_i = sum(1 for x in nk_in if x < g)
        why = [c for c in crossings if c[2] < g and ((c[0] == "out" and c[1] == ep_o) or (c[0] == "in" and c[1] == ep_i))]
        if not why:
            n_o = sum(1 for r in pk_out if r[1] == ep_o and r[0] < g)
            n_i = sum(1 for r in pk_in if r[1] == ep_i and r[0] < g)
            b_o = sum(r[5] for r in pk_out if r[1] == ep_o and r[0] < g)
            b_i = sum(r[5] for r in pk_in if r[1] == ep_i and r[0] < g)
            viol.append(
                (
                    "premature-rekey",
                    "kexinit-below-threshold",
                    "re-exchange %d started with out-epoch %d at %d packets/%d bytes and in-epoch %d at %d packets/%d bytes (thresholds %d/%d)"
                    % (k, ep_o, n_o, b_o, ep_i, n_i, b_i, rp, rb),
                )
            )
    if alive != (True, True):
        viol.append(("traffic-intact", "session-died:%s" % type(exc[0] or exc[1]).__name__, "active(T,P)=%r exceptions=%r stalled=%r" % (alive, exc, stalled)))
    elif unresolved:
        viol.append(
            (
                "rekey-missing",
                "%s-threshold-unanswered" % unresolved[0][0],
                "epochs that reached the threshold and were never re-keyed within %.0f s: %r (thresholds %d packets/%d bytes; T KEXINITs=%d NEWKEYS out=%d in=%d; %s)"
                % (WAIT, unresolved, rp, rb, len(kx_out), len(nk_out), len(nk_in), stalled),
            )
        )
    elif stalled is not None:
        viol.append(("traffic-intact", "stalled", stalled))
    return dict(
        viol=viol,
        crossings=len(crossings) - len(unresolved),
        rekeys=max(0, len(nk_out) - 1),
        kinds=sorted(set(c[0] + ":" + c[3] for c in crossings)),
        xtypes=sorted(xtypes),
        notes=notes,
        frag=dict(seg.stats) if seg is not None else None,
    )


# ----------------------------------------------------------------------------- refusing family


def puppet_packet(kind, size, chan_id, n):
    if kind == "ign" or (kind == "data" and chan_id is None):  # no channel before authentication
        return peers.m_ignore(pattern(3, n, size))
    if kind == "dbg":
        return peers.m_debug(pattern(4, n, size))
    return peers.m_channel_data(chan_id, pattern(5, n, size))


def run_refuse(case):
    try:
        return _run_refuse(case)
    except R.RefError as e:
        # a pacing decode of the wire log failed: what the tested side wrote does not verify / inflate
        return dict(viol=[("traffic-intact", "wire-undecodable", "independent decoder rejects the recorded stream: %s" % e)], info={})


def _run_refuse(case):
    from paramiko.packet import Packetizer
    from paramiko.ssh_exception import SSHException

    role = case["role"]
    rp, rb, op, ob = case["rp"], case["rb"], case["op"], case["ob"]
    cipher, mac = CIPHERS[case["suite"]]
    link = net.Link()
    wire = Wire(link)
    kw = dict(packetizer_class=small_packetizer(Packetizer, rp, rb, op, ob), **strict_kw(case, "T"))
    pkw = dict(packetizer_class=RefusingPacketizer, **strict_kw(case, "P"))
    if role == "client":
        link, tc, ts = peers.make_pair(client_kw=kw, server_cls=peers.Puppet, server_kw=pkw, link=link)
        T, P = tc, ts
        out_d, in_d = link.ab, link.ba
    else:
        link, tc, ts = peers.make_pair(client_cls=peers.Puppet, client_kw=pkw, server_kw=kw, link=link)
        T, P = ts, tc
        out_d, in_d = link.ba, link.ab
    viol = []
    info = {}
    try:
        for t in (tc, ts):
            restrict(t, cipher, mac, case.get("comp", "none"))
            t.clear_to_send_timeout = 2 * WAIT
        ce, se = peers.start_both(tc, ts, peers.OpenServer())
        if ce or se:
            raise core.HarnessError("handshake failed: %r %r" % (ce, se))
        t_id = None
        if case.get("stage", "auth") == "auth":
            tc.auth_password("u", "pw")
            cc = tc.open_session(timeout=WAIT)
            sc = ts.accept(WAIT)
            if sc is None:
                raise core.HarnessError("no channel accepted")
            chT = cc if role == "client" else sc
            t_id = chT.get_id()
        P.raw()
        if not link.wait_quiescent(WAIT):
            raise core.HarnessError("link not quiescent after setup")
        seg = install_seglink(case, link, T, role)
        if seg is not None:
            info["frag"] = seg.stats
        pat = case["pattern"]
        sent_n = [0]

        def psend():
            kind, size = pat[sent_n[0] % len(pat)]
            sent_n[0] += 1
            try:
                P.send_raw_seq(puppet_packet(kind, size, t_id, sent_n[0]))
                return True
            except (EOFError, OSError):
                return False

        def counts():
            dec = wire.decode(tc, ts)
            return tail_counts(dec[out_d.name]), tail_counts(dec[in_d.name])

        def n_kexinit_out():
            dec = wire.decode(tc, ts)
            return sum(1 for r in dec[out_d.name] if r[3] == 20)

        def wait_in_idle():
            end = time.time() + WAIT
            ok = 0
            while time.time() < end and T.is_active():
                if in_d.idle():
                    ok += 1
                    if ok >= 3:
                        return True
                else:
                    ok = 0
                time.sleep(0.002)
            return in_d.idle()

        def drive_to_threshold(trigger):
            """Send one packet at a time until the wire count of the chosen direction reaches the threshold."""
            (no, bo), (ni, bi) = counts()
            guard = 0
            while True:
                guard += 1
                if guard > 5 * rp + 5 * (rb // 8) + 50:
                    raise core.HarnessError("threshold not reachable")
                if trigger == "in":
                    if ni >= rp or bi >= rb:
                        return
                    before = len(in_d.sent)
                    if not psend():
                        return
                    ni += 1
                    bi += len(in_d.sent[before])
                else:
                    if no >= rp or bo >= rb:
                        return
                    before = len(out_d.sent)
                    T.send_ignore(case["tsize"])
                    no += 1
                    bo += len(out_d.sent[before])

        for phase in range(case["pre"] + 1):
            refusing = phase == case["pre"]
            P.packetizer.refuse = refusing
            kx0 = n_kexinit_out()
            drive_to_threshold(case["trigger"])
            # the tested side must ask for new keys now (idle side: after its 0.1 s read timeout)
            end = time.time() + WAIT
            while time.time() < end and T.is_active() and n_kexinit_out() <= kx0:
                time.sleep(0.02)
            if n_kexinit_out() <= kx0:
                viol.append(("rekey-missing", "%s-threshold-unanswered" % ("in" if case["trigger"] == "in" else "out"), "phase %d: no KEXINIT from the tested side within %.0f s of the %s threshold (active=%s)" % (phase, WAIT, case["trigger"], T.is_active())))
                return dict(viol=viol, info=info)
            if not refusing:
                # cooperative warm-up exchange must complete
                if settle(link, T, P) != "ok":
                    viol.append(("rekey-missing", "warmup-exchange-incomplete", "phase %d: exchange with a cooperative puppet did not complete (active=%s/%s)" % (phase, T.is_active(), P.is_active())))
                    return dict(viol=viol, info=info)
        # ---- refusing phase: count every further peer packet
        if not wait_in_idle() or not T.is_active():
            viol.append(("dropped-below-allowance", "dead-before-overflow", "tested side inactive right after its KEXINIT: %r" % (T.get_exception(),)))
            return dict(viol=viol, info=info)
        j = 0
        by = 0
        # J = first packet index at which an allowance is reached
        while True:
            # would the next packet reach an allowance? compute its wire length by sending it only if allowed
            kind, size = pat[sent_n[0] % len(pat)]
            # conservative upper bound on the next packet's wire length
            nxt_max = size + 128
            if j + 1 >= op or by + nxt_max >= ob:
                break
            before = len(in_d.sent)
            if not psend():
                break
            j += 1
            by += len(in_d.sent[before])
        info["below"] = (j, by)
        idle = wait_in_idle()
        if not T.is_active():
            viol.append(
                (
                    "dropped-below-allowance",
                    "dropped-early",
                    "tested side dropped the peer after %d packets / %d bytes past its rekey request; allowance %d packets / %d bytes; exception %r"
                    % (j, by, op, ob, T.get_exception()),
                )
            )
            return dict(viol=viol, info=info)
        if not idle:
            raise core.HarnessError("tested side did not drain its input")
        # now go past the allowance: 20 packets beyond the first allowance (packets or bytes) reached
        reached = None
        while T.is_active() and (reached is None or j < reached + 20):
            before = len(in_d.sent)
            if not psend():
                break
            j += 1
            by += len(in_d.sent[before]) if len(in_d.sent) > before else 0
            if reached is None and (j >= op or by >= ob):
                reached = j
        info["reached"] = reached
        info["past"] = (j, by)
        end = time.time() + WAIT
        while time.time() < end and T.is_active():
            time.sleep(0.01)
        if T.is_active():
            viol.append(
                (
                    "refusing-peer-not-dropped",
                    "still-active",
                    "peer ignored KEXINIT and sent %d packets / %d bytes afterwards (allowance %d packets / %d bytes); tested side still active after %.0f s"
                    % (j, by, op, ob, WAIT),
                )
            )
        else:
            e = T.get_exception()
            info["exc"] = repr(e)
            if not isinstance(e, SSHException):
                viol.append(("refusing-peer-not-dropped", "termination-reason:%s" % type(e).__name__, "session ended with %r instead of an SSHException" % (e,)))
        return dict(viol=viol, info=info)
    finally:
        peers.shutdown(tc, ts)


# ----------------------------------------------------------------------------- drivers


def execute(case):
    return run_coop(case) if case["family"] == "coop" else run_refuse(case)


def check_case(ctx, case, record=True):
    """Run a case; a suspected violation is re-run twice (timing engine) and only reported when
    the same clause fails every time."""
    r = execute(case)
    if r["viol"]:
        first = r["viol"][0]
        for _ in range(2):
            r2 = execute(case)
            if not any(v[0] == first[0] for v in r2["viol"]):
                ctx.inconc("unconfirmed:%s|%s" % (first[0], first[1]))
                r = r2
                break
            r = r2
            first = [v for v in r2["viol"] if v[0] == first[0]][0]
    if record:
        if case["family"] == "coop":
            nt = r.get("crossings", 0) >= 2
            stage = case.get("stage", "auth")
            cls = ["coop", "role:" + case["role"], "suite:" + case["suite"], "crossings:%d" % min(r.get("crossings", 0), 6)] + ["by:" + k for k in r.get("kinds", [])]
            cls += ["stage:" + stage, "coop:%s:%s" % (stage, case["role"])] + ["crossed-by:%s:%s" % (stage, x) for x in r.get("xtypes", [])]
            cls += ["coop:%s:crossings>=1" % stage] if r.get("crossings", 0) >= 1 else []
            cls += ["note:" + k for k in r.get("notes", {})]
            comp = case.get("comp", "none")
            cls += ["comp:" + comp, "comp:%s:%s" % (comp, stage)] + (["comp:%s:rekeys>=1" % comp] if r.get("rekeys", 0) >= 1 else [])
            cls += frag_classes(case, r.get("frag")) + strict_classes(case, "coop", r.get("rekeys", 0))
            if r.get("notes", {}).get(AUTH_EXCLUDED):
                ctx.exclude(AUTH_EXCLUDED + " (open finding %s)" % (AUTH_FINDING if AUTH_GUARD[0] else "traffic-intact|coop:" + auth_bucket(case)), r["notes"][AUTH_EXCLUDED])
        else:
            nt = True
            stage = case.get("stage", "auth")
            cls = ["refuse", "role:" + case["role"], "suite:" + case["suite"], "trigger:" + case["trigger"], "pre:%d" % case["pre"], "stage:" + stage, "refuse:%s:%s" % (stage, case["trigger"])]
            cls += ["comp:" + case.get("comp", "none"), "refuse:comp:" + case.get("comp", "none")] + frag_classes(case, r.get("info", {}).get("frag"))
            cls += strict_classes(case, "refuse", case["pre"])
        ctx.case(case, nt, cls)
    if r["viol"]:
        clause, bucket, detail = r["viol"][0]
        ctx.violation(clause, "%s:%s" % (case["family"], bucket), case, detail)
        return False
    return True


@st.composite
def thresholds(draw):
    rp = draw(st.one_of(st.integers(20, 60), st.integers(20, 200)))
    rb = draw(st.one_of(st.integers(4096, 12288), st.integers(4096, 65536)))
    op = draw(st.integers(10, 100))
    ob = draw(st.integers(2048, 32768))
    return rp, rb, op, ob


@st.composite
def link_plans(draw):
    """Segmenting link towards the tested side (see SegLink); None = packets arrive whole (2 of 5)."""
    if draw(st.sampled_from([0, 0, 1, 1, 1])) == 0:
        return None
    return dict(
        cut=draw(st.one_of(st.integers(1, 3), st.integers(1, 15), st.integers(1, 15).map(lambda v: v), st.integers(16, 80))),
        sel=draw(st.sampled_from(["rekey", "rekey", "rekey", "every", "all"])),
        every=draw(st.integers(2, 9)),
        gaps=draw(st.integers(2, 4)),
        mss=draw(st.sampled_from([0, 0, 0, 1, 5, 16, 100])),
    )


comps = st.sampled_from(["none", "none", "zlib", "zlib@openssh.com"])
stricts = st.sampled_from(["both", "both", "tested-off", "peer-off", "neither"])


@st.composite
def coop_cases(draw):
    rp, rb, op, ob = draw(thresholds())
    sizes = st.one_of(st.sampled_from([1, 16, 100, 1000]), st.integers(1, max(2, rb // 3)).map(lambda n: min(n, 30000)))
    ks = st.integers(1, max(2, rp))
    step = st.one_of(
        st.tuples(st.just("data"), st.sampled_from(["T", "T", "P", "P", "B"]), ks, sizes),
        st.tuples(st.just("ign"), st.sampled_from(["T", "T", "P"]), ks, st.integers(1, 400)),
        st.tuples(st.just("ka"), st.sampled_from([20, 50]), st.sampled_from([250, 400])),
    )
    kx = st.tuples(st.just("kx"), st.integers(1, 3), st.sampled_from([20, 50]))
    # requests of the peer in flight behind the tested side's KEXINIT (clipped below the overflow allowance when run)
    reqs = st.tuples(st.just("reqs"), st.sampled_from(["open", "open-rejected", "chanreq"]), st.one_of(st.integers(1, 8), st.integers(1, 96), st.integers(24, 96)))
    stage = draw(st.sampled_from(["auth", "auth", "preauth"]))
    if stage == "preauth":
        step = st.one_of(
            st.tuples(st.just("ign"), st.sampled_from(["T", "T", "P"]), ks, st.integers(1, 400)),
            st.tuples(st.just("ign"), st.sampled_from(["T", "P", "P"]), ks, st.sampled_from([1, 16, 100])),
            st.tuples(st.just("ka"), st.sampled_from([20, 50]), st.sampled_from([250, 400])),
            kx,
            st.tuples(st.just("authfail"), st.integers(1, 3)),
        )
    else:
        step = st.one_of(step, step.map(lambda v: v), step.map(lambda v: tuple(v)), kx, reqs)
    steps = draw(st.lists(step, min_size=4, max_size=16 if stage == "preauth" else 40))
    # keep keepalive idles rare (real time), the total volume bounded, and every step below the
    # 200 KiB window-adjust threshold (at most one WINDOW_ADJUST per step from the receiver)
    kas = 0
    kxs = 0
    rqs = 0
    fails = 0
    out = []
    vol = 0
    cap = 8 * rb + 8 * rp * 64
    for s in steps:
        s = list(s)
        if s[0] == "ka":
            kas += 1
            if kas > 1:
                continue
        elif s[0] == "kx":
            kxs += 1
            if kxs > 2:
                continue
            vol += rp * 64
        elif s[0] == "reqs":
            rqs += 1
            if rqs > 2:
                continue
            vol += rp * 64 + s[2] * 256
        elif s[0] == "authfail":
            # the server ends the session after 10 failed attempts
            s[1] = min(s[1], 8 - fails)
            if s[1] <= 0:
                continue
            fails += s[1]
        else:
            per = s[3] + 64
            s[2] = min(s[2], (cap - vol) // per, 150000 // per)
            if s[2] <= 0:
                continue
            vol += s[2] * per
        out.append(s)
    return dict(
        family="coop",
        role=draw(st.sampled_from(["client", "server"])),
        stage=stage,
        suite=draw(st.sampled_from(sorted(CIPHERS))),
        rp=rp,
        rb=rb,
        op=op,
        ob=ob,
        steps=out,
        comp=draw(comps),
        frag=draw(link_plans()),
        strict=draw(stricts),
    )


@st.composite
def refuse_cases(draw):
    rp, rb, op, ob = draw(thresholds())
    stage = draw(st.sampled_from(["auth", "auth", "preauth"]))
    pk = st.tuples(st.sampled_from(["ign", "dbg", "data"] if stage == "auth" else ["ign", "dbg"]), st.one_of(st.sampled_from([0, 1, 32]), st.integers(0, 900)))
    return dict(
        family="refuse",
        role=draw(st.sampled_from(["client", "server"])),
        stage=stage,
        suite=draw(st.sampled_from(sorted(CIPHERS))),
        rp=rp,
        rb=rb,
        op=op,
        ob=ob,
        trigger=draw(st.sampled_from(["in", "out"])),
        pre=draw(st.sampled_from([0, 0, 1])),
        tsize=draw(st.integers(1, 300)),
        pattern=[list(p) for p in draw(st.lists(pk, min_size=1, max_size=5))],
        comp=draw(comps),
        frag=draw(link_plans()),
        strict=draw(stricts),
    )


# fixed cases that make the quick tier meaningful whatever the seed: send-heavy idle reader,
# receive-heavy, byte threshold, repeated crossings
FIXED = [
    dict(family="coop", role="client", suite="ctr", rp=25, rb=65536, op=20, ob=8192, steps=[["ign", "T", 30, 10], ["ign", "T", 30, 10], ["ign", "T", 30, 10], ["data", "T", 3, 100]], strict="tested-off"),
    dict(family="coop", role="server", suite="etm", rp=200, rb=6000, op=30, ob=8192, steps=[["data", "P", 4, 1000]] * 8 + [["data", "T", 2, 3000]] * 4, strict="peer-off"),
    dict(family="coop", role="client", suite="gcm", rp=30, rb=8192, op=40, ob=16384, steps=[["data", "B", 12, 200]] * 6 + [["data", "P", 20, 1]] * 4),
    dict(family="refuse", role="client", suite="ctr", rp=20, rb=65536, op=10, ob=32768, trigger="in", pre=1, tsize=10, pattern=[["ign", 8]], strict="neither"),
    dict(family="refuse", role="server", suite="cbc", rp=200, rb=4096, op=100, ob=2048, trigger="out", pre=0, tsize=200, pattern=[["data", 100], ["dbg", 5]]),
    # connected but not authenticated: send-heavy, receive-heavy, keepalive crossing, a long auth dialogue; refusing peer
    dict(family="coop", role="client", stage="preauth", suite="ctr", rp=24, rb=65536, op=40, ob=16384, steps=[["ign", "T", 30, 10], ["authfail", 3], ["ign", "P", 20, 16], ["kx", 2, 20]]),
    dict(family="coop", role="server", stage="preauth", suite="gcm", rp=30, rb=6000, op=40, ob=16384, steps=[["ign", "P", 25, 100], ["ign", "P", 25, 100], ["authfail", 2], ["ign", "T", 40, 200], ["kx", 1, 50]]),
    dict(family="refuse", role="server", stage="preauth", suite="etm", rp=20, rb=65536, op=12, ob=32768, trigger="in", pre=1, tsize=10, pattern=[["ign", 8], ["dbg", 40]]),
    dict(family="refuse", role="client", stage="preauth", suite="ctr", rp=40, rb=8192, op=30, ob=4096, trigger="out", pre=0, tsize=100, pattern=[["ign", 300]]),
    dict(family="coop", role="client", suite="cbc", rp=40, rb=65536, op=40, ob=16384, steps=[["kx", 2, 20], ["data", "T", 3, 100], ["kx", 1, 50]]),
    # segmenting link towards the tested side (packets arrive in two pieces with an idle gap) / compression negotiated
    dict(family="coop", role="client", suite="ctr", rp=30, rb=65536, op=40, ob=16384, steps=[["ign", "T", 35, 10], ["data", "B", 20, 50], ["data", "P", 25, 100], ["data", "T", 40, 20]], frag=dict(cut=5, sel="rekey", every=1, gaps=4, mss=0)),
    dict(family="coop", role="server", suite="gcm", rp=200, rb=8192, op=40, ob=16384, steps=[["data", "P", 6, 1000]] * 3 + [["data", "T", 6, 1000]] * 3, frag=dict(cut=2, sel="rekey", every=1, gaps=4, mss=7)),
    dict(family="coop", role="server", suite="cbc", rp=40, rb=65536, op=40, ob=16384, steps=[["data", "B", 15, 100]] * 4, frag=dict(cut=9, sel="every", every=3, gaps=4, mss=0), comp="zlib"),
    dict(family="coop", role="client", suite="etm", rp=50, rb=6000, op=40, ob=16384, steps=[["data", "T", 4, 1000], ["data", "P", 4, 1000], ["ign", "T", 60, 10], ["data", "B", 3, 2000]], comp="zlib@openssh.com"),
    dict(family="coop", role="client", stage="preauth", suite="ctr", rp=25, rb=65536, op=40, ob=16384, steps=[["ign", "T", 30, 10], ["ign", "P", 20, 16], ["ign", "T", 30, 100]], comp="zlib", frag=dict(cut=1, sel="all", every=1, gaps=3, mss=0)),
    dict(family="refuse", role="server", suite="ctr", rp=30, rb=65536, op=20, ob=32768, trigger="out", pre=1, tsize=20, pattern=[["data", 50], ["ign", 5]], comp="zlib", frag=dict(cut=3, sel="rekey", every=1, gaps=4, mss=0)),
    # requests of the peer (as many as the overflow allowance permits) in flight behind the tested side's KEXINIT of a threshold exchange
    dict(family="coop", role="server", suite="ctr", rp=60, rb=65536, op=100, ob=32768, steps=[["reqs", "open", 96], ["data", "B", 10, 100], ["reqs", "chanreq", 40]], strict="neither"),
    dict(family="coop", role="client", suite="gcm", rp=40, rb=16384, op=100, ob=32768, steps=[["reqs", "open-rejected", 96], ["data", "P", 10, 100], ["reqs", "open", 64]]),
]


def run(ctx):
    ctx.set_budget(75, 840)
    set_auth_guard()
    ctx.assume("cooperative peer bursts are clipped below the overflow allowance (paramiko counts the allowance from the moment it wants to rekey, not from the peer seeing KEXINIT)")
    ctx.assume("timing: an unanswered threshold is reported only after %.0f s (120x the 0.1 s poll) and 3 consecutive runs" % WAIT)
    if ctx.worker == 0:
        for c in FIXED:
            if ctx.out_of_time():
                break
            check_case(ctx, c)
    n_coop = ctx.scale(20, 260)
    n_ref = ctx.scale(12, 200)
    ctx.explore(coop_cases(), lambda c: check_case(ctx, c), n_coop, shrink=False)
    ctx.explore(refuse_cases(), lambda c: check_case(ctx, c), n_ref, shrink=False, seed_offset=1)


def replay(ctx, case):
    set_auth_guard()
    check_case(ctx, case, record=False)
