"""C17 - client credentials are only sent to a verified, accepted server.

Tested side: the CLIENT (Transport / ServiceRequestingTransport auth_* methods,
Transport.connect(hostkey=...), SSHClient.connect with known-hosts content and a missing-host-key
policy). The server is an ordinary paramiko server transport; the *observation* is the raw
client->server byte stream recorded by the in-memory link, decoded by the independent reference
(vlib.peers.Tap + vlib.refssh with the key epochs recorded at the client's NEWKEYS).

Four sub-domains (case["mode"]):
 lifecycle  an auth_* call issued from a second thread at a generated point of the handshake:
            before start_client, after 0..4 of the server's handshake chunks (banner, KEXINIT,
            KEX reply, NEWKEYS) have been let through by the link, after everything, after close.
 connect    Transport.connect(hostkey=H, ...) with H = the server's key / another key of the same
            type / a key of another type / None; server offering 1-3 host key types.
 sshclient  SSHClient.connect(sock=...) with generated known_hosts lines (plain / hashed names;
            the looked-up name, the bare host for a non-default port, another port, another host;
            the server's key / a different key of the same type / other types; every line in one of
            the forms of the OpenSSH file format: "names type key", with a trailing comment, tab-separated,
            or behind a marker - "@revoked ..." / "@cert-authority ..." - and optionally preceded by a comment
            line, a blank line or a line with too few fields; a later line may OVERLAP an earlier one the way
            merged / hand-maintained files do: it repeats the key and one or all names of an earlier line and adds
            names of its own - or is a plain duplicate -, names in generated order, two hashed lines then sharing the
            salt; the lines may be spread over TWO files loaded one after the other into the same store), system or local
            store, the host NAME in one of 4 spellings (lower / mixed / upper case; pins and connect() use the same
            spelling - whether a differently spelled pin counts as known is not asserted), policy Reject / AutoAdd / Warning / custom accepting / custom raising / an AutoAdd
            subclass that records the key and then raises. A raising policy raises an exception of a
            GENERATED class (SSHException family, OSError family incl. socket errors, other builtins,
            plain Exception; the class itself or a fresh subclass; with / without errno / arguments).
            The credentials are supplied in every documented way: password=, pkey=, key_filename=
            (one path / a list), combinations, and auth_strategy= with an AuthStrategy yielding
            Password / InMemoryPrivateKey / OnDiskPrivateKey / NoneAuth sources (1-2 of them);
            agent and ~/.ssh discovery are off.
 pinned     (a second sshclient / history generator) at least one line, every pinned key one that no server of the harness
            presents (a marker line there carries a key the servers DO present), overlapping lines frequent, the policy mostly an accepting one: the region where "known host,
            different key -> nothing is sent" is all that stands between the credentials and an impostor.
 history    ONE SSHClient object (system store + user store loaded from generated known_hosts texts:
            plain and hashed names of two hosts (each in one of 4 spellings) x three ports, 7 keys, the same line forms,
            overlapping lines, the user store optionally split over two files) living through a generated
            sequence of 2-6 events: connect(host, port, server key set, policy, auth method) - every
            connect to a fresh server - and lookups on either HostKeys object (lookup / check / in /
            keys) with generated names. The model of "known" is the union of both stores plus what an
            AutoAdd policy added in earlier connects; the oracle below is evaluated for every connect.

Oracle (model of the statement, computed from the generated configuration and from the host key
blob the server put on the wire - parsed from the server->client plaintext, not asked from paramiko):
 plaintext   no USERAUTH_REQUEST (50), USERAUTH_INFO_RESPONSE (61) or SERVICE_REQUEST (5) before
             the client's NEWKEYS, and none of: password, interactive answer, user name, the client
             public key blob, "ssh-userauth", "ssh-connection" anywhere in the raw byte stream;
 forbidden   when the host is known and the presented key is not one of the known keys for it /
             when hostkey= was given and differs / when the host is unknown and the policy raises:
             the decrypted stream contains no 50 / 61 at all, and connect() raised;
 policy      host unknown, policy accepts: the bytes written before the policy callback returned
             contain no 50 / 61.
Marker lines: only an ordinary line makes its key a known host key of the names on it. A line behind "@revoked" or
"@cert-authority" never does: a host named only by marker lines is UNKNOWN (the policy decides; buckets end in
":host-named-only-by-a-marker-line"), and a marker line's key is not among the known keys of a host that ordinary lines
name. The application loads each file the way one does that carries on when a file is refused: an exception from
load_host_keys / load_system_host_keys is tolerated for a file that contains a marker line (the tree under test raises
InvalidHostKey at such a line and keeps the lines before it); which of the ORDINARY lines of such a file count is then
implementation-defined, so when only such lines name the host the client's own behaviour selects the clause (policy
consulted = treated as unknown; not consulted = treated as known, and then the presented key must be one of theirs).
Vacuity guard: accepted configurations must show a type 50 in an encrypted epoch.
"""
import base64
import hashlib
import hmac
import os
import threading
import time
import warnings

from hypothesis import strategies as st

from vlib import authkit as A
from vlib import core, net, peers
from vlib import refssh as R

PROPERTY = "C17"
LEVEL = "exploration"
THOROUGH_WORKERS = 16
RULE = (
    "hypothesis-generated configurations in four sub-domains: (lifecycle) auth method x transport class x handshake stage "
    "(9 stages, the link holding back the server's chunks); (connect) server host key set x hostkey argument in "
    "{same, sibling of same type, other type, none} x auth method; (sshclient) server host key set x port x 0..4 known_hosts lines "
    "(name kind x hashed x key x line form: plain / trailing comment / tab-separated / @revoked marker / @cert-authority marker, x preceding "
    "comment / blank / short line; a marker line never makes a host known; a later line may overlap an earlier one: same key + one / all of "
    "its names + own names, or a plain duplicate, names permuted, shared salt for hashed lines; optionally split over two files loaded into "
    "one store) x host-name spelling (4: lower / mixed / upper case, same spelling in pins and connect()) x store x 6 policies (Reject, AutoAdd, Warning, accepting, raising, AutoAdd-then-raising; a raising policy "
    "raises a generated exception class: 17 bases from the SSHException / OSError / other-builtin families, itself or a fresh subclass, "
    "3 argument shapes) x 11 ways of supplying the credentials (password=, pkey=, key_filename= path or list, combinations, auth_strategy= "
    "with Password / InMemoryPrivateKey / OnDiskPrivateKey / NoneAuth sources); (history) one SSHClient with a system and a user store "
    "(0..3 lines each: 1-2 names of 2 hosts (4 spellings each) x 3 ports, plain or hashed, 7 keys, the same line forms incl. marker lines, "
    "overlapping lines, user store optionally split over two files) driven through 2..6 events in generated order - "
    "connects (host x port x server key set x policy (+ exception class) x credential source, each to a fresh server) and HostKeys lookups (4 APIs x store x name) - "
    "with the oracle evaluated per connect against the union of both stores plus earlier AutoAdd additions; (pinned) sshclient and history "
    "configurations with >= 1 line, only keys no server presents, mostly accepting policies, frequent overlaps; quick enumerates all lifecycle stage x method x class "
    "combinations; non-trivial = the model forbids sending (mismatch / rejected unknown host), or the auth call happens before "
    "the key exchange finished, or an unknown host is accepted by a policy; distinct by configuration"
)

USER = "verif-user-7f3a"
HOST = "verif.example.org"
OTHERHOST = "other.example.org"
CLIENT_KEY = "ecdsa384"  # never used as a host key
SERVER_KEY_TYPES = ["ed25519", "ecdsa256", "rsa2048"]
CRED_TYPES = (50, 61)
T = 25.0  # "never" detector

# ----------------------------------------------------------------------------- generators

methods = st.sampled_from(["password", "publickey", "interactive", "none"])
secret = st.text(alphabet="0123456789abcdef", min_size=10, max_size=10)
STAGES = ["prestart", 0, 1, 2, 3, 4, "all", "closed"]

lifecycle_st = st.fixed_dictionaries(
    {
        "mode": st.just("lifecycle"),
        "stage": st.sampled_from(STAGES),
        "method": methods,
        "cls": st.sampled_from(["Transport", "ServiceRequestingTransport"]),
        "secret": secret,
        "then_auth": st.booleans(),
    }
)

server_keys = st.lists(st.sampled_from(SERVER_KEY_TYPES), min_size=1, max_size=3, unique=True)

connect_st = st.fixed_dictionaries(
    {
        "mode": st.just("connect"),
        "server_keys": server_keys,
        "hostkey": st.sampled_from(["same", "same", "sibling", "sibling", "othertype", "none"]),
        "pick": st.integers(0, 2),
        "method": st.sampled_from(["password", "publickey"]),
        "secret": secret,
    }
)

ALL_KEYS = ["ed25519", "ed25519b", "ecdsa256", "ecdsa256b", "rsa2048", "rsa2048b", "ecdsa521"]

# every documented way of handing credentials to SSHClient.connect (agent and ~/.ssh discovery switched off):
# the classic keyword arguments, alone and combined, and auth_strategy= with the sources of paramiko.auth_strategy
HOWS = [
    "password",
    "pkey",
    "key_filename",
    "key_filename-list",
    "pkey+password",
    "key_filename+password",
    "strategy:password",
    "strategy:in-memory-key",
    "strategy:on-disk-key",
    "strategy:none,password",
    "strategy:in-memory-key,password",
]
how_st = st.sampled_from(HOWS)
# a refusing policy rejects by raising: the class is generated (paramiko's own, the OSError family, other builtins,
# an application class deriving directly from Exception), optionally a fresh subclass of it
EXC_BASES = [
    "SSHException",
    "AuthenticationException",
    "OSError",
    "IOError",
    "PermissionError",
    "FileNotFoundError",
    "ConnectionRefusedError",
    "ConnectionResetError",
    "TimeoutError",
    "socket.timeout",
    "socket.gaierror",
    "EOFError",
    "ValueError",
    "KeyError",
    "RuntimeError",
    "LookupError",
    "Exception",
]
exc_st = st.fixed_dictionaries({"base": st.sampled_from(EXC_BASES), "sub": st.booleans(), "args": st.sampled_from(["msg", "errno+msg", "none"])})
POLICIES = ["reject", "autoadd", "warning", "accept", "raise", "raise", "autoadd-then-raise"]
RAISING = ("raise", "autoadd-then-raise")


def _with_exc(d):
    """Adds the generated exception class to a configuration whose policy rejects by raising."""
    return exc_st.map(lambda e: dict(d, exc=e)) if d["policy"] in RAISING else st.just(d)

# the line forms of the OpenSSH known_hosts format (sshd(8), SSH_KNOWN_HOSTS FILE FORMAT): "names type key", the same with a
# trailing comment or tab-separated, and lines starting with a marker - "@revoked names type key" (the key must never be
# accepted for these names) and "@cert-authority names type key" (the key is a CA key, not a host key). A marker line
# never makes its key a known, accepted host key of the host. "before": what stands on the line before the entry.
MARKERS = ("revoked", "cert-authority")
FORMS = ["plain"] * 8 + ["comment", "tab"] + list(MARKERS)
form_st = st.sampled_from(FORMS)
before_st = st.sampled_from([None] * 6 + ["comment", "blank", "too-few-fields"])
entry_st = st.fixed_dictionaries(
    {
        "names": st.lists(st.sampled_from(["exact", "exact", "bare", "otherport", "otherhost"]), min_size=1, max_size=2, unique=True),
        "hashed": st.booleans(),
        "key": st.sampled_from(ALL_KEYS),
        "form": form_st,
        "before": before_st,
    }
)


@st.composite
def overlapping(draw, base, min_size=0, max_size=4, often=False):
    """A list of known_hosts entries in which a later line may OVERLAP an earlier one, the way merged / hand-maintained files
    do (name + alias / address lines sharing one host key, a line repeated with one more name, a plain duplicate): the later
    line takes the key of an earlier line and one or all of its names, plus (unless it is a plain duplicate) its own names, in
    generated order. Two hashed lines then share the salt, i.e. the hashed name is textually the same ("salt_i")."""
    es = draw(st.lists(base, min_size=min_size, max_size=max_size))
    out = []
    for i, e in enumerate(es):
        if i and draw(st.integers(0, 1 if often else 3)) == 0:
            j = draw(st.integers(0, i - 1))
            src = out[j]
            how = draw(st.sampled_from(["one-name", "one-name", "all-names", "same-line"] + (["same-line"] if often else ["one-name"])))
            shared = [draw(st.sampled_from(src["names"]))] if how == "one-name" else list(src["names"])
            names = shared if how == "same-line" else list(draw(st.permutations(shared + [n for n in e["names"] if n not in shared])))
            e = dict(e, names=names, key=src["key"])
            if e["hashed"] and src["hashed"]:
                e["salt_i"] = src.get("salt_i", j)
        out.append(e)
    return out


def split_of(entries):
    """Optionally the file is really TWO files loaded one after the other into the same store (None: one file)."""
    return st.sampled_from([None] * 3 + list(range(1, len(entries)))) if len(entries) > 1 else st.none()


# host names are case-insensitive for DNS but a known_hosts name is a string: the name is generated in several spellings; the
# pins and connect() always use the SAME spelling (whether a differently spelled pin counts as known is not asserted)
HOST_SPELLINGS = [HOST, "Verif.Example.ORG", "VERIF.EXAMPLE.ORG", "verif.Example.org"]
OTHER_SPELLINGS = [OTHERHOST, "Other.Example.Org", "OTHER.EXAMPLE.ORG", "other.example.ORG"]
spell_st = st.integers(0, len(HOST_SPELLINGS) - 1)
# keys no server of this harness ever presents: a pin made of them is "a different key of the same type / only other key types"
FOREIGN_KEYS = ["ed25519b", "ecdsa256b", "rsa2048b", "ecdsa521"]
ACCEPTING = ["autoadd", "warning", "accept"]


def _sshclient(entries, policies):
    return (
        st.fixed_dictionaries(
            {
                "mode": st.just("sshclient"),
                "server_keys": server_keys,
                "port": st.sampled_from([22, 22, 2222]),
                "entries": entries,
                "store": st.sampled_from(["system", "local"]),
                "policy": st.sampled_from(policies),
                "how": how_st,
                "secret": secret,
                "spell": spell_st,
            }
        )
        .flatmap(lambda d: split_of(d["entries"]).map(lambda k: dict(d, split=k) if k else d))
        .flatmap(_with_exc)
    )


sshclient_st = _sshclient(overlapping(entry_st), POLICIES)
# pin-centred: at least one line, every pinned key is one the server does NOT present, the policy mostly one that would accept
# an unknown host, overlapping lines frequent: the region where "known host, different key -> nothing is sent" is all that
# stands between the credentials and an impostor
# (a MARKER line of a pin-centred file carries a key the servers do present: the key such a line must not turn into a pin)
pinned_form_st = st.sampled_from(FORMS + list(MARKERS))


def _pinned_entry(names):
    return pinned_form_st.flatmap(
        lambda form: st.fixed_dictionaries(
            {"names": names, "hashed": st.booleans(), "key": st.sampled_from(SERVER_KEY_TYPES if form in MARKERS else FOREIGN_KEYS), "form": st.just(form), "before": before_st}
        )
    )


pinned_entry_st = _pinned_entry(st.lists(st.sampled_from(["exact", "exact", "bare", "otherport", "otherhost"]), min_size=1, max_size=2, unique=True))
PREFERENCE = ["ed25519", "ecdsa256", "rsa2048"]  # generation bias only: the key a server offering several is likely to present


@st.composite
def _pinned_sshclient(draw):
    """... and half of the marker lines carry exactly the key this case's server is going to present."""
    d = draw(_sshclient(overlapping(pinned_entry_st, min_size=1, max_size=5, often=True), ACCEPTING * 3 + ["reject", "raise"]))
    likely = [k for k in PREFERENCE if k in d["server_keys"]][0]
    return dict(d, entries=[dict(e, key=likely) if e["form"] in MARKERS and draw(st.booleans()) else e for e in d["entries"]])


pinned_st = _pinned_sshclient()

HOSTS = [HOST, OTHERHOST]  # history mode: case["spell"] = [i, j] selects the spelling of each (absent: these)
CONNECT_PORTS = [22, 2222]
ENTRY_PORTS = [22, 2222, 2200]
name_st = st.tuples(st.integers(0, len(HOSTS) - 1), st.sampled_from(ENTRY_PORTS)).map(list)
hentry_st = st.fixed_dictionaries({"names": st.lists(name_st, min_size=1, max_size=2, unique_by=tuple), "hashed": st.booleans(), "key": st.sampled_from(ALL_KEYS + SERVER_KEY_TYPES), "form": form_st, "before": before_st})
connect_ev = st.fixed_dictionaries(
    {
        "op": st.just("connect"),
        "host": st.integers(0, len(HOSTS) - 1),
        "port": st.sampled_from(CONNECT_PORTS),
        "server_keys": server_keys,
        "policy": st.sampled_from(POLICIES),
        "how": how_st,
    }
).flatmap(_with_exc)
lookup_ev = st.fixed_dictionaries(
    {
        "op": st.just("lookup"),
        "store": st.sampled_from(["system", "user"]),
        "host": st.integers(0, len(HOSTS) - 1),
        "port": st.sampled_from(ENTRY_PORTS),
        "api": st.sampled_from(["lookup", "check", "contains", "keys"]),
        "key": st.sampled_from(SERVER_KEY_TYPES),
    }
)


def _history(hentry, cev, often=False):
    return st.fixed_dictionaries(
        {
            "mode": st.just("history"),
            "stores": st.fixed_dictionaries({"system": overlapping(hentry, max_size=3, often=often), "user": overlapping(hentry, max_size=3, often=often)}),
            "events": st.lists(st.one_of(cev, cev.map(lambda x: x), lookup_ev), min_size=2, max_size=6).filter(lambda ev: any(e["op"] == "connect" for e in ev)),
            "secret": secret,
            "spell": st.lists(spell_st, min_size=2, max_size=2),
        }
    ).flatmap(lambda d: split_of(d["stores"]["user"]).map(lambda k: dict(d, user_split=k) if k else d))


history_st = _history(hentry_st, connect_ev)
# pin-centred histories: every pinned key is foreign to the servers, the policies mostly accepting (see pinned_st)
pinned_hentry_st = _pinned_entry(st.lists(name_st, min_size=1, max_size=2, unique_by=tuple))
pinned_connect_ev = st.fixed_dictionaries(
    {
        "op": st.just("connect"),
        "host": st.integers(0, len(HOSTS) - 1),
        "port": st.sampled_from(CONNECT_PORTS),
        "server_keys": server_keys,
        "policy": st.sampled_from(ACCEPTING * 3 + ["reject", "raise"]),
        "how": how_st,
    }
).flatmap(_with_exc)
pinned_history_st = _history(pinned_hentry_st, pinned_connect_ev, often=True)

case_st = st.one_of(lifecycle_st, connect_st, sshclient_st, sshclient_st)


# ----------------------------------------------------------------------------- shared observation


def password_of(case):
    return "Pw-" + case["secret"]


def answer_of(case):
    return "Answ3r-" + case["secret"]


def needles(case):
    return [
        ("password", password_of(case).encode()),
        ("interactive-answer", answer_of(case).encode()),
        ("username", USER.encode()),
        ("client-public-key", A.pub_blob(CLIENT_KEY)),
        ("ssh-userauth", b"ssh-userauth"),
        ("ssh-connection", b"ssh-connection"),
    ]


def decode_c2s(chunks, transport):
    epochs = list(transport.v_out) if transport is not None else []
    return peers.Tap(chunks, epochs, True).packets()


def presented_key(link):
    """Host key blob inside the server's key-exchange reply (plaintext), or None."""
    try:
        pk = peers.Tap(list(link.ba.sent), [], False).packets()
    except R.RefError:
        return None
    for epoch, seq, t, p in pk:
        if t in (31, 33):
            try:
                return R.Reader(p).string()
            except R.RefError:
                return None
    return None


def settle(link, tc, ts):
    """Positioning only: let both sides read what is in flight (a side that has ended reads nothing)."""
    end = time.time() + 2.0
    ok = 0
    while time.time() < end and ok < 3:
        a = link.ab.idle() or not ts.is_active()
        b = link.ba.idle() or tc is None or not tc.is_active()
        ok = ok + 1 if (a and b and not link.ab.pending and not link.ba.pending) else 0
        time.sleep(0.002)


def check_stream(ctx, case, link, transport, forbidden, raised, policy_mark, label):
    """All stream-based clauses. Returns (ok, summary)."""
    chunks = list(link.ab.sent)
    raw = b"".join(chunks)
    for name, nd in needles(case):
        if nd in raw:
            ctx.violation("credential-bytes-in-plaintext", "%s:%s" % (label, name), case, "%r found at offset %d of the raw client->server stream (%d bytes)" % (nd[:40], raw.find(nd), len(raw)))
            return False, None
    try:
        pk = decode_c2s(chunks, transport)
    except R.RefError as e:
        raise core.HarnessError("client stream does not decode with the reference: %s (case %r)" % (e, case))
    early = [(e, t) for e, s, t, p in pk if e == 0 and t in CRED_TYPES + (5,)]
    if early:
        ctx.violation("auth-protocol-in-plaintext", "%s:type%d" % (label, early[0][1]), case, "message types before the client's NEWKEYS: %r" % [t for e, s, t, p in pk if e == 0])
        return False, None
    creds = [(e, t) for e, s, t, p in pk if t in CRED_TYPES]
    if forbidden:
        if creds:
            ctx.violation("credentials-sent-to-unaccepted-server", "%s:%s" % (label, forbidden), case, "model forbids sending (%s) but the decrypted client stream contains %r; connect raised: %r" % (forbidden, creds, raised))
            return False, None
        if raised is None:
            ctx.violation("no-exception-for-unaccepted-server", "%s:%s" % (label, forbidden), case, "model forbids the connection (%s) but connect() returned normally" % forbidden)
            return False, None
    if policy_mark is not None and creds:
        before = decode_c2s(chunks[:policy_mark], transport)
        ecreds = [(e, t) for e, s, t, p in before if t in CRED_TYPES]
        if ecreds:
            ctx.violation("credentials-sent-before-policy-accepted", label, case, "bytes written before missing_host_key() returned already contain %r" % ecreds)
            return False, None
    return True, {"creds": creds, "encrypted_50": any(t == 50 and e >= 1 for e, t in creds)}


def good_server(case):
    from paramiko.server import InteractiveQuery

    pw, ans, ckey = password_of(case), answer_of(case), A.pub_blob(CLIENT_KEY)
    return peers.RecordingServer(
        {
            "check_auth_password": lambda u, p: peers.AUTH_SUCCESSFUL if (u, p) == (USER, pw) else peers.AUTH_FAILED,
            "check_auth_publickey": lambda u, k: peers.AUTH_SUCCESSFUL if (u, k) == (USER, ckey) else peers.AUTH_FAILED,
            "check_auth_interactive": lambda u, s: InteractiveQuery("verif", "answer", ("Secret: ", False)),
            "check_auth_interactive_response": lambda r: peers.AUTH_SUCCESSFUL if r == [ans] else peers.AUTH_FAILED,
        }
    )


def start_server(ts, srv):
    ev = threading.Event()
    err = {}

    def go():
        try:
            ts.start_server(event=ev, server=srv)
        except BaseException as e:  # recorded, irrelevant for the client-side statement
            err["e"] = e

    th = threading.Thread(target=go, daemon=True)
    th.start()
    th.join(T)
    return ev


def do_auth(tc, case, method):
    """The client-side auth call for `method`; returns the exception it raised (or None)."""
    try:
        if method == "password":
            tc.auth_password(USER, password_of(case), fallback=False)
        elif method == "publickey":
            tc.auth_publickey(USER, peers.keypool()[CLIENT_KEY])
        elif method == "interactive":
            tc.auth_interactive(USER, lambda title, instr, prompts: [answer_of(case)] * len(prompts))
        else:
            tc.auth_none(USER)
    except Exception as e:
        return e
    return None


# ----------------------------------------------------------------------------- lifecycle


def run_lifecycle(ctx, case, classes):
    cls = peers.VTransport if case["cls"] == "Transport" else peers.VServiceTransport
    link, tc, ts = peers.make_pair(client_cls=cls, server_cls=peers.VTransport)
    tc.auth_timeout = T
    stage = case["stage"]
    res = {}
    try:
        link.ba.set_hold(True)
        start_server(ts, good_server(case))

        def call():
            res["exc"] = do_auth(tc, case, case["method"])
            res["done"] = True

        th = threading.Thread(target=call, daemon=True)
        cev = threading.Event()
        if stage == "prestart":
            th.start()
            th.join(T)
            tc.start_client(event=cev)
            link.ba.set_hold(False)
        elif stage == "closed":
            link.ba.set_hold(False)
            tc.start_client(event=cev)
            cev.wait(T)
            tc.close()
            th.start()
            th.join(T)
        else:
            tc.start_client(event=cev)
            if stage == "all":
                link.ba.set_hold(False)
                cev.wait(T)
                settle(link, tc, ts)
            else:
                for _ in range(stage):
                    if not link.ba.wait_pending(1, timeout=T):
                        raise core.HarnessError("server never produced handshake chunk (stage %r)" % stage)
                    link.ba.release(1)
                # positioning: let the client consume what it got
                end = time.time() + 2.0
                ok = 0
                while time.time() < end and ok < 3:
                    ok = ok + 1 if link.ba.idle() else 0
                    time.sleep(0.002)
            th.start()
            th.join(0.05)
            link.ba.set_hold(False)
            th.join(T)
        if not res.get("done"):
            # the call must end once the handshake is released (auth_timeout bounds it)
            th.join(T)
            if not res.get("done"):
                raise core.HarnessError("auth call never returned (case %r)" % case)
        early = stage in ("prestart", 0, 1, 2, 3)
        if early or stage == "closed":
            classes.add("early-call-raised:%s" % type(res["exc"]).__name__)
        if stage != "closed":
            cev.wait(T)
        if case["then_auth"] and stage != "closed" and tc.is_active() and not tc.is_authenticated():
            e2 = do_auth(tc, case, case["method"] if case["method"] != "none" else "password")
            classes.add("second-auth:%s" % ("ok" if e2 is None else type(e2).__name__))
        settle(link, tc, ts)
        ok, summ = check_stream(ctx, case, link, tc, None, None, None, "lifecycle:%s" % case["method"])
        if ok and summ["encrypted_50"]:
            classes.add("control:encrypted-userauth-seen")
        return early or stage == "closed"
    finally:
        link.ba.set_hold(False)
        peers.shutdown(tc, ts)


# ----------------------------------------------------------------------------- Transport.connect


def pool_key(name):
    return peers.keypool()[name]


def sibling_of(name):
    return {"ed25519": "ed25519b", "ecdsa256": "ecdsa256b", "rsa2048": "rsa2048b"}[name]


def run_connect(ctx, case, classes):
    skeys = case["server_keys"]
    link, tc, ts = peers.make_pair(client_cls=peers.VTransport, server_cls=peers.VTransport, host_keys=tuple(skeys))
    tc.auth_timeout = T
    try:
        start_server(ts, good_server(case))
        base = skeys[case["pick"] % len(skeys)]
        hk = case["hostkey"]
        if hk == "same":
            hostkey = base
        elif hk == "sibling":
            hostkey = sibling_of(base)
        elif hk == "othertype":
            others = [k for k in SERVER_KEY_TYPES + ["ecdsa521"] if k not in skeys]
            hostkey = others[case["pick"] % len(others)]
        else:
            hostkey = None
        kw = {"username": USER}
        if case["method"] == "password":
            kw["password"] = password_of(case)
        else:
            kw["pkey"] = pool_key(CLIENT_KEY)
        raised = None
        try:
            tc.connect(hostkey=pool_key(hostkey) if hostkey else None, **kw)
        except Exception as e:
            raised = e
        settle(link, tc, ts)
        presented = presented_key(link)
        forbidden = None
        if hostkey is not None and presented != A.pub_blob(hostkey):
            forbidden = "hostkey-mismatch:%s" % hk if presented is not None else "no-common-hostkey-type"
        classes.add("connect:%s:%s" % (hk, "forbidden" if forbidden else "allowed"))
        ok, summ = check_stream(ctx, case, link, tc, forbidden, raised, None, "connect")
        if ok and not forbidden:
            if summ["encrypted_50"]:
                classes.add("control:encrypted-userauth-seen")
            else:
                ctx.inconc("accepted-configuration-without-userauth")
        return bool(forbidden)
    finally:
        peers.shutdown(tc, ts)


# ----------------------------------------------------------------------------- SSHClient


def lookup_name(host, port):
    return host if port == 22 else "[%s]:%d" % (host, port)


def how_of(cfg):
    """cfg = a sshclient case or a history connect event (older replays carry "method")."""
    return cfg.get("how") or {"password": "password", "publickey": "pkey"}[cfg["method"]]


def cred_kwargs(case, how):
    """Keyword arguments for SSHClient.connect supplying the credentials the way `how` says."""
    import paramiko
    from paramiko import auth_strategy as AS

    pw = password_of(case)
    path = os.path.join(peers.KEYDIR, CLIENT_KEY + ".key")
    if not how.startswith("strategy:"):
        kw = {}
        for part in how.split("+"):
            if part == "password":
                kw["password"] = pw
            elif part == "pkey":
                kw["pkey"] = pool_key(CLIENT_KEY)
            elif part == "key_filename":
                kw["key_filename"] = path
            elif part == "key_filename-list":
                kw["key_filename"] = [os.path.join(peers.KEYDIR, "ecdsa521.key"), path]  # the first key is not authorised
            else:
                raise core.HarnessError("unknown credential source %r" % how)
        return kw
    srcs = []
    for part in how[len("strategy:") :].split(","):
        if part == "password":
            srcs.append(AS.Password(USER, lambda: pw))
        elif part == "in-memory-key":
            srcs.append(AS.InMemoryPrivateKey(USER, pool_key(CLIENT_KEY)))
        elif part == "on-disk-key":
            srcs.append(AS.OnDiskPrivateKey(USER, "python-config", path, pool_key(CLIENT_KEY)))
        elif part == "none":
            srcs.append(AS.NoneAuth(USER))
        else:
            raise core.HarnessError("unknown credential source %r" % how)

    class Strategy(AS.AuthStrategy):
        def get_sources(self):
            for x in srcs:
                yield x

    return {"auth_strategy": Strategy(ssh_config=paramiko.SSHConfig())}


def refusal_base(exc):
    import builtins
    import socket

    import paramiko

    name = (exc or {}).get("base", "SSHException")
    if name.startswith("socket."):
        return getattr(socket, name[len("socket.") :])
    if name in ("SSHException", "AuthenticationException"):
        return getattr(paramiko, name)
    return getattr(builtins, name)


def refusal(exc):
    """The exception instance a refusing policy raises; exc = {"base", "sub", "args"} (absent: SSHException)."""
    exc = exc or {"base": "SSHException", "sub": False, "args": "msg"}
    base = refusal_base(exc)
    cls = type("VerifRefusal", (base,), {}) if exc["sub"] else base
    if exc["args"] == "errno+msg" and issubclass(base, OSError):
        return cls(13, "verif policy says no")
    if exc["args"] == "none":
        return cls()
    return cls("verif policy says no")


def exc_class(exc):
    """Evidence class of a generated refusal."""
    import paramiko

    base = refusal_base(exc)
    fam = "OSError-family" if issubclass(base, OSError) else "SSHException-family" if issubclass(base, paramiko.SSHException) else "other"
    return "%s:%s%s" % (fam, base.__name__, ":subclass" if (exc or {}).get("sub") else "")


def spelled(case):
    """(host, other host) as this sshclient case spells them (older cases: the lower-case constants)."""
    i = case.get("spell", 0)
    return HOST_SPELLINGS[i % len(HOST_SPELLINGS)], OTHER_SPELLINGS[i % len(OTHER_SPELLINGS)]


def spelling_class(name):
    return "lower-case" if name == name.lower() else "upper-case" if name == name.upper() else "mixed-case"


def entry_names(kinds, port, host=HOST, other=OTHERHOST):
    out = []
    for k in kinds:
        if k == "exact":
            out.append(lookup_name(host, port))
        elif k == "bare":
            out.append(host)
        elif k == "otherport":
            out.append("[%s]:%d" % (host, 2200))
        else:
            out.append(lookup_name(other, port))
    return out


def overlap_classes(lines, want, classes):
    """lines = [(set of plain names, key blob, is_marker)] of ONE store in file order. Evidence classes of the overlaps between a
    line and the lines before it (same key, common names)."""
    for i, (names, blob, marker) in enumerate(lines):
        common = set()
        for names0, blob0, marker0 in lines[:i]:
            if blob0 == blob and not marker0:
                common |= names & names0
        if not common or marker:
            continue
        classes.add("known_hosts-line-overlaps-an-earlier-line:" + ("all-of-its-names" if common == names else "some-of-its-names"))
        if common != names and want in names - common and not any(want in n0 for n0, b0, m0 in lines[:i] + lines[i + 1 :] if not m0):
            classes.add("connected-name-stands-only-on-a-line-that-partly-repeats-an-earlier-line")


def hash_name(name, salt):
    mac = hmac.new(salt, name.encode(), hashlib.sha1).digest()
    return "|1|%s|%s" % (base64.b64encode(salt).decode(), base64.b64encode(mac).decode())


def is_marker(e):
    """A known_hosts entry written as a marker line (older cases carry no "form": plain)."""
    return e.get("form") in MARKERS


def entry_lines(e, names):
    """The line(s) of the known_hosts file for one generated entry (names already plain or hashed)."""
    blob = A.pub_blob(e["key"])
    fields = [",".join(names), R.Reader(blob).string().decode(), base64.b64encode(blob).decode()]
    form = e.get("form") or "plain"
    line = ("\t" if form == "tab" else " ").join(fields)
    if form == "comment":
        line += " verif@%s added 2026-09-22" % OTHERHOST
    elif form in MARKERS:
        line = "@%s %s" % (form, line)
    pre = {None: [], "comment": ["# %s (old key, see ticket 4711)" % names[0]], "blank": [""], "too-few-fields": ["%s %s" % (names[0], fields[1])]}[e.get("before")]
    return pre + [line]


def line_classes(entries, classes):
    for e in entries:
        classes.add("known_hosts-line:" + (("@" + e["form"]) if is_marker(e) else (e.get("form") or "plain")) + (":hashed-names" if is_marker(e) and e["hashed"] else ""))
        if e.get("before"):
            classes.add("known_hosts-line-preceded-by:" + e["before"])


def load_store(load, path, entries, classes):
    """Loads one known_hosts file the way an application does that carries on when a file is refused. A file without
    marker lines must load. Returns the exception (or None): what an SSHClient knows from a file whose loading raised
    half-way is implementation-defined (the tree under test keeps the lines before the one it stumbled over)."""
    try:
        load(path)
    except Exception as e:
        if not any(is_marker(x) for x in entries):
            raise core.HarnessError("known_hosts file without marker lines refused: %r (entries %r)" % (e, entries))
        classes.add("known_hosts-with-marker-line:load-raised:" + type(e).__name__)
        return e
    if any(is_marker(x) for x in entries):
        classes.add("known_hosts-with-marker-line:loaded")
    return None


def known_hosts_texts(case):
    """The text of the known_hosts file - or of the two files (case["split"]) that are loaded one after the other."""
    host, other = spelled(case)
    per_entry = []
    for i, e in enumerate(case["entries"]):
        names = entry_names(e["names"], case["port"], host, other)
        if e["hashed"]:
            names = [hash_name(n, hashlib.sha1(("salt-%d-%s" % (e.get("salt_i", i), n)).encode()).digest()) for n in names]
        per_entry.append(entry_lines(e, names))
    k = case.get("split")
    parts = [per_entry[:k], per_entry[k:]] if k else [per_entry]
    return ["".join(l + "\n" for ls in part for l in ls) for part in parts]


def run_sshclient(ctx, case, classes):
    import paramiko

    skeys = case["server_keys"]
    link, _unused, ts = peers.make_pair(client_cls=peers.VTransport, server_cls=peers.VTransport, host_keys=tuple(skeys))
    _unused.close()
    client = paramiko.SSHClient()
    marks = {}

    def mark():
        marks["n"] = len(link.ab.sent)

    pol = case["policy"]
    policy = make_policy_obj(paramiko, pol, marks, mark, case.get("exc"))
    try:
        host, other = spelled(case)
        load_exc = None
        k = case.get("split")
        parts = [case["entries"][:k], case["entries"][k:]] if k else [case["entries"]]
        for n, text in enumerate(known_hosts_texts(case)):
            path = os.path.join(ctx.tmpdir(), "known_hosts_%d_%d" % (ctx.evaluations, n))
            with open(path, "w") as f:
                f.write(text)
            load_exc = load_store(client.load_system_host_keys if case["store"] == "system" else client.load_host_keys, path, parts[n], classes) or load_exc
        if k:
            classes.add("known_hosts-in-two-files-loaded-into-one-store")
        line_classes(case["entries"], classes)
        classes.add("host-name-spelling:" + spelling_class(host))
        client.set_missing_host_key_policy(policy)
        start_server(ts, good_server(case))
        how = how_of(case)
        kw = cred_kwargs(case, how)
        raised = None
        with warnings.catch_warnings():
            warnings.simplefilter("ignore")
            try:
                client.connect(host, port=case["port"], username=USER, sock=link.a, allow_agent=False, look_for_keys=False, timeout=T, banner_timeout=T, auth_timeout=T, transport_factory=peers.VTransport, **kw)
            except Exception as e:
                raised = e
        tc = client.get_transport()
        settle(link, tc, ts)
        # ---- model
        want = lookup_name(host, case["port"])
        named = [e for e in case["entries"] if want in entry_names(e["names"], case["port"], host, other)]
        overlap_classes([(set(entry_names(e["names"], case["port"], host, other)), A.pub_blob(e["key"]), is_marker(e)) for e in case["entries"]], want, classes)
        if [e for e in named if not is_marker(e)]:
            classes.add("pinned-under-a-%s-name" % spelling_class(host))
        # only ordinary lines make a key a known host key; a marker line (@revoked / @cert-authority) never does
        matching = [e for e in named if not is_marker(e)]
        presented = presented_key(link)
        marker_only = ""
        for e in named:
            if is_marker(e):
                classes.add("marker-line-names-the-host:@%s:%s" % (e["form"], "with-the-presented-key" if A.pub_blob(e["key"]) == presented else "with-another-key"))
                if not matching:
                    marker_only = ":host-named-only-by-a-marker-line"
        if matching and load_exc is not None:
            # the file was refused half-way: whether its ordinary lines count is implementation-defined. The client's own
            # behaviour decides which clause applies: it consulted the policy = it treats the host as unknown
            classes.add("known-ordinary-line-in-a-refused-file:treated-as-" + ("unknown" if "called" in marks else "known"))
            if "called" in marks:
                matching = []
        forbidden = None
        policy_mark = None
        if matching:
            if presented is None or presented not in [A.pub_blob(e["key"]) for e in matching]:
                forbidden = "known-host-key-mismatch"
            classes.add("known:" + ("mismatch" if forbidden else "match"))
        else:
            if pol in ("reject",) + RAISING:
                forbidden = "unknown-host-policy-" + pol + marker_only
                if pol in RAISING:
                    classes.add("policy-raises:" + exc_class(case.get("exc")))
            else:
                policy_mark = marks.get("n")
                if policy_mark is None and raised is None:
                    # accepted without the policy ever being consulted
                    ctx.violation("policy-not-consulted-for-unknown-host", pol + marker_only, case, "host unknown to the client (no known_hosts line for %r) but missing_host_key() was never called and connect() succeeded" % want)
                    return True
                if policy_mark is None:
                    policy_mark = 0
            classes.add("unknown:" + pol)
        if any(e["hashed"] for e in case["entries"]):
            classes.add("hashed-entries")
        if case["port"] != 22:
            classes.add("non-default-port")
        classes.add("credentials-via:%s:%s" % (how, "forbidden" if forbidden else "allowed"))
        ok, summ = check_stream(ctx, case, link, tc, forbidden, raised, policy_mark, "sshclient")
        if ok and not forbidden:
            if summ["encrypted_50"]:
                classes.add("control:encrypted-userauth-seen")
            else:
                classes.add("allowed-but-no-userauth:%s" % type(raised).__name__)
        return bool(forbidden) or (not matching and pol in ("autoadd", "warning", "accept"))
    finally:
        try:
            client.close()
        except Exception:
            pass
        t = client.get_transport()
        peers.shutdown(*([t] if t is not None else []), ts)
        link.close()


# ----------------------------------------------------------------------------- SSHClient histories


def history_hosts(case):
    """The two host names as this history spells them (older cases: the lower-case constants)."""
    sp = case.get("spell") or [0, 0]
    return [HOST_SPELLINGS[sp[0] % len(HOST_SPELLINGS)], OTHER_SPELLINGS[sp[1] % len(OTHER_SPELLINGS)]]


def abs_name(n, hosts=HOSTS):
    return lookup_name(hosts[n[0]], n[1])


def store_texts(entries, tag, hosts=HOSTS, split=None):
    """The text of one store's file - or of the two files (split) loaded one after the other into that store."""
    per_entry = []
    for i, e in enumerate(entries):
        names = [abs_name(n, hosts) for n in e["names"]]
        if e["hashed"]:
            names = [hash_name(n, hashlib.sha1(("salt-%s-%d-%s" % (tag, e.get("salt_i", i), n)).encode()).digest()) for n in names]
        per_entry.append(entry_lines(e, names))
    parts = [per_entry[:split], per_entry[split:]] if split else [per_entry]
    return ["".join(l + "\n" for ls in part for l in ls) for part in parts]


def drop_line(case, tag, j):
    """The history without line j of store `tag` (references to line numbers - shared salts, the file split - adjusted)."""
    st_ = dict(case["stores"])
    rest = []
    for i, e in enumerate(st_[tag]):
        if i == j:
            continue
        if "salt_i" in e:
            e = dict(e)
            if e["salt_i"] == j:
                del e["salt_i"]
            elif e["salt_i"] > j:
                e["salt_i"] -= 1
        rest.append(e)
    st_[tag] = rest
    out = dict(case, stores=st_)
    k = case.get("user_split")
    if tag == "user" and k:
        k = k - 1 if j < k else k
        if 0 < k < len(rest):
            out["user_split"] = k
        else:
            out.pop("user_split", None)
    return out


class _Capture:
    """Stands in for ctx while a history runs: the first oracle failure is kept, not reported
    (the driver reports it with the reduced history)."""

    def __init__(self):
        self.v = None

    def violation(self, clause, bucket, case, detail):
        if self.v is None:
            self.v = (clause, bucket, detail)
        return False


def make_policy_obj(paramiko, pol, marks, mark, exc=None):
    class Accept(paramiko.MissingHostKeyPolicy):
        def missing_host_key(self, c, hostname, key):
            marks["called"] = (hostname, key.asbytes())
            mark()

    class Raise(paramiko.MissingHostKeyPolicy):
        def missing_host_key(self, c, hostname, key):
            marks["called"] = (hostname, key.asbytes())
            raise refusal(exc)

    class AddThenRaise(paramiko.AutoAddPolicy):
        """Records the key like AutoAddPolicy, then refuses this connection all the same."""

        def missing_host_key(self, c, hostname, key):
            marks["called"] = (hostname, key.asbytes())
            paramiko.AutoAddPolicy.missing_host_key(self, c, hostname, key)
            raise refusal(exc)

    def wrap(base):
        class P(base):
            def missing_host_key(self, c, hostname, key):
                marks["called"] = (hostname, key.asbytes())
                try:
                    return base.missing_host_key(self, c, hostname, key)
                finally:
                    mark()

        return P()

    return {"reject": lambda: wrap(paramiko.RejectPolicy), "autoadd": lambda: wrap(paramiko.AutoAddPolicy), "warning": lambda: wrap(paramiko.WarningPolicy), "accept": Accept, "raise": Raise, "autoadd-then-raise": AddThenRaise}[pol]()


def execute_history(ctx, case, classes):
    """Runs the events on one SSHClient. Returns dict(violation=(clause, bucket, detail)|None,
    at=index of the event that showed it, nontrivial=bool)."""
    import paramiko

    out = {"violation": None, "at": -1, "nontrivial": False}
    cap = _Capture()
    client = paramiko.SSHClient()
    d = ctx.tmpdir()
    hosts = history_hosts(case)
    usplit = case.get("user_split")
    refused = {}  # (store, file number) -> loading that file raised
    for tag, load in (("system", client.load_system_host_keys), ("user", client.load_host_keys)):
        ents = case["stores"][tag]
        split = usplit if tag == "user" and usplit and 0 < usplit < len(ents) else None
        parts = [ents[:split], ents[split:]] if split else [ents]
        for n, text in enumerate(store_texts(ents, tag, hosts, split)):
            path = os.path.join(d, "kh_%s%d_%d_%d" % (tag, n, ctx.evaluations, threading.get_ident()))
            with open(path, "w") as f:
                f.write(text)
            refused[(tag, n)] = load_store(load, path, parts[n], classes) is not None
        if split:
            classes.add("known_hosts-in-two-files-loaded-into-one-store")
    usplit = usplit if usplit and 0 < usplit < len(case["stores"]["user"]) else None

    def sure(tag, idx):
        return not refused[(tag, 1 if tag == "user" and usplit and idx >= usplit else 0)]

    for tag in ("system", "user"):
        line_classes(case["stores"][tag], classes)
    for h in hosts:
        classes.add("host-name-spelling:" + spelling_class(h))
    stores = {"system": client._system_host_keys, "user": client.get_host_keys()}
    # model of "known to this SSHClient": (plain names, key blob, sure) of every ORDINARY line of both stores (a marker line
    # never makes its key a known host key), plus AutoAdd additions; sure=False: the line stands in a file whose loading raised
    known = [(set(abs_name(n, hosts) for n in e["names"]), A.pub_blob(e["key"]), sure(tag, idx)) for tag in ("system", "user") for idx, e in enumerate(case["stores"][tag]) if not is_marker(e)]
    marked = [(set(abs_name(n, hosts) for n in e["names"]), A.pub_blob(e["key"]), e["form"]) for tag in ("system", "user") for e in case["stores"][tag] if is_marker(e)]
    store_lines = {tag: [(set(abs_name(n, hosts) for n in e["names"]), A.pub_blob(e["key"]), is_marker(e)) for e in case["stores"][tag]] for tag in ("system", "user")}
    hashed_in = {tag: any(e["hashed"] for e in case["stores"][tag]) for tag in ("system", "user")}
    names_seen = {"system": set(), "user": set()}  # names each HostKeys object has been asked about so far
    if case["stores"]["system"] and case["stores"]["user"]:
        classes.add("history:both-stores-populated")
    if any(hashed_in.values()) and any(not e["hashed"] for tag in ("system", "user") for e in case["stores"][tag]):
        classes.add("history:hashed-and-plain-lines-mixed")
    nconn = 0
    auto = set()  # names an AutoAdd policy has added during this history
    try:
        for i, ev in enumerate(case["events"]):
            out["at"] = i
            want = lookup_name(hosts[ev["host"]], ev["port"])
            if ev["op"] == "lookup":
                hk = stores[ev["store"]]
                names_seen[ev["store"]].add(want)
                if ev["api"] == "lookup":
                    hk.lookup(want)
                elif ev["api"] == "check":
                    hk.check(want, pool_key(ev["key"]))
                elif ev["api"] == "contains":
                    want in hk
                else:
                    hk.keys()
                classes.add("history:lookup-api:" + ev["api"])
                continue
            nconn += 1
            for tag in ("system", "user"):
                if hashed_in[tag] and names_seen[tag] - {want}:
                    classes.add("history:hashed-line-already-compared-with-another-name")
            names_seen["system"].add(want)
            names_seen["user"].add(want)
            link, _unused, ts = peers.make_pair(client_cls=peers.VTransport, server_cls=peers.VTransport, host_keys=tuple(ev["server_keys"]))
            _unused.close()
            marks = {}

            def mark(marks=marks, link=link):
                marks["n"] = len(link.ab.sent)

            tc = None
            try:
                client.set_missing_host_key_policy(make_policy_obj(paramiko, ev["policy"], marks, mark, ev.get("exc")))
                start_server(ts, good_server(case))
                how = how_of(ev)
                kw = cred_kwargs(case, how)
                raised = None
                before = client.get_transport()
                with warnings.catch_warnings():
                    warnings.simplefilter("ignore")
                    try:
                        client.connect(hosts[ev["host"]], port=ev["port"], username=USER, sock=link.a, allow_agent=False, look_for_keys=False, timeout=T, banner_timeout=T, auth_timeout=T, transport_factory=peers.VTransport, **kw)
                    except Exception as e:
                        raised = e
                tc = client.get_transport()
                if tc is before:
                    tc = None
                settle(link, tc, ts)
                # ---- model, for this connect
                matching = [blob for names, blob, sure_ in known if want in names]
                presented = presented_key(link)
                for tag in ("system", "user"):
                    overlap_classes(store_lines[tag], want, classes)
                if matching:
                    classes.add("pinned-under-a-%s-name" % spelling_class(hosts[ev["host"]]))
                marker_only = ""
                for names, blob, form in marked:
                    if want in names:
                        classes.add("marker-line-names-the-host:@%s:%s" % (form, "with-the-presented-key" if blob == presented else "with-another-key"))
                        if not matching:
                            marker_only = ":host-named-only-by-a-marker-line"
                if matching and not any(sure_ for names, blob, sure_ in known if want in names):
                    # every ordinary line naming the host stands in a file that was refused half-way: the client's own
                    # behaviour decides which clause applies (it consulted the policy = it treats the host as unknown)
                    classes.add("known-ordinary-line-in-a-refused-file:treated-as-" + ("unknown" if "called" in marks else "known"))
                    if "called" in marks:
                        matching = []
                forbidden = None
                policy_mark = None
                pol = ev["policy"]
                if matching:
                    if presented is None or presented not in matching:
                        forbidden = "known-host-key-mismatch"
                    classes.add("history:known:" + ("mismatch" if forbidden else "match"))
                    if want in auto:
                        classes.add("history:known-through-earlier-autoadd")
                else:
                    if pol in ("reject",) + RAISING:
                        forbidden = "unknown-host-policy-" + pol + marker_only
                        if pol in RAISING:
                            classes.add("policy-raises:" + exc_class(ev.get("exc")))
                        if pol == "autoadd-then-raise" and "called" in marks and presented is not None:
                            # the refusing policy recorded the key first: the host is known to this client from now on
                            known.append(({want}, presented, True))
                            auto.add(want)
                    else:
                        policy_mark = marks.get("n")
                        if policy_mark is None and raised is None:
                            out["violation"] = (
                                "policy-not-consulted-for-unknown-host",
                                "history:" + pol + marker_only,
                                "event %d: host unknown to the client (no known_hosts line of either store, nor an earlier AutoAdd, names %r) but missing_host_key() was never called and connect() succeeded" % (i, want),
                            )
                            return out
                        if policy_mark is None:
                            policy_mark = 0
                        out["nontrivial"] = True
                        if pol == "autoadd" and "called" in marks and presented is not None:
                            known.append(({want}, presented, True))
                            auto.add(want)
                    classes.add("history:unknown:" + pol)
                if forbidden:
                    out["nontrivial"] = True
                if nconn > 1:
                    classes.add("history:connect-number:%d" % min(nconn, 4))
                classes.add("credentials-via:%s:%s" % (how, "forbidden" if forbidden else "allowed"))
                ok, summ = check_stream(cap, case, link, tc, forbidden, raised, policy_mark, "history")
                if not ok:
                    c, b, dt = cap.v
                    out["violation"] = (c, b, "event %d (%r), names this client was asked about before: system %r user %r: %s" % (i, ev, sorted(names_seen["system"] - {want}), sorted(names_seen["user"] - {want}), dt))
                    return out
                if not forbidden:
                    if summ["encrypted_50"]:
                        classes.add("control:encrypted-userauth-seen")
                    else:
                        classes.add("allowed-but-no-userauth:%s" % type(raised).__name__)
            finally:
                peers.shutdown(*([tc] if tc is not None else []), ts)
                link.close()
        classes.add("history:connects=%d" % min(nconn, 4))
        return out
    finally:
        try:
            client.close()
        except Exception:
            pass


def run_history(ctx, case, classes):
    res = execute_history(ctx, case, classes)
    v = res["violation"]
    if v is None:
        return res["nontrivial"]
    best = dict(case, events=case["events"][: res["at"] + 1])
    if not ctx.replaying:
        # reduce: drop earlier events, then known_hosts lines, as long as the same signature shows
        def still(cand):
            r = execute_history(ctx, cand, set())
            return r["violation"] is not None and r["violation"][:2] == v[:2] and r["at"] == len(cand["events"]) - 1

        j = 0
        while j < len(best["events"]) - 1:
            cand = dict(best, events=best["events"][:j] + best["events"][j + 1 :])
            if still(cand):
                best = cand
            else:
                j += 1
        for tag in ("system", "user"):
            j = 0
            while j < len(best["stores"][tag]):
                cand = drop_line(best, tag, j)
                if still(cand):
                    best = cand
                else:
                    j += 1
        r = execute_history(ctx, best, set())
        if r["violation"] is not None and r["violation"][:2] == v[:2]:
            v = r["violation"]
        else:
            best = dict(case, events=case["events"][: res["at"] + 1])
    ctx.violation(v[0], v[1], best, v[2])
    return True


# ----------------------------------------------------------------------------- driver


def run_case(ctx, case, record=True):
    classes = set(["mode:" + case["mode"]])
    nontrivial = False
    try:
        if case["mode"] == "lifecycle":
            nontrivial = run_lifecycle(ctx, case, classes)
        elif case["mode"] == "connect":
            nontrivial = run_connect(ctx, case, classes)
        elif case["mode"] == "history":
            nontrivial = run_history(ctx, case, classes)
        else:
            nontrivial = run_sshclient(ctx, case, classes)
    finally:
        if record:
            ctx.case(case, bool(nontrivial), sorted(classes))


def enumerated():
    out = []
    for cls in ("Transport", "ServiceRequestingTransport"):
        for m in ("password", "publickey", "interactive", "none"):
            for stg in STAGES:
                out.append({"mode": "lifecycle", "stage": stg, "method": m, "cls": cls, "secret": "0123456789", "then_auth": stg in (0, 2, 3, "prestart")})
    return out


def run(ctx):
    ctx.set_budget(75, 780)
    ctx.assume("a SERVICE_REQUEST sent before the client's NEWKEYS counts as starting the authentication protocol in plaintext (a conforming client never does that)")
    ctx.assume("'known to SSHClient' = an ordinary known_hosts line (not one behind an @revoked / @cert-authority marker) whose (plain or hashed) name equals the host, or [host]:port for a non-default port")
    ctx.assume("an application carries on when loading a known_hosts file that contains marker lines raises; which ordinary lines of such a file count is then implementation-defined")
    enum = [c for i, c in enumerate(enumerated()) if i % ctx.nworkers == ctx.worker]
    for c in enum:
        if ctx.out_of_time():
            break
        run_case(ctx, c)
    ctx.note("lifecycle_combinations_enumerated", len(enum))
    ctx.explore(case_st, lambda c: run_case(ctx, c), ctx.scale(240, 2200), shrink=False)
    ctx.explore(history_st, lambda c: run_case(ctx, c), ctx.scale(120, 1200), shrink=False, seed_offset=1)
    ctx.explore(pinned_st, lambda c: run_case(ctx, c), ctx.scale(170, 1200), shrink=False, seed_offset=2)
    ctx.explore(pinned_history_st, lambda c: run_case(ctx, c), ctx.scale(60, 600), shrink=False, seed_offset=3)
    if ctx.classes.get("control:encrypted-userauth-seen", 0) == 0 and not ctx.budget_hit and not ctx.unknown:
        raise core.HarnessError("no accepted configuration ever showed an encrypted USERAUTH_REQUEST: the Tap would be vacuous")


def replay(ctx, case):
    run_case(ctx, case)
