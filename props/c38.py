"""C38 - peer protocol violations surface as SSH exceptions, not internal errors.

Structured fuzzing of every message a client or server parses. A *case* is one session script:
  family "pre"   : the harness plays the peer with raw bytes on the link before NEWKEYS
                   (banner lines, KEXINIT, method-specific kex messages for every kex engine);
  family "post"  : an authenticated session with an open channel; a recording puppet peer
                   sends grammar-built, then mutated, connection/transport messages (1-4); on the tested
                   side - either role - 0-3 application calls are kept waiting ON THE ONE TRANSPORT meanwhile:
                   open_session / open_channel, global_request, exec_command / invoke_shell / invoke_subsystem /
                   get_pty / request_x11 (the first on the open channel, each further one on a channel of its
                   own) and renegotiate_keys - the re-key stage: the puppet then HOLDS the exchange (leaves the
                   KEXINIT unanswered), so the tested side stays inside it while the script's messages, the kex
                   messages of the grammar among them, arrive ("postc": 1-5 messages for the open channel only,
                   mutations that prefer its text fields / the text ARGUMENTS of its requests);
  "bye"          : a script of pre / post / postc / authc may end with the peer's SSH_MSG_DISCONNECT - the one message
                   every stage accepts - built from its grammar (code, description, language tag), mutated like every
                   other message (text-preferring) and placed after 0..n of the script's messages: while start_client /
                   start_server (both forms), renegotiate_keys and the other waiting calls, or an auth_* call waits;
                   authk's final "disconnect" comes from the same grammar;
  family "reply" : answer-centred, either role: 1-3 rounds on one authenticated session; per round an application call
                   that waits for the peer's ANSWER is started on the tested side - a channel open of every kind
                   (open_session, open_channel direct-tcpip, open_x11_channel, open_forwarded_tcpip_channel,
                   open_forward_agent_channel), a channel request (exec_command, invoke_shell, invoke_subsystem, get_pty,
                   request_x11, set_environment_variable) or a global request (request_port_forward port 0 / fixed,
                   cancel_port_forward, global_request(wait=True)) - and the puppet answers exactly that call:
                   OPEN_CONFIRMATION / OPEN_FAILURE, CHANNEL_SUCCESS / FAILURE, REQUEST_SUCCESS / FAILURE from the grammar,
                   addressed with the ids really in use, with mutations that prefer the INTEGER fields (recipient / sender
                   ids, reason codes, window and packet sizes, ports); 0-1 further answers of any category follow;
  family "authc" : tested client inside auth_none/password/publickey/interactive while a
                   raw-mode puppet server answers with mutated SERVICE_ACCEPT/USERAUTH_* messages;
                   "authk": whole keyboard-interactive conversations - SERVICE_ACCEPT, 1-3
                   INFO_REQUEST rounds (0-3 prompts, mutated, each sent when the client's request /
                   previous INFO_RESPONSE arrived), final verdict - reached through auth_interactive,
                   auth_interactive_dumb and auth_password's automatic fallback (the server's
                   FAILURE list offers keyboard-interactive without password);
  family "auths" : tested server; raw-mode puppet client sends mutated SERVICE_REQUEST /
                   USERAUTH_REQUEST / INFO_RESPONSE and connection-layer messages before auth;
  family "wire"  : after NEWKEYS the ciphertext (every cipher class) or the compressed stream
                   from the peer is corrupted.
Oracle: whatever start_client / start_server / the pending auth_* call raises, and whatever
get_exception() returns - afterwards to the harness, or meanwhile to paramiko's own callers: a
blocked channel call re-raises and clears it, so the method is wrapped on the tested instance and
every value it hands out is judged - is an SSHException, EOFError or OSError - or nothing failed.
The same holds for what an application call that was waiting for the peer (open_session / open_channel, channel
request, global request, renegotiate_keys: families post, postc, reply) raises itself, in the caller's thread (clause
pending-call-raises: "a resulting failure is reported through the documented API as an SSHException ... internal errors
never escape") - for EVERY one of the calls that were waiting when the session ended, not only the first to wake up.
Every pre script goes through both forms of start_client / start_server (blocking: raises; event: stores).
Enumerated sub-domains besides the random families ("sweep", sharded over the workers): every text field of every message of the
connection-stage grammar (75 fields, both roles, 3 calls waiting - one role of each pair inside a held re-key), of the
authentication-stage grammar (20 fields, while the auth call's request is pending, entry API rotating) and of the INFO_REQUEST
(x 3 entry APIs x transport class - quick: the two classes in turn), ONE field at a time made undecodable; the invalid bytes rotate with the seed.
Every family has a fixed share of the cases (run in 3 interleaved rounds with seed streams of their own).
Bucket = exception class + innermost paramiko frame.  Hangs are "inconclusive", never violations.
"""
import os
import threading
import traceback

from hypothesis import strategies as st

from vlib import net, peers
from vlib import refssh as R

PROPERTY = "C38"
LEVEL = "exploration"
RULE = (
    "session scripts (family pre/post/postc/reply/authc/authk/auths/wire x role x stage) with messages built from a per-type field grammar "
    "and 0-3 mutations (field value replaced by boundary/random/invalid-UTF-8/huge-length values, a string field - chosen among the "
    "string fields only - made undecodable by replacing it or splicing one invalid byte into it, field dropped/duplicated/"
    "retyped, message truncated, trailing garbage, wrong stage/role); post: 0-3 application calls of the tested side (either role; open_session, "
    "open_channel, global_request, exec_command, invoke_shell, invoke_subsystem, get_pty, request_x11 - one channel per channel request - and "
    "renegotiate_keys, for which the puppet holds the key exchange open: re-key stage) wait on the ONE transport while the 1-4 messages arrive; "
    "every value get_exception() hands out - also to those calls - and what EVERY waiter raises is judged (classes waiters:N...); postc: 1-5 "
    "messages for the open channel only, mutations preferring text fields / the text arguments after the request name; bye: pre / post / postc / "
    "authc scripts may end with the peer's DISCONNECT from its grammar (6 templates x 0-2 text-preferring mutations of code / description / "
    "language tag) after 0..n of the script's messages, i.e. while start_client / start_server / renegotiate_keys / the other waiters / an "
    "auth_* call waits (classes bye:<stage>..., bye:description:<decodable|undecodable|empty|malformed>); every pre script runs through both "
    "the blocking and the event form of start_client / start_server; fixed case share per family (authk: per entry API); sweep: enumerated - each single text field of each connection-stage message "
    "(x role, 3 calls waiting, every other session inside a held re-key), of each authentication-stage message (auth call pending) and of the "
    "INFO_REQUEST (x entry API x transport class) made undecodable, one at a time (classes sweep:...); "
    "reply: 1-3 rounds per session x role; per round one of 15 application calls that wait for the peer's answer (5 kinds of channel open, "
    "6 channel requests, 4 global requests) is pending and the answer to exactly that call (OPEN_CONFIRMATION/FAILURE, CHANNEL_SUCCESS/FAILURE, "
    "REQUEST_SUCCESS/FAILURE with the ids in use) is sent with 1-2 mutations that prefer the integer fields (ids, reason codes, sizes, ports), "
    "plus 0-1 further answers of any category; what each pending call raises is judged (clause pending-call-raises) in post/postc/reply; "
    "authk: scripted keyboard-interactive conversations (1-3 INFO_REQUEST rounds x 0-3 prompts x text-preferring mutations x 6 endings) "
    "through auth_interactive / auth_interactive_dumb / auth_password fallback (5 FAILURE method lists) x both transport classes; "
    "loop-count fields are kept <= 65535 by the value mutation; non-trivial = at least one mutated or out-of-stage "
    "message was verifiably consumed by the tested side (it answered a later sentinel, reacted, or terminated); distinct by "
    "the exact byte script; plus 8 enumerated pre scripts: orderly peer DISCONNECT right after the banner / after its KEXINIT x role x "
    "blocking/event API (failure without a saved exception)"
)

SENT = b"verif-sentinel@verif"

# ----------------------------------------------------------------------------- field grammar
# field = (kind, value); kinds: b byte(int) | B bool(int 0..255) | u uint32 | q uint64 | s string(bytes) | m mpint | r raw bytes
#         c uint32 that the receiver uses as a LOOP COUNT (EXT_INFO pairs, INFO_REQUEST prompts, INFO_RESPONSE answers): a "set"
#         mutation keeps it <= COUNT_CAP, because the tree under test iterates that many times over the (exhausted) message on the
#         transport thread - with 2^32-1 for hours, growing a list: a hang, recorded as inconclusive by this check and outside the
#         statement's exception clause, that would starve every later case of the run (ctx.exclude key "loop-count-field-above-65535")
COUNT_CAP = 0xFFFF


def enc_field(k, v):
    if k == "b":
        return bytes([v & 0xFF])
    if k == "B":
        return bytes([v & 0xFF])
    if k in ("u", "c"):
        return R.u32(v & 0xFFFFFFFF)
    if k == "q":
        return R.u64(v & 0xFFFFFFFFFFFFFFFF)
    if k == "s":
        return R.string(v)
    if k == "m":
        return R.mpint(v)
    if k == "r":
        return bytes(v)
    if k == "L":  # lying length prefix: (declared_len, data)
        return R.u32(v[0] & 0xFFFFFFFF) + bytes(v[1])
    raise AssertionError(k)


def enc(fields):
    return b"".join(enc_field(k, v) for k, v in fields)


INTS = [0, 1, 2, 3, 127, 128, 255, 256, 4095, 4096, 32767, 32768, 65535, 0x7FFFFFFF, 0x80000000, 0xFFFFFFFE, 0xFFFFFFFF, 0x00FFFFFF, 0x01000000]
NONUTF8 = [b"\xff", b"\xff\xfe\xfd", b"\xc3\x28", b"\xed\xa0\x80", b"\xe2\x82", b"\xf8\x88\x80\x80\x80", b"\xc0\xaf", b"caf\xe9", b"\x80abc", b"abc\xbf"]
BADSTR = [b"", b"\xff", b"\xff\xfe\xfd", b"\xc3\x28", b"\xed\xa0\x80", b"a\x00b", b",", b"a,,b", b"\xe2\x82", b"x" * 300, b"ssh-rsa", b"none", b"\x00\x00\x00\x07ssh-rsa"]

mutation = st.tuples(
    st.sampled_from(["set", "set", "set", "drop", "dup", "retype", "trunc", "append", "lenlie", "badtext", "badtext"]),
    st.integers(0, 40),  # field index (mod n)
    st.one_of(st.sampled_from(INTS), st.integers(0, 0xFFFFFFFF)),
    st.one_of(st.sampled_from(BADSTR), st.binary(max_size=64)),
    st.integers(-(1 << 600), 1 << 600),
)


def mutate(tbyte, fields, muts):
    """Returns the final payload bytes (type byte first) and whether anything changed."""
    fields = [list(f) for f in fields]
    trunc = None
    tail = b""
    for op, idx, iv, bv, mv in muts:
        if not fields and op not in ("append",):
            continue
        i = idx % len(fields) if fields else 0
        if op == "set":
            k = fields[i][0]
            if k in ("b", "B"):
                fields[i][1] = iv & 0xFF
            elif k in ("u", "q"):
                fields[i][1] = iv
            elif k == "c":
                fields[i][1] = iv if iv <= COUNT_CAP else iv & COUNT_CAP
            elif k in ("s", "r"):
                fields[i][1] = bv
            elif k == "m":
                fields[i][1] = mv if idx % 3 else [0, -1, 1, -(1 << 64), 1 << 8200][idx % 5]
        elif op == "drop":
            del fields[i]
        elif op == "dup":
            fields.insert(i, list(fields[i]))
        elif op == "retype":
            k, v = fields[i]
            if k in ("u", "b", "B", "q", "c"):
                fields[i] = ["s", R.u32(v & 0xFFFFFFFF)] if idx % 2 else ["m", v]
            elif k == "s":
                fields[i] = ["u", len(v)] if idx % 2 else ["r", v]
            elif k == "m":
                fields[i] = ["s", b"\x80" + abs(v).to_bytes(max(1, (abs(v).bit_length() + 7) // 8), "big")]  # negative mpint form
        elif op == "trunc":
            trunc = iv
        elif op == "append":
            tail += bv
        elif op == "lenlie":
            k, v = fields[i]
            if k == "s":
                fields[i] = ["L", (iv, v)]
        elif op == "badint":
            # one INTEGER field (chosen among the integer fields only: ids, codes, sizes, flags) gets a boundary / random value
            nidx = [j for j, f in enumerate(fields) if f[0] in ("u", "b", "B", "q", "c")]
            if nidx:
                j = nidx[idx % len(nidx)]
                k = fields[j][0]
                fields[j][1] = (iv & 0xFF) if k in ("b", "B") else (iv if iv <= COUNT_CAP else iv & COUNT_CAP) if k == "c" else iv
        elif op in ("badtext", "badarg"):
            sidx = [j for j, f in enumerate(fields) if f[0] == "s"]
            if op == "badarg" and len(sidx) > 1:
                # requests (GLOBAL_REQUEST, CHANNEL_OPEN, CHANNEL_REQUEST ...) start with the string that NAMES them: an undecodable
                # ARGUMENT - any string field but the first - keeps the message on the path of the handler it was built for
                sidx = sidx[1:]
            if sidx:
                j = sidx[idx % len(sidx)]
                v = bytes(fields[j][1])
                bad = NONUTF8[iv % len(NONUTF8)]
                if (iv >> 4) % 2 and v:
                    cut = (iv >> 5) % (len(v) + 1)
                    fields[j][1] = v[:cut] + [b"\xff", b"\x80", b"\xc0", b"\xfe"][(iv >> 12) % 4] + v[cut:]
                else:
                    fields[j][1] = bad
    body = enc([tuple(f) for f in fields]) + tail
    if trunc is not None and body:
        body = body[: trunc % (len(body) + 1)]
    return bytes([tbyte]) + body


def text_field_sweep(templates, seed=0):
    """Enumerated finite sub-domain: every string field of every template of a table, ONE at a time, made undecodable (alternately
    replaced by a value of NONUTF8 / the original value with one invalid byte spliced in; which value and where rotates with the seed).
    -> [(template index, field index, payload)]"""
    out = []
    n = seed
    for ti, (t, f) in enumerate(templates):
        for fi, (k, v) in enumerate(f):
            if k != "s":
                continue
            g = list(f)
            if n % 2 and v:
                cut = n % (len(v) + 1)
                g[fi] = ("s", bytes(v[:cut]) + [b"\xff", b"\x80", b"\xc0", b"\xfe"][(n // 2) % 4] + bytes(v[cut:]))
            else:
                g[fi] = ("s", NONUTF8[n % len(NONUTF8)])
            out.append((ti, fi, bytes([t]) + enc(g)))
            n += 1
    return out


# ----------------------------------------------------------------------------- templates


def _blob(name):
    return peers.keypool()[name].asbytes()


def _sigblob(alg, data=b"\x01" * 64):
    return R.string(alg) + R.string(data)


def kexinit_fields(kex, hostkey, cipher=b"aes128-ctr", mac=b"hmac-sha2-256", comp=b"none", strict=None):
    k = kex
    if strict:
        k = kex + b"," + strict
    return [
        ("r", b"\x11" * 16),
        ("s", k),
        ("s", hostkey),
        ("s", cipher),
        ("s", cipher),
        ("s", mac),
        ("s", mac),
        ("s", comp),
        ("s", comp),
        ("s", b""),
        ("s", b""),
        ("B", 0),
        ("u", 0),
    ]


HOSTKEYS = {b"ssh-ed25519": "ed25519", b"ecdsa-sha2-nistp256": "ecdsa256", b"ecdsa-sha2-nistp384": "ecdsa384", b"rsa-sha2-512": "rsa2048", b"ssh-rsa": "rsa1024"}
KEXES = [
    b"curve25519-sha256@libssh.org",
    b"ecdh-sha2-nistp256",
    b"ecdh-sha2-nistp384",
    b"ecdh-sha2-nistp521",
    b"diffie-hellman-group1-sha1",
    b"diffie-hellman-group14-sha256",
    b"diffie-hellman-group-exchange-sha256",
    b"diffie-hellman-group-exchange-sha1",
]

P14 = int(
    "FFFFFFFFFFFFFFFFC90FDAA22168C234C4C6628B80DC1CD129024E088A67CC74020BBEA63B139B22514A08798E3404DDEF9519B3CD3A431B302B0A6DF25F14374FE1356D6D51C245"
    "E485B576625E7EC6F44C42E9A637ED6B0BFF5CB6F406B7EDEE386BFB5A899FA5AE9F24117C4B1FE649286651ECE45B3DC2007CB8A163BF0598DA48361C55D39A69163FA8FD24CF5F"
    "83655D23DCA3AD961C62F356208552BB9ED529077096966D670C354E4ABC9804F1746C08CA18217C32905E462E36CE3BE39E772C180E86039B2783A2EC07A28FB5C55DF06F4C52C9"
    "DE2BCBF6955817183995497CEA956AE515D2261898FA051015728E5A8AACAA68FFFFFFFFFFFFFFFF",
    16,
)

EC_POINT_256 = bytes.fromhex(
    "046b17d1f2e12c4247f8bce6e563a440f277037d812deb33a0f4a13945d898c2964fe342e2fe1a7f9b8ee7eb4a7c0f9e162bce33576b315ececbb6406837bf51f5"
)


def client_kex_reply_fields(kex, hostalg):
    """What a server sends in answer to the client's kex init (list of (type, fields))."""
    ks = _blob(HOSTKEYS[hostalg])
    sig = _sigblob(hostalg)
    if kex.startswith(b"curve25519"):
        return [(31, [("s", ks), ("s", b"\x09" + b"\x00" * 31), ("s", sig)])]
    if kex.startswith(b"ecdh"):
        return [(31, [("s", ks), ("s", EC_POINT_256), ("s", sig)])]
    if b"group-exchange" in kex:
        return [(31, [("m", P14), ("m", 2)]), (33, [("s", ks), ("m", 0x1234567), ("s", sig)])]
    return [(31, [("s", ks), ("m", 0x1234567), ("s", sig)])]


def server_kex_init_fields(kex):
    """What a client sends to start the method-specific exchange."""
    if kex.startswith(b"curve25519"):
        return [(30, [("s", b"\x09" + b"\x00" * 31)])]
    if kex.startswith(b"ecdh"):
        return [(30, [("s", EC_POINT_256)])]
    if b"group-exchange" in kex:
        return [(34, [("u", 1024), ("u", 2048), ("u", 8192)]), (32, [("m", 0x1234567)])]
    return [(30, [("m", 0x1234567)])]


def post_templates(role, cid):
    """Messages the tested side parses after authentication. cid = tested side's channel id."""
    T = []
    both = [
        (1, [("u", 11), ("s", b"bye"), ("s", b"en")]),
        (4, [("B", 1), ("s", b"debug message"), ("s", b"en")]),
        (3, [("u", 5)]),
        (2, [("s", b"ignored")]),
        (7, [("c", 1), ("s", b"server-sig-algs"), ("s", b"rsa-sha2-512,ssh-ed25519")]),
        (80, [("s", b"keepalive@openssh.com"), ("B", 1)]),
        (80, [("s", b"tcpip-forward"), ("B", 1), ("s", b"127.0.0.1"), ("u", 0)]),
        (80, [("s", b"cancel-tcpip-forward"), ("B", 1), ("s", b"127.0.0.1"), ("u", 2222)]),
        (81, [("u", 4242)]),
        (82, []),
        (90, [("s", b"session"), ("u", 7), ("u", 2097152), ("u", 32768)]),
        (90, [("s", b"x11"), ("u", 8), ("u", 2097152), ("u", 32768), ("s", b"127.0.0.1"), ("u", 6000)]),
        (90, [("s", b"forwarded-tcpip"), ("u", 9), ("u", 2097152), ("u", 32768), ("s", b"127.0.0.1"), ("u", 22), ("s", b"10.0.0.1"), ("u", 4000)]),
        (90, [("s", b"direct-tcpip"), ("u", 10), ("u", 2097152), ("u", 32768), ("s", b"127.0.0.1"), ("u", 22), ("s", b"10.0.0.1"), ("u", 4000)]),
        (90, [("s", b"auth-agent@openssh.com"), ("u", 11), ("u", 2097152), ("u", 32768)]),
        (91, [("u", cid + 1), ("u", 5), ("u", 2097152), ("u", 32768)]),
        (91, [("u", cid), ("u", 5), ("u", 2097152), ("u", 32768)]),
        (92, [("u", cid + 1), ("u", 1), ("s", b"denied"), ("s", b"en")]),
        (93, [("u", cid), ("u", 1000)]),
        (94, [("u", cid), ("s", b"data")]),
        (95, [("u", cid), ("u", 1), ("s", b"errdata")]),
        (96, [("u", cid)]),
        (97, [("u", cid)]),
        (98, [("u", cid), ("s", b"exit-status"), ("B", 0), ("u", 3)]),
        (98, [("u", cid), ("s", b"exit-signal"), ("B", 0), ("s", b"TERM"), ("B", 0), ("s", b"msg"), ("s", b"en")]),
        (98, [("u", cid), ("s", b"xon-xoff"), ("B", 0), ("B", 1)]),
        (98, [("u", cid), ("s", b"pty-req"), ("B", 1), ("s", b"vt100"), ("u", 80), ("u", 24), ("u", 0), ("u", 0), ("s", b"")]),
        (98, [("u", cid), ("s", b"shell"), ("B", 1)]),
        (98, [("u", cid), ("s", b"exec"), ("B", 1), ("s", b"ls")]),
        (98, [("u", cid), ("s", b"subsystem"), ("B", 1), ("s", b"sftp")]),
        (98, [("u", cid), ("s", b"env"), ("B", 1), ("s", b"A"), ("s", b"b")]),
        (98, [("u", cid), ("s", b"window-change"), ("B", 0), ("u", 80), ("u", 24), ("u", 0), ("u", 0)]),
        (98, [("u", cid), ("s", b"x11-req"), ("B", 1), ("B", 0), ("s", b"MIT-MAGIC-COOKIE-1"), ("s", b"00ff"), ("u", 0)]),
        (98, [("u", cid), ("s", b"auth-agent-req@openssh.com"), ("B", 1)]),
        (99, [("u", cid)]),
        (100, [("u", cid)]),
        (51, [("s", b"password,publickey"), ("B", 0)]),
        (52, []),
        (53, [("s", b"banner"), ("s", b"en")]),
        (60, [("s", b"name"), ("s", b"instr"), ("s", b""), ("c", 1), ("s", b"Password: "), ("B", 0)]),
        (61, [("c", 1), ("s", b"resp")]),
        (50, [("s", b"u"), ("s", b"ssh-connection"), ("s", b"password"), ("B", 0), ("s", b"pw")]),
        (5, [("s", b"ssh-userauth")]),
        (6, [("s", b"ssh-userauth")]),
        (20, kexinit_fields(b"curve25519-sha256@libssh.org", b"ssh-ed25519")),
        (21, []),
        (31, [("s", b"x"), ("s", b"y"), ("s", b"z")]),
    ]
    T.extend(both)
    return T


def authc_templates():
    return [
        (6, [("s", b"ssh-userauth")]),
        (51, [("s", b"password,publickey,keyboard-interactive"), ("B", 0)]),
        (51, [("s", b"password"), ("B", 1)]),
        (52, []),
        (53, [("s", b"banner text"), ("s", b"en")]),
        (60, [("s", b"ssh-ed25519"), ("s", _blob("ed25519"))]),
        (60, [("s", b"name"), ("s", b"instructions"), ("s", b""), ("c", 2), ("s", b"Password: "), ("B", 0), ("s", b"Code: "), ("B", 1)]),
        (7, [("c", 1), ("s", b"server-sig-algs"), ("s", b"rsa-sha2-512,rsa-sha2-256,ssh-ed25519")]),
        (61, [("c", 1), ("s", b"x")]),
        (63, [("s", b"tok")]),
        (80, [("s", b"hostkeys-00@openssh.com"), ("B", 0), ("s", _blob("ed25519"))]),
        (1, [("u", 2), ("s", b"Too many authentication failures"), ("s", b"")]),
    ]


def info_request_fields(nprompts):
    """USERAUTH_INFO_REQUEST (RFC 4256): name, instruction, language tag, count, (prompt, echo)*."""
    f = [("s", b"Two-factor"), ("s", b"Enter your codes"), ("s", b"en"), ("c", nprompts)]
    for i in range(nprompts):
        f += [("s", b"Prompt %d: " % i), ("B", i % 2)]
    return f


KBD_FAILURE_LISTS = [b"keyboard-interactive", b"keyboard-interactive,publickey", b"publickey,keyboard-interactive", b"password,keyboard-interactive", b"publickey"]
KBD_FINALS = ["success", "failure", "partial", "silence", "disconnect", "another-request"]

# SSH_MSG_DISCONNECT (RFC 4253 11.1: reason code, description, language tag) as a peer sends it to take leave - at ANY stage, it is the
# one message every stage accepts.  A session script may end with one ("bye"): built from this grammar, mutated like every other
# message (text-preferring), placed after 0..n of the script's messages.  The two literals with an undecodable description are the ones
# the pre / authk scripts have always used.
BYE_TEMPLATES = [
    (1, [("u", 11), ("s", b"bye"), ("s", b"en")]),
    (1, [("u", 2), ("s", b"Too many authentication failures"), ("s", b"")]),
    (1, [("u", 11), ("s", b"go away"), ("s", b"")]),
    (1, [("u", 10), ("s", b""), ("s", b"")]),
    (1, [("u", 11), ("s", b"bye \xff"), ("s", b"")]),
    (1, [("u", 2), ("s", b"too many \xff tries"), ("s", b"")]),
]


def build_bye(ti, m):
    """-> (payload, evidence classes: mutated?, what the description field looks like to a receiver)"""
    t, f = BYE_TEMPLATES[ti % len(BYE_TEMPLATES)]
    p = mutate(t, f, m)
    return p, ["bye:mutated"] * (p != bytes([t]) + enc(f)) + [bye_description_class(p)]


def bye_description_class(p):
    try:
        rd = R.Reader(p[1:])
        rd.u32()
        d = rd.string()
        try:
            d.decode("utf-8")
            desc = "decodable" if d else "empty"
        except UnicodeDecodeError:
            desc = "undecodable"
    except Exception:
        desc = "malformed"
    return "bye:description:" + desc


def build_kbd_script(method, rounds, final, flist, service_transport=False, bye=None):
    """A keyboard-interactive conversation as the puppet server plays it: SERVICE_ACCEPT; for the password fallback
    first the FAILURE whose method list makes the client fall back; one INFO_REQUEST per round (sent when the client's
    request / previous INFO_RESPONSE has arrived); then the final verdict. rounds = [(nprompts, mutations)]."""
    msgs = [(5, bytes([6]) + R.string(b"ssh-userauth"))]
    n50 = 1
    if method == "password-fallback":
        msgs.append(([50, 1], bytes([51]) + R.string(KBD_FAILURE_LISTS[flist % len(KBD_FAILURE_LISTS)]) + R.boolean(False)))
        n50 = 2
        if not service_transport:
            # the classic Transport requests the service anew for the fallback attempt
            msgs.append(([5, 2], bytes([6]) + R.string(b"ssh-userauth")))
    for j, (nprompts, m) in enumerate(rounds):
        msgs.append(([50, n50] if j == 0 else [61, j], mutate(60, info_request_fields(nprompts), m)))
    after = [61, len(rounds)] if rounds else [50, n50]
    if final == "success":
        msgs.append((after, bytes([52])))
    elif final == "failure":
        msgs.append((after, bytes([51]) + R.string(b"password,keyboard-interactive") + R.boolean(False)))
    elif final == "partial":
        msgs.append((after, bytes([51]) + R.string(b"publickey") + R.boolean(True)))
    elif final == "disconnect":
        msgs.append((after, build_bye(*bye)[0] if bye is not None else peers.m_disconnect(2, b"too many \xff tries")))
    elif final == "another-request":
        msgs.append((after, mutate(60, info_request_fields(1), [])))
    return msgs


def bad_blobs():
    ed = R.string(b"ssh-ed25519")
    rsa = R.string(b"ssh-rsa")
    ec = R.string(b"ecdsa-sha2-nistp256") + R.string(b"nistp256")
    return [
        (b"ssh-ed25519", ed + R.string(b"\x01" * 31)),
        (b"ssh-ed25519", ed + R.string(b"\x01" * 33)),
        (b"ssh-ed25519", ed + R.string(b"")),
        (b"ssh-ed25519", ed),
        (b"ssh-ed25519", R.string(b"ssh-ed25519\xff") + R.string(b"\x01" * 32)),
        (b"rsa-sha2-512", rsa + R.mpint(0) + R.mpint(0)),
        (b"rsa-sha2-256", rsa + R.mpint(65537) + R.mpint(1)),
        (b"ssh-rsa", rsa + R.mpint(-3) + R.mpint(-(1 << 1023))),
        (b"rsa-sha2-512", rsa + R.mpint(65537)),
        (b"ecdsa-sha2-nistp256", ec + R.string(EC_POINT_256[:40])),
        (b"ecdsa-sha2-nistp256", ec + R.string(b"\x04" + b"\xff" * 64)),
        (b"ecdsa-sha2-nistp256", ec + R.string(b"\x02" + b"\x01" * 32)),
        (b"ecdsa-sha2-nistp256", R.string(b"ecdsa-sha2-nistp256") + R.string(b"nistp384") + R.string(EC_POINT_256)),
        (b"ecdsa-sha2-nistp256", R.string(b"ecdsa-sha2-nistp256") + R.string(b"nist\xff256") + R.string(EC_POINT_256)),
        (b"ecdsa-sha2-nistp384", R.string(b"ecdsa-sha2-nistp384") + R.string(b"nistp384") + R.string(EC_POINT_256)),
    ]


def auths_templates():
    ed = _blob("ed25519")
    rsa = _blob("rsa1024")
    ec = _blob("ecdsa256")
    U, S = ("s", b"u"), ("s", b"ssh-connection")
    T = [
        (5, [("s", b"ssh-userauth")]),
        (5, [("s", b"ssh-connection")]),
        (50, [U, S, ("s", b"none")]),
        (50, [U, S, ("s", b"password"), ("B", 0), ("s", b"pw")]),
        (50, [U, S, ("s", b"password"), ("B", 1), ("s", b"pw"), ("s", b"newpw")]),
        (50, [U, S, ("s", b"publickey"), ("B", 0), ("s", b"ssh-ed25519"), ("s", ed)]),
        (50, [U, S, ("s", b"publickey"), ("B", 1), ("s", b"ssh-ed25519"), ("s", ed), ("s", _sigblob(b"ssh-ed25519"))]),
        (50, [U, S, ("s", b"publickey"), ("B", 1), ("s", b"rsa-sha2-512"), ("s", rsa), ("s", _sigblob(b"rsa-sha2-512", b"\x01" * 128))]),
        (50, [U, S, ("s", b"publickey"), ("B", 1), ("s", b"ssh-rsa"), ("s", rsa), ("s", _sigblob(b"ssh-rsa", b"\x01" * 128))]),
        (50, [U, S, ("s", b"publickey"), ("B", 1), ("s", b"ecdsa-sha2-nistp256"), ("s", ec), ("s", _sigblob(b"ecdsa-sha2-nistp256", R.mpint(5) + R.mpint(7)))]),
        (50, [U, S, ("s", b"publickey"), ("B", 1), ("s", b"ecdsa-sha2-nistp256"), ("s", ec), ("s", _sigblob(b"ecdsa-sha2-nistp256", R.mpint(-5) + R.mpint(7)))]),
        (50, [U, S, ("s", b"keyboard-interactive"), ("s", b""), ("s", b"")]),
        (50, [U, S, ("s", b"gssapi-with-mic"), ("u", 1), ("s", b"\x06\x09\x2a\x86\x48\x86\xf7\x12\x01\x02\x02")]),
        (50, [U, S, ("s", b"gssapi-keyex"), ("s", b"mic")]),
        (50, [U, S, ("s", b"hostbased"), ("s", b"ssh-rsa"), ("s", rsa), ("s", b"host"), ("s", b"u"), ("s", b"sig")]),
        (61, [("c", 1), ("s", b"response")]),
        (61, [("c", 0)]),
    ]
    # structurally valid requests whose key blob is degenerate inside (right type tag, bad numbers/lengths/points)
    for alg, blob in bad_blobs():
        T.append((50, [U, S, ("s", b"publickey"), ("B", 0), ("s", alg), ("s", blob)]))
        T.append((50, [U, S, ("s", b"publickey"), ("B", 1), ("s", alg), ("s", blob), ("s", _sigblob(alg))]))
    # connection-layer traffic before authentication
    T += [(t, f) for t, f in post_templates("server", 0) if 80 <= t <= 100]
    return T


EXT_NAMES = [b"server-sig-algs", b"server-sig-algs", b"server-sig-algs", b"server-sig-algs", b"no-flow-control", b"x\xff", b""]
EXT_VALUES = [b"rsa-sha2-512,rsa-sha2-256,ssh-rsa", b"ssh-ed25519", b"rsa-sha2-512", b"p"]


def ext_info_payload(name, value, extra):
    """EXT_INFO with one (name, value) pair plus `extra` well-formed pairs."""
    body = R.u32(1 + extra) + R.string(name) + R.string(value)
    for i in range(extra):
        body += R.string(b"ext%d@verif" % i) + R.string(b"v")
    return bytes([7]) + body


# ----------------------------------------------------------------------------- oracle helpers


def classify(exc):
    """None if the exception class is allowed, else a bucket string."""
    import paramiko

    if exc is None or isinstance(exc, (paramiko.SSHException, EOFError, OSError)):
        return None
    frame = "?"
    tb = traceback.extract_tb(exc.__traceback__)
    for fr in tb:
        if os.sep + "paramiko" + os.sep in fr.filename:
            frame = "%s:%s" % (os.path.basename(fr.filename), fr.name)
    return "%s@%s" % (type(exc).__name__, frame)


def judge(ctx, case, clause, exc):
    b = classify(exc)
    if b is not None:
        tbs = "".join(traceback.format_exception(type(exc), exc, exc.__traceback__))[-1500:]
        ctx.count("oracle-failed:" + clause)
        ctx.violation(clause, b, case, "%r\n%s" % (exc, tbs))
        return False
    return True


def wait_log(puppet, pred, timeout):
    """Puppet.wait_log with a fine poll: the END of the tested transport (part of most predicates here) is not a log event,
    so nothing wakes the waiter up for it - with the puppet's own 0.25 s poll every session that dies costs a quarter second."""
    import time

    end = time.time() + timeout
    pz = puppet.packetizer
    with pz.log_cv:
        while True:
            v = pred(pz.log)
            if v:
                return v
            left = end - time.time()
            if left <= 0:
                return v
            pz.log_cv.wait(min(left, 0.01))


def wait_sentinel_or_death(puppet, tested, seen, timeout=2.0, types=(81, 82)):
    """After the puppet sent a sentinel GLOBAL_REQUEST (or, types=(3,), a message of an unimplemented type): 'reply' / 'dead' / None (hang)."""

    def got(lg):
        if any(e[1] in types for e in lg[seen:]):
            return "reply"
        if not tested.is_active():
            return "dead"
        return None

    return wait_log(puppet, got, timeout)


# ----------------------------------------------------------------------------- families


def watch_get_exception(t):
    """Public-API observation point: every value Transport.get_exception() hands out - to the harness or to paramiko's own
    callers (a blocked Channel call or open_session re-raises what it returns, and thereby clears it) - is recorded."""
    seen = []
    orig = t.get_exception

    def get_exception():
        e = orig()
        if e is not None:
            seen.append(e)
        return e

    t.get_exception = get_exception
    return seen


# application calls that block on the channel until the peer answers (or the session ends)
PENDING_CALLS = {
    "exec_command": lambda ch: ch.exec_command("ls"),
    "invoke_shell": lambda ch: ch.invoke_shell(),
    "invoke_subsystem": lambda ch: ch.invoke_subsystem("sftp"),
    "get_pty": lambda ch: ch.get_pty(),
    "request_x11": lambda ch: ch.request_x11(handler=lambda *a: None),
}


_A, _B = ("127.0.0.1", 4000), ("10.0.0.1", 22)
# every application call that waits for the peer's ANSWER: name -> (call(transport, channel), type of the request it sends,
# category of the answer: "open" CHANNEL_OPEN_CONFIRMATION/FAILURE, "chan" CHANNEL_SUCCESS/FAILURE, "global" REQUEST_SUCCESS/FAILURE)
ANSWERED_CALLS = {
    "open_session": (lambda t, ch: t.open_session(timeout=3), 90, "open"),
    "open_channel:direct-tcpip": (lambda t, ch: t.open_channel("direct-tcpip", _B, _A, timeout=3), 90, "open"),
    "open_x11_channel": (lambda t, ch: t.open_x11_channel(_A), 90, "open"),
    "open_forwarded_tcpip_channel": (lambda t, ch: t.open_forwarded_tcpip_channel(_A, _B), 90, "open"),
    "open_forward_agent_channel": (lambda t, ch: t.open_forward_agent_channel(), 90, "open"),
    "set_environment_variable": (lambda t, ch: ch.set_environment_variable("LANG", "C"), 98, "chan"),
    "request_port_forward:0": (lambda t, ch: t.request_port_forward("", 0), 80, "global"),
    "request_port_forward:8080": (lambda t, ch: t.request_port_forward("127.0.0.1", 8080), 80, "global"),
    "cancel_port_forward": (lambda t, ch: t.cancel_port_forward("127.0.0.1", 8080), 80, "global"),
    "global_request": (lambda t, ch: t.global_request("probe@verif", ("x", 1), wait=True), 80, "global"),
}
for _n, _f in PENDING_CALLS.items():
    ANSWERED_CALLS[_n] = ((lambda t, ch, _f=_f: _f(ch)), 98, "chan")
ANSWER_CATEGORIES = {c: sorted(n for n, v in ANSWERED_CALLS.items() if v[2] == c) for c in ("open", "chan", "global")}
# the call that waits for a whole key exchange ("kex": not one of the reply family's answer categories)
REKEY = "renegotiate_keys"
ANSWERED_CALLS[REKEY] = (lambda t, ch: t.renegotiate_keys(), 20, "kex")
# what may be kept waiting - SEVERAL at a time, on one transport - while the peer's messages arrive (families post / postc, either role)
WAITERS = ["open_session", "open_session", "open_channel:direct-tcpip", "global_request", REKEY] + sorted(PENDING_CALLS)


class HoldPacketizer(peers.RecPacketizer):
    """Puppet packetizer that can also HOLD a key exchange: with hold_kex set (raw mode), KEXINIT / kex / NEWKEYS messages from the
    tested side are recorded and left unanswered like everything else, so that a renegotiate_keys() of the tested side stays pending
    (and the tested side stays inside the exchange) while the script's messages - among them the kex messages of the grammar - arrive."""

    hold_kex = False

    def read_message(self):
        ptype, m = peers.RecPacketizer.read_message(self)
        if self.raw_mode and self.hold_kex and ptype in peers.KEX_TYPES:
            with self.log_cv:
                self.log.append((m.seqno, ptype, m.get_remainder()))
                self.log_cv.notify_all()
            return 2, m  # MSG_IGNORE
        return ptype, m


# liveness probe while the tested side is inside a (held) key exchange: there its answers to connection-layer requests are held back
# until NEWKEYS, but a message type nobody implements is answered with UNIMPLEMENTED at once
PROBE_UNIMPLEMENTED = bytes([192])


def answer_templates(cid, oid):
    """What a peer answers to a waiting call; cid = the tested side's id of the open channel, oid = of the channel being opened."""
    return {
        "open": [
            (91, [("u", oid), ("u", 5), ("u", 2097152), ("u", 32768)]),
            (92, [("u", oid), ("u", 1), ("s", b"denied"), ("s", b"en")]),
            (92, [("u", oid), ("u", 2), ("s", b"Connect failed"), ("s", b"")]),
        ],
        "chan": [(99, [("u", cid)]), (100, [("u", cid)])],
        "global": [(81, [("u", 4242)]), (81, []), (82, [])],
    }


def run_post(ctx, role, msgs, pending_open, record=True, pending=None, pendings=None):
    """msgs: list of payload bytes (already mutated). pendings: names (ANSWERED_CALLS) of the application calls of the tested side -
    either role, SEVERAL at a time - that are kept waiting on the one transport while the messages arrive (older cases: pending = one
    name, or pending_open=True): channel opens, global requests, channel requests (the first on the open channel, every further one
    on a channel of its own) and renegotiate_keys (these start last; the puppet then HOLDS the key exchange: the tested side stays
    inside it, the call stays pending, a second one joins it).  Such a call re-raises (and clears) what get_exception() returns: every
    value get_exception() hands out is judged, whoever asked, and so is what EVERY pending call itself raises (clause
    pending-call-raises) - be it because of the messages or because the session has ended (the harness shuts it down at the end of
    the case)."""
    if pendings is None:
        pendings = [pending] if pending else (["open_session"] if pending_open else [])
    case = {"family": "post", "role": role, "msgs": msgs, "pending_open": pending_open, "pending": pending, "pendings": list(pendings)}
    order = [n for n in pendings if n != REKEY] + [n for n in pendings if n == REKEY]
    hold = REKEY in order
    kw = {"packetizer_class": HoldPacketizer}
    if role == "client":
        link, tc, ts, srv = peers.connected_pair(client_cls=peers.VTransport, server_cls=peers.Puppet, server_kw=kw)
        tested, puppet = tc, ts
    else:
        srv = peers.RecordingServer({"check_auth_password": peers.AUTH_SUCCESSFUL})
        link, tc, ts, srv = peers.connected_pair(client_cls=peers.Puppet, server_cls=peers.VTransport, server_obj=srv, client_kw=kw)
        tested, puppet = ts, tc
    consumed = 0
    calls = []  # [name, thread, result dict, came back before the harness ended the session]
    classes = ["post:" + role]
    ended_by_peer = False
    keep = []  # the puppet's channel ends (a collected Channel closes itself)

    def new_channel():
        c = tc.open_session(timeout=10)
        keep.append(c)
        if role != "client":
            c = ts.accept(10)
            if c is None:
                raise peers.core.HarnessError("C38 harness: the tested server never got the puppet's session channel")
        return c

    try:
        if role == "client" or not order:
            chan = tc.open_session(timeout=10)
            keep.append(chan)
        else:
            chan = new_channel()
        nreq = sum(1 for n in order if ANSWERED_CALLS[n][2] == "chan")
        chans = [chan] + [new_channel() for _ in range(nreq - 1)]
        seen_exc = watch_get_exception(tested)
        puppet.raw()
        puppet.packetizer.hold_kex = hold
        rekeys = 0
        for name in order:
            fn, wanted, cat = ANSWERED_CALLS[name]
            ch = chans.pop(0) if cat == "chan" else chan
            res = {}

            def pending_call(fn=fn, ch=ch, res=res):
                try:
                    res["r"] = fn(tested, ch)
                except BaseException as e:
                    res["e"] = e

            start = len(puppet.log)
            th = threading.Thread(target=pending_call, daemon=True)
            th.start()
            calls.append([name, th, res, False])
            if name == REKEY and rekeys:
                th.join(0.005)  # joins the exchange that is under way: sends nothing the puppet could wait for
            else:
                wait_log(puppet, lambda lg: any(e[1] == wanted for e in lg[start:]) or bool(res) or None, 5)
            rekeys += name == REKEY
            classes.append("pending-call:" + name)
        probe, ptypes = (PROBE_UNIMPLEMENTED, (3,)) if hold else (peers.m_global_request(SENT, True), (81, 82))
        last = None
        for p in msgs:
            seen = len(puppet.log)
            try:
                puppet.send_raw_seq(p)
                puppet.send_raw_seq(probe)
            except Exception:
                break  # link already dead
            r = wait_sentinel_or_death(puppet, tested, seen, types=ptypes)
            if r is None:
                ctx.inconc("post:no-reaction")
                break
            consumed += 1
            last = p
            if r == "dead":
                break
        if not tested.is_active():
            ended_by_peer = True
            for c in calls:
                c[1].join(5)  # the session ended: the pending calls come back, the first with what get_exception() gave it
            tested.get_exception()
        for c in calls:
            c[3] = bool(c[2])
    finally:
        peers.shutdown(tested, puppet)
        for c in calls:
            c[1].join(5)
    ok = True
    raised = 0
    for name, th, res, early in calls:
        if th.is_alive():
            ctx.inconc("post:pending-call-did-not-return")
        elif "r" in res:
            classes.append("pending-call:%s:returned" % name)
        else:
            raised += 1
            how = "raised-what-get_exception-returned" if any(res["e"] is x for x in seen_exc) else "raised-own-exception"
            classes.append("pending-call:%s:%s%s" % (name, how, "" if early else ":when-the-harness-ended-the-session"))
            classes.append("pending-call-raised:" + type(res["e"]).__name__)
    if calls:
        classes.append("waiters:%d" % len(calls))
        classes.append("waiters:%d:raised:%d" % (len(calls), raised))
        if hold:
            classes.append("waiters:key-exchange-held:%d-in-renegotiate_keys" % rekeys)
        if ended_by_peer:
            classes.append("waiters:%d:session-ended-by-the-peer's-messages" % len(calls))
            if last is not None and last[:1] == b"\x01":
                classes += ["bye:while-waiting:" + c[0] for c in calls] + [bye_description_class(last)]
    if record:
        ctx.case(case, consumed > 0, classes + ["type:%d" % p[0] for p in msgs[: max(consumed, 1)] if p])
    for e in list(seen_exc):
        ok = judge(ctx, case, "get_exception", e) and ok
    for name, th, res, early in calls:
        if "e" in res:
            ok = judge(ctx, case, "pending-call-raises", res["e"]) and ok
    return ok


def run_reply(ctx, role, rounds, record=True):
    """Answer-centred session: rounds = [(name of an ANSWERED_CALLS entry, [(answer template index, mutations), ...])].
    Per round an application call of the tested side (either role) is started and, once its request (CHANNEL_OPEN /
    CHANNEL_REQUEST / GLOBAL_REQUEST) has reached the puppet, the puppet sends the answers: the first one from the grammar
    of that call's category, further ones from any category, all addressed with the ids the tested side really uses
    (Channel.get_id() of the session channel; the sender id read from the CHANNEL_OPEN on the wire).  The next round starts
    when the call has come back; a call still waiting ends the script (the harness then ends the session).  Judged: every
    value get_exception() hands out and whatever each call raises."""
    case = {"family": "reply", "role": role, "rounds": rounds}
    if role == "client":
        link, tc, ts, srv = peers.connected_pair(client_cls=peers.VTransport, server_cls=peers.Puppet)
        tested, puppet = tc, ts
    else:
        srv = peers.RecordingServer({"check_auth_password": peers.AUTH_SUCCESSFUL})
        link, tc, ts, srv = peers.connected_pair(client_cls=peers.Puppet, server_cls=peers.VTransport, server_obj=srv)
        tested, puppet = ts, tc
    classes = ["reply:" + role]
    calls = []  # (name, thread, result dict, came back while the session was up)
    consumed = 0
    sent_types = []
    try:
        chan = opened = tc.open_session(timeout=10)  # `opened` keeps the puppet's end alive (a collected Channel closes itself)
        if role != "client":
            chan = ts.accept(10)
            if chan is None:
                raise peers.core.HarnessError("C38 harness: the tested server never got the puppet's session channel")
        cid = chan.get_id()
        seen_exc = watch_get_exception(tested)
        puppet.raw()
        for rno, (name, answers) in enumerate(rounds):
            if not tested.is_active():
                break
            fn, wanted, cat = ANSWERED_CALLS[name]
            res = {}

            def pending_call(fn=fn, res=res):
                try:
                    res["r"] = fn(tested, chan)
                except BaseException as e:
                    res["e"] = e

            start = len(puppet.log)
            th = threading.Thread(target=pending_call, daemon=True)
            th.start()
            calls.append([name, th, res, False])
            req = wait_log(puppet, lambda lg: next((e for e in lg[start:] if e[1] == wanted), None) or bool(res) or None, 5)
            classes.append("pending-call:" + name)
            classes.append("reply:round-%d" % (rno + 1))
            oid = 0xFFFFFFF0
            if cat == "open" and isinstance(req, tuple):
                rd = R.Reader(req[2])
                rd.string()
                oid = rd.u32()
            T = answer_templates(cid, oid)
            flat = [a for k in sorted(T) for a in T[k]]
            dead = False
            for j, (ti, m) in enumerate(answers):
                t, f = T[cat][ti % len(T[cat])] if j == 0 else flat[ti % len(flat)]
                p = mutate(t, f, m)
                seen = len(puppet.log)
                try:
                    puppet.send_raw_seq(p)
                    puppet.send_raw_seq(peers.m_global_request(SENT, True))
                except Exception:
                    dead = True
                    break
                r = wait_sentinel_or_death(puppet, tested, seen)
                if r is None:
                    ctx.inconc("reply:no-reaction")
                    dead = True
                    break
                consumed += 1
                sent_types.append("type:%d" % p[0])
                if p != bytes([t]) + enc(f):
                    classes.append("reply:mutated-answer:%d" % t)
                if r == "dead":
                    dead = True
                    break
            th.join(5 if not tested.is_active() else 0.05)
            if res:
                calls[-1][3] = True
                classes.append("reply:answer-ended-the-pending-call:" + cat)
            if dead or not res:
                break
        if not tested.is_active():
            tested.get_exception()
    finally:
        peers.shutdown(tested, puppet)
        for c in calls:
            c[1].join(5)
    ok = True
    for name, th, res, early in calls:
        if th.is_alive():
            ctx.inconc("reply:pending-call-did-not-return")
        elif "r" in res:
            classes.append("pending-call:%s:returned" % name)
        else:
            how = "raised-what-get_exception-returned" if any(res["e"] is x for x in seen_exc) else "raised-own-exception"
            classes.append("pending-call:%s:%s%s" % (name, how, "" if early else ":when-the-harness-ended-the-session"))
            classes.append("pending-call-raised:" + type(res["e"]).__name__)
    if record:
        ctx.case(case, consumed > 0, classes + sent_types)
    for e in list(seen_exc):
        ok = judge(ctx, case, "get_exception", e) and ok
    for name, th, res, early in calls:
        if "e" in res:
            ok = judge(ctx, case, "pending-call-raises", res["e"]) and ok
    return ok


def _quiet(fn):
    try:
        return fn()
    except Exception as e:
        return e


class _Answers:
    """Stands in for sys.stdin: every line read is an answer."""

    def readline(self, *a):
        return "x\n"

    def read(self, *a):
        return "x\n"

    def isatty(self):
        return False

    def fileno(self):
        raise OSError("no file descriptor")

    def close(self):
        pass


def _seen_count(lg, after):
    """after = message type (at least one seen) or [type, n] (at least n seen)."""
    t, n = (after, 1) if isinstance(after, int) else (after[0], after[1])
    return sum(1 for e in lg if e[1] == t) >= n


def run_authc(ctx, method, msgs, record=True, early=(), service_transport=False, classes=()):
    """Tested client inside an auth_* call; msgs: [(after, payload)] where after is a message type (5, 50, 61) or
    [type, n]: the puppet server sends payload once it has seen a (the n-th) message of that type from the client -
    which is how multi-round exchanges are scripted (INFO_REQUEST after the 1st USERAUTH_REQUEST, the next one after the
    1st INFO_RESPONSE, ...). Methods: none / password (fallback to keyboard-interactive allowed for odd script lengths) /
    password-fallback (always allowed) / publickey / publickey-rsa / interactive / interactive-dumb."""
    case = {"family": "authc", "method": method, "msgs": msgs, "early": list(early), "service_transport": service_transport}
    link, tc, ts = peers.make_pair(client_cls=peers.VServiceTransport if service_transport else peers.VTransport, server_cls=peers.Puppet)
    ce, se = peers.start_both(tc, ts, peers.OpenServer())
    res = {}
    th = None
    real_stdout = None
    try:
        if ce or se:
            ctx.inconc("authc:handshake-failed")
            return True
        ts.raw()
        pool = peers.keypool()
        if method == "interactive-dumb":
            # the documented convenience handler prints the prompts and reads the answers from stdin - on the transport
            # thread, whenever an INFO_REQUEST arrives. stdin is replaced for good (an endless supply of answers: a handler
            # that outlives its case must never block on the real stdin), stdout until the session has been shut down.
            import io
            import sys

            if not isinstance(sys.stdin, _Answers):
                sys.stdin = _Answers()
            real_stdout, sys.stdout = sys.stdout, io.StringIO()
        # messages the server volunteers after NEWKEYS, before the application starts to authenticate
        for p in early:
            seen = len(ts.log)
            try:
                ts.send_raw_seq(p)
                ts.send_raw_seq(peers.m_global_request(SENT, True))
            except Exception:
                break
            if wait_sentinel_or_death(ts, tc, seen) != "reply":
                break

        def call():
            try:
                if method == "none":
                    res["r"] = tc.auth_none("u")
                elif method == "password":
                    res["r"] = tc.auth_password("u", "pw", fallback=bool(len(msgs) % 2))
                elif method == "password-fallback":
                    res["r"] = tc.auth_password("u", "pw", fallback=True)
                elif method == "interactive-dumb":
                    res["r"] = tc.auth_interactive_dumb("u")
                elif method == "publickey":
                    res["r"] = tc.auth_publickey("u", pool["ed25519"])
                elif method == "publickey-rsa":
                    res["r"] = tc.auth_publickey("u", pool["rsa1024"])
                else:
                    res["r"] = tc.auth_interactive("u", lambda title, instr, prompts: ["x"] * len(prompts))
            except BaseException as e:
                res["e"] = e

        th = threading.Thread(target=call, daemon=True)
        th.start()
        consumed = 0
        for after, p in msgs:
            ok = wait_log(ts, lambda lg: _seen_count(lg, after) or (not tc.is_active()) or ("r" in res or "e" in res) or None, 1.5)
            if not ok:
                break
            try:
                ts.send_raw_seq(p)
                consumed += 1
            except Exception:
                break
        seen = len(ts.log)
        try:
            ts.send_raw_seq(peers.m_global_request(SENT, True))
            wait_sentinel_or_death(ts, tc, seen, 1.5)
        except Exception:
            pass
        # end the session so that the auth call returns if it is still waiting
        if th.is_alive():
            link.ab.set_eof()
            link.ba.set_eof()
        th.join(8)
        if th.is_alive():
            ctx.inconc("authc:call-did-not-return")
        saved = tc.get_exception() if not tc.is_active() else None
        if real_stdout is not None:
            import sys

            peers.shutdown(tc, ts)
            sys.stdout, real_stdout = real_stdout, None
        if record:
            rounds = sum(1 for e in ts.log if e[1] == 61)
            extra = ["authc:info-responses-sent-by-client:%d" % min(rounds, 3)] if rounds else []
            ctx.case(case, consumed > 0, ["authc:" + method] + list(classes) + extra + ["type:%d" % p[0] for _, p in msgs[: max(consumed, 1)]])
        ok = True
        if "e" in res:
            ok = judge(ctx, case, "auth-call-raises", res["e"]) and ok
        ok = judge(ctx, case, "get_exception", saved) and ok
        return ok
    finally:
        peers.shutdown(tc, ts)
        if real_stdout is not None:
            import sys

            sys.stdout = real_stdout
        if th is not None:
            th.join(5)


def run_auths(ctx, policy, msgs, record=True):
    case = {"family": "auths", "policy": policy, "msgs": msgs}
    srv = peers.RecordingServer(
        {"check_auth_password": policy, "check_auth_publickey": policy, "check_auth_none": policy, "check_auth_interactive": policy, "check_auth_interactive_response": policy}
    )
    link, tc, ts = peers.make_pair(client_cls=peers.Puppet, server_cls=peers.VTransport)
    ce, se = peers.start_both(tc, ts, srv)
    try:
        if ce or se:
            ctx.inconc("auths:handshake-failed")
            return True
        tc.raw()
        consumed = 0
        for p in msgs:
            seen = len(tc.log)
            try:
                tc.send_raw_seq(p)
                tc.send_raw_seq(peers.m_global_request(SENT, True))
            except Exception:
                break
            r = wait_sentinel_or_death(tc, ts, seen)
            if r is None:
                ctx.inconc("auths:no-reaction")
                break
            consumed += 1
            if r == "dead":
                break
        if record:
            ctx.case(case, consumed > 0, ["auths"] + ["type:%d" % p[0] for p in msgs[: max(consumed, 1)]])
        if not ts.is_active():
            return judge(ctx, case, "get_exception", ts.get_exception())
        return True
    finally:
        peers.shutdown(tc, ts)


def run_pre(ctx, role, script, blocking, hostkeys=("ed25519", "ecdsa256", "ecdsa384", "rsa2048"), gex_pack=False, record=True, classes=()):
    """script: list of raw byte chunks the harness writes to the tested side (banner lines and
    plaintext packets already framed). Afterwards the stream ends (EOF)."""
    import paramiko

    case = {"family": "pre", "role": role, "script": script, "blocking": blocking, "gex_pack": gex_pack}
    link = net.Link()
    t = peers.VTransport(link.a)
    t.banner_timeout = 10
    t.handshake_timeout = 10
    old_pack = paramiko.Transport._modulus_pack
    try:
        if role == "server":
            pool = peers.keypool()
            for k in hostkeys:
                t.add_server_key(pool[k])
            if gex_pack:
                from paramiko.primes import ModulusPack

                mp = ModulusPack()
                mp.pack = {2048: [(2, P14)]}
                paramiko.Transport._modulus_pack = mp
        for ch in script:
            link.ba.inject(ch)
        link.ba.set_eof()
        exc = None
        ev = threading.Event()
        try:
            if blocking:
                if role == "client":
                    t.start_client(timeout=10)
                else:
                    t.start_server(server=peers.OpenServer())
            else:
                if role == "client":
                    t.start_client(event=ev)
                else:
                    t.start_server(event=ev, server=peers.OpenServer())
                ev.wait(10)
        except BaseException as e:
            exc = e
        if t.is_alive():
            t.join(10)
        if t.is_alive():
            ctx.inconc("pre:thread-did-not-end")
        if record:
            ctx.case(case, True, ["pre:" + role, "blocking" if blocking else "event"] + list(classes))
        ok = True
        if exc is not None:
            ok = judge(ctx, case, "start-raises", exc) and ok
        ok = judge(ctx, case, "get_exception", t.get_exception()) and ok
        return ok
    finally:
        paramiko.Transport._modulus_pack = old_pack
        peers.shutdown(t)
        link.close()


def run_wire(ctx, role, cipher, mac, comp, how, offset, mask, record=True):
    """Corrupt the first post-handshake packet the puppet sends (ciphertext level), or, with
    comp=True and how='zlib', make the puppet emit an undecompressable payload."""
    case = {"family": "wire", "role": role, "cipher": cipher, "mac": mac, "comp": comp, "how": how, "offset": offset, "mask": mask}
    kw = {}
    link = net.Link()
    if role == "client":
        link, tc, ts = peers.make_pair(client_cls=peers.VTransport, server_cls=peers.Puppet, link=link)
        tested, puppet = tc, ts
    else:
        link, tc, ts = peers.make_pair(client_cls=peers.Puppet, server_cls=peers.VTransport, link=link)
        tested, puppet = ts, tc
    for t in (tc, ts):
        so = t.get_security_options()
        so.ciphers = [cipher]
        so.digests = [mac]
        if comp:
            so.compression = ["zlib"]
    ce, se = peers.start_both(tc, ts, peers.OpenServer())
    try:
        if ce or se:
            ctx.inconc("wire:handshake-failed")
            return True
        puppet.raw()
        d = link.ba if role == "client" else link.ab  # puppet -> tested
        if how == "zlib":
            puppet.packetizer._Packetizer__compress_engine_out = lambda data: bytes([0x78, 0x9C]) + bytes((mask + i) & 0xFF for i in range(1 + offset % 40))
        else:
            state = {"done": False}

            def flt(chunk):
                if state["done"]:
                    return [chunk]
                state["done"] = True
                b = bytearray(chunk)
                if how == "flip":
                    b[offset % len(b)] ^= (mask % 255) + 1
                elif how == "trunc":
                    b = b[: max(1, offset % len(b))]
                elif how == "random":
                    b = bytearray((mask * 7 + i * 13 + offset) & 0xFF for i in range(len(b)))
                elif how == "insert":
                    b.insert(offset % len(b), mask & 0xFF)
                return [bytes(b)]

            d.filter = flt
        try:
            puppet.send_raw_seq(peers.m_ignore(b"x" * 40))
            puppet.send_raw_seq(peers.m_ignore(b"y" * 40))
        except Exception:
            pass
        # wait for the tested side to die or to stay idle
        for _ in range(200):
            if not tested.is_active():
                break
            if link.wait_quiescent(0.02, settle=3):
                break  # the receiver sits in recv waiting for bytes that will never come
            threading.Event().wait(0.01)
        if tested.is_active():
            # e.g. truncation: the receiver is waiting for more bytes - end the stream
            d.set_eof()
            tested.join(5)
        if record:
            ctx.case(case, True, ["wire:" + role, "cipher:" + cipher, "how:" + how])
        return judge(ctx, case, "get_exception", tested.get_exception())
    finally:
        peers.shutdown(tc, ts)


# ----------------------------------------------------------------------------- strategies

muts = st.lists(mutation, min_size=0, max_size=3)
# "badtext": one STRING field (chosen among the string fields only) gets bytes that are not valid UTF-8 - either a value of NONUTF8
# or the original value with one invalid byte spliced in, so that the rest of the message keeps its meaning
text_mutation = st.tuples(st.just("badtext"), st.integers(0, 40), st.integers(0, 0xFFFF), st.binary(max_size=4), st.just(0))
text_muts = st.lists(st.one_of(text_mutation, text_mutation.map(lambda m: m), mutation), min_size=0, max_size=2)
# "badarg": the same among the string fields after the first one (the arguments of a named request)
arg_mutation = st.tuples(st.just("badarg"), st.integers(0, 40), st.integers(0, 0xFFFF), st.binary(max_size=4), st.just(0))
chan_muts = st.lists(st.one_of(text_mutation.map(lambda m: m), arg_mutation, mutation.map(lambda m: m)), min_size=0, max_size=2)
# "badint": one INTEGER field (chosen among the integer fields only) gets a boundary / random value
int_mutation = st.tuples(st.just("badint"), st.integers(0, 40), st.one_of(st.sampled_from(INTS), st.integers(0, 0xFFFFFFFF)), st.just(b""), st.just(0))
int_muts = st.lists(st.one_of(int_mutation, int_mutation.map(lambda m: m), mutation), min_size=1, max_size=2)


# "bye": the peer's DISCONNECT - (position: how many of the script's messages precede it, BYE_TEMPLATES index, text-preferring mutations)
bye_muts = st.lists(st.one_of(text_mutation.map(lambda m: m), text_mutation.map(lambda m: m), text_mutation.map(lambda m: m), mutation.map(lambda m: m)), min_size=0, max_size=2)
bye = st.tuples(st.integers(0, 7), st.integers(0, len(BYE_TEMPLATES) - 1), bye_muts)
# several application calls waiting on one transport
waiters = st.lists(st.sampled_from(WAITERS), min_size=0, max_size=3)


def _none(n):
    # n distinct "no value" strategies (one_of de-duplicates identical objects)
    return [st.none().map(lambda v: v) for _ in range(n)]


def _msgs_from(templates, max_msgs=3):
    return st.lists(st.tuples(st.integers(0, len(templates) - 1), muts), min_size=1, max_size=max_msgs)


def frame(payload):
    return R.plain_packet(payload)


BANNERS = [
    b"SSH-2.0-verif\r\n",
    b"SSH-2.0-verif\n",
    b"SSH-1.99-x y z\r\n",
    b"SSH-1.5-old\r\n",
    b"SSH-2.0\r\n",
    b"SSH-\r\n",
    b"SSH-2.0-\xff\xfe\r\n",
    b"hello\r\nSSH-2.0-verif\r\n",
    b"\xff\xfe\xfd\r\nSSH-2.0-verif\r\n",
    b"SSH-2.0-verif",  # no newline, then EOF
    b"",
    b"\r\n" * 120,
    b"x" * 5000 + b"\r\n",
]


def pre_case():
    return st.tuples(
        st.sampled_from(["client", "server"]),
        st.one_of(st.just(0), st.integers(0, len(BANNERS) - 1)),
        st.sampled_from(KEXES),
        st.sampled_from(sorted(HOSTKEYS)),
        muts,  # mutations of the KEXINIT
        st.lists(muts, min_size=2, max_size=2),  # mutations of the method-specific messages
        st.booleans(),  # blocking API
        st.sampled_from([None, b"kex-strict-s-v00@openssh.com", b"kex-strict-c-v00@openssh.com", b"ext-info-c", b"ext-info-s"]),
        st.sampled_from(["none", "newkeys", "garbage", "extra"]),
        # the peer takes leave with a DISCONNECT from the grammar (mutated) after 0..n of the script's packets, while
        # start_client / start_server waits (older versions: two fixed DISCONNECTs, first or last)
        st.one_of(st.none(), bye),
    )


def build_pre(c):
    role, bi, kex, hk, kmuts, mmuts, blocking, strict, tail, leave = c
    script = [BANNERS[bi]]
    script.append(frame(mutate(20, kexinit_fields(kex, hk, strict=strict), kmuts)))
    parts = client_kex_reply_fields(kex, hk) if role == "client" else server_kex_init_fields(kex)
    for i, (t, f) in enumerate(parts):
        script.append(frame(mutate(t, f, mmuts[i % len(mmuts)])))
    classes = []
    if leave is not None:
        pos, ti, bm = leave
        k = pos % len(script)  # number of packets that precede it
        p, bcls = build_bye(ti, bm)
        script.insert(1 + k, frame(p))
        classes = ["bye:kex:%s:after-%d-packets" % ("start_client" if role == "client" else "start_server", k)] + bcls
    if tail == "newkeys":
        script.append(frame(bytes([21])))
        script.append(b"\x00\x00\x00\x1c" + b"\x55" * 64)
    elif tail == "garbage":
        script.append(b"\xff" * 40)
    elif tail == "extra":
        script.append(frame(bytes([21, 1, 2, 3])))
        script.append(frame(bytes([7]) + R.u32(1) + R.string(b"a") + R.string(b"\xff")))
    return role, script, blocking, (b"group-exchange" in kex), classes


# ----------------------------------------------------------------------------- run / replay


def run(ctx):
    ctx.set_budget(75, 700)
    ctx.assume("a 2 s silence after a probe is recorded as inconclusive (hang), never as a violation")
    ctx.exclude("loop-count-field-above-65535 (EXT_INFO pairs, INFO_REQUEST prompts, INFO_RESPONSE answers): the value mutation keeps these <= 65535; larger counts make the receiving transport thread iterate for minutes to hours - a hang, i.e. inconclusive here - and starve the rest of the run", 0)

    post_c = post_templates("client", 0)
    post_s = post_templates("server", 0)
    authc_t = authc_templates()
    # the messages addressed to the open channel (requests of every kind, SUCCESS / FAILURE, data, window, EOF, CLOSE, open confirmations)
    chan_t = [(t, f) for t, f in post_c if 91 <= t <= 100 and f and f[0] == ("u", 0)]
    auths_t = auths_templates()

    def body_pre(c):
        role, script, blocking, gex, classes = build_pre(c)
        # every script goes through BOTH APIs (the blocking call, which raises, and the event form, which only stores): the drawn one first
        run_pre(ctx, role, script, blocking, gex_pack=gex, classes=classes)
        run_pre(ctx, role, script, not blocking, gex_pack=gex, classes=classes)

    def body_post(c):
        role, ms, pend, leave = c
        T = post_c if role == "client" else post_s
        msgs = [mutate(T[i][0], T[i][1], m) for i, m in ms]
        if leave is not None:
            msgs.append(build_bye(leave[1], leave[2])[0])  # always last: nothing after a DISCONNECT is read
        run_post(ctx, role, msgs, False, pendings=pend)

    def body_postc(c):
        role, ms, pend, leave = c
        msgs = [mutate(chan_t[i][0], chan_t[i][1], m) for i, m in ms]
        if leave is not None:
            msgs.append(build_bye(leave[1], leave[2])[0])
        run_post(ctx, role, msgs, False, pendings=pend)

    def body_reply(c):
        role, rounds = c
        run_reply(ctx, role, [(ANSWER_CATEGORIES[cat][which % len(ANSWER_CATEGORIES[cat])], [first] + more) for (cat, which), first, more in rounds])

    def body_authc(c):
        method, ms, accept_first, early, service_tr, leave = c
        msgs = []
        if accept_first:
            msgs.append((5, bytes([6]) + R.string(b"ssh-userauth")))
        for i, m in ms:
            t, f = authc_t[i]
            # without a SERVICE_ACCEPT the client never sends its USERAUTH_REQUEST: deliver while it waits (wrong stage)
            msgs.append((50 if accept_first else 5, mutate(t, f, m)))
        cls = []
        if leave is not None:
            # the server takes leave while the auth call waits: after k of the script's messages
            k = leave[0] % (len(msgs) + 1)
            p, bcls = build_bye(leave[1], leave[2])
            msgs.insert(k, (50 if accept_first and k else 5, p))
            cls = ["bye:auth:%s:after-%d-messages" % (method, k)] + bcls
        run_authc(ctx, method, msgs, early=[ext_info_payload(*e) for e in early], service_transport=service_tr, classes=cls)

    def body_authk(c):
        method, rounds, final, flist, service_tr, leave = c
        nmut = sum(1 for _, m in rounds if m)
        cls = ["authc:kbd-exchange:rounds=%d" % len(rounds), "authc:kbd-exchange:mutated-rounds=%d" % nmut, "authc:kbd-exchange:final=" + final]
        if method == "password-fallback":
            cls.append("authc:password-fallback:failure-list=" + KBD_FAILURE_LISTS[flist % len(KBD_FAILURE_LISTS)].decode())
        if final == "disconnect":
            cls += ["bye:auth:kbd-exchange:%s" % method] + build_bye(leave[1], leave[2])[1]
        run_authc(ctx, method, build_kbd_script(method, rounds, final, flist, service_tr, bye=leave[1:]), service_transport=service_tr, classes=cls)

    def body_auths(c):
        policy, ms, svc_first = c
        msgs = []
        if svc_first:
            msgs.append(bytes([5]) + R.string(b"ssh-userauth"))
        msgs += [mutate(auths_t[i][0], auths_t[i][1], m) for i, m in ms]
        run_auths(ctx, policy, msgs)

    def body_wire(c):
        role, cipher, mac, how, off, mask = c
        comp = how == "zlib"
        run_wire(ctx, role, cipher, mac, comp, how, off, mask)

    bodies = {"pre": body_pre, "post": body_post, "postc": body_postc, "reply": body_reply, "authc": body_authc, "authk": body_authk, "auths": body_auths, "wire": body_wire}
    strategies = {
        "pre": pre_case(),
        # 0-3 application calls of the tested side (either role) wait meanwhile; one script in three ends with the peer's DISCONNECT
        "post": st.tuples(st.sampled_from(["client", "server"]), _msgs_from(post_c, 4), waiters, st.one_of(*_none(2), bye)),
        # channel-centred: only messages for the open channel, mutations that prefer the text fields, and (client) an application
        # call blocked on that channel most of the time
        "postc": st.tuples(
            st.sampled_from(["client", "server"]),
            st.lists(st.tuples(st.integers(0, len(chan_t) - 1), chan_muts), min_size=1, max_size=5),
            waiters,
            st.one_of(*_none(2), bye),
        ),
        # answer-centred: 1-3 rounds on one session; per round an application call of either side waits (channel open of every kind,
        # channel request, global request) and the peer's answer to exactly that call is built from the grammar with
        # integer-preferring mutations (ids, reason codes, window / packet sizes, ports)
        "reply": st.tuples(
            st.sampled_from(["client", "client", "server"]),
            st.lists(
                st.tuples(
                    st.tuples(st.sampled_from(["open", "open", "chan", "global"]), st.integers(0, 11)),
                    st.tuples(st.integers(0, 5), int_muts),
                    st.lists(st.tuples(st.integers(0, 15), int_muts), min_size=0, max_size=1),
                ),
                min_size=1,
                max_size=3,
            ),
        ),
        "authc": st.tuples(
            st.sampled_from(["none", "password", "publickey", "publickey-rsa", "publickey-rsa", "publickey-rsa", "interactive"]),
            _msgs_from(authc_t, 2),
            st.booleans(),
            st.one_of(
                st.just([]),
                st.lists(st.tuples(st.sampled_from(EXT_NAMES), st.one_of(st.sampled_from(BADSTR), st.sampled_from(EXT_VALUES)), st.integers(0, 3)), min_size=1, max_size=2),
                st.lists(st.tuples(st.sampled_from(EXT_NAMES), st.sampled_from([b"\xff", b"\xff\xfe\xfd", b"rsa-sha2-512,\xc3\x28", b"\xed\xa0\x80"]), st.integers(0, 1)), min_size=1, max_size=1),
            ),
            st.booleans(),
            st.one_of(*_none(2), bye),
        ),
        # whole keyboard-interactive conversations (1-3 rounds, each INFO_REQUEST with 0-3 prompts and 0-2 mutations that prefer the
        # text fields), reached through every API that ends up in one: auth_interactive, auth_interactive_dumb, auth_password's fallback
        "authk": st.tuples(
            st.sampled_from(["interactive", "interactive-dumb", "password-fallback"]),
            st.lists(st.tuples(st.integers(0, 3), text_muts), min_size=1, max_size=3),
            st.sampled_from(KBD_FINALS),
            st.integers(0, len(KBD_FAILURE_LISTS) - 1),
            st.booleans(),
            bye,  # final "disconnect": the DISCONNECT comes from the grammar too
        ),
        "auths": st.tuples(st.sampled_from([0, 1, 2]), _msgs_from(auths_t, 3), st.booleans()),
        "wire": st.tuples(
            st.sampled_from(["client", "server"]),
            st.sampled_from(["aes128-ctr", "aes256-cbc", "3des-cbc", "aes128-gcm@openssh.com", "aes256-gcm@openssh.com"]),
            st.sampled_from(["hmac-sha2-256", "hmac-sha1-96", "hmac-sha2-512-etm@openssh.com", "hmac-md5"]),
            st.sampled_from(["flip", "flip", "trunc", "random", "insert", "zlib"]),
            st.integers(0, 400),
            st.integers(0, 255),
        ),
    }
    # enumerated sub-domain (8 cases, worker 0): the peer ends the session with an orderly DISCONNECT right after the banner
    # or right after its KEXINIT - the one way start_client / start_server fail without any saved exception - x role x API
    if ctx.worker == 0 and "pre" in os.environ.get("C38_FAMILIES", "pre"):
        for role in ("client", "server"):
            for after_kexinit in (False, True):
                for blocking in (True, False):
                    script = [BANNERS[0]]
                    if after_kexinit:
                        script.append(frame(mutate(20, kexinit_fields(KEXES[0], sorted(HOSTKEYS)[0]), [])))
                    script.append(frame(peers.m_disconnect(11, b"bye")))
                    run_pre(ctx, role, script, blocking)
    # enumerated sub-domains (sharded over the workers): EVERY text field of every message of a stage's grammar, one at a time,
    # undecodable, while application calls wait - random text mutations meet a given (message, field) pair about twice per quick run
    fams0 = os.environ.get("C38_FAMILIES", "sweep").split(",")
    mine = lambda i: i % ctx.nworkers == ctx.worker  # noqa: E731
    if "sweep" in fams0:
        import time as _t

        t_sweep = _t.time()
        # connection stage, both roles; the two roles of a pair get the two waiter sets in turn (the first one includes the re-key stage)
        SW = [["open_session", "exec_command", REKEY], ["open_session", "open_channel:direct-tcpip", "invoke_subsystem"]]
        for i, (ti, fi, p) in enumerate(text_field_sweep(post_c, ctx.seed)):
            if mine(i):
                for r, role in enumerate(("client", "server")):
                    ctx.count("sweep:post:%s" % role)
                    run_post(ctx, role, [p], False, pendings=SW[(i + r) % 2])
        # authentication stage (tested client): each text field of each message a server sends during authentication, delivered
        # while the auth call's request is pending; the entry API rotates
        AM = ["password", "publickey", "interactive", "none", "publickey-rsa"]
        accept = (5, bytes([6]) + R.string(b"ssh-userauth"))
        for i, (ti, fi, p) in enumerate(text_field_sweep(authc_t, ctx.seed)):
            if mine(i):
                ctx.count("sweep:authc")
                run_authc(ctx, AM[(i + ctx.seed) % len(AM)], [accept, (50, p)], service_transport=bool((i + ctx.seed) % 2), classes=["sweep:authc:type:%d" % p[0]])
        # keyboard-interactive conversations: each text field of the INFO_REQUEST x entry API x transport class
        for i, (ti, fi, p) in enumerate(text_field_sweep([(60, info_request_fields(1))], ctx.seed)):
            for j, method in enumerate(("interactive", "interactive-dumb", "password-fallback")):
                for k, svc in enumerate((False, True)):
                    # quick: one transport class per (field, API) pair, in turn; thorough: both
                    if mine(i * 6 + j * 2 + k) and (ctx.tier != "quick" or (i + j + k + ctx.seed) % 2 == 0):
                        ctx.count("sweep:authk:" + method)
                        script = build_kbd_script(method, [(1, [])], "success", i + k + ctx.seed, svc)
                        script = [(a, p if q[:1] == b"\x3c" else q) for a, q in script]
                        run_authc(ctx, method, script, service_transport=svc, classes=["sweep:authk:field-%d" % fi])
        ctx.note("text_field_sweep_seconds", round(_t.time() - t_sweep, 1))
    # every family gets a FIXED share of the cases (a single one_of over all families left the shares to hypothesis: 4 to 50 wire
    # cases, 30 to 150 authk cases depending on the seed); the shares are run in 3 interleaved rounds, each round and family with a
    # seed stream of its own, so that a budget hit thins all of them about evenly
    weights = {"pre": 12, "post": 6, "postc": 5, "authc": 7, "authk:interactive": 2, "authk:interactive-dumb": 2, "authk:password-fallback": 2, "auths": 11, "wire": 5}
    for f in [f for f in weights if ":" in f]:
        # the three ways into a keyboard-interactive conversation get a fixed share each
        fam, method = f.split(":")
        bodies[f] = bodies[fam]
        strategies[f] = st.tuples(st.just(method), strategies[fam]).map(lambda mc: (mc[0],) + tuple(mc[1][1:]))
    fams = [f for f in os.environ.get("C38_FAMILIES", "pre,post,postc,authc,authk,auths,wire,reply").split(",") if f in bodies]  # diagnostics only
    import time as _time

    spent = {}

    def timed(fc):
        t0 = _time.time()
        try:
            bodies[fc[0]](fc[1])
        finally:
            d = _time.time() - t0
            a = spent.setdefault(fc[0], [0, 0.0])
            a[0] += 1
            a[1] += d
            if d > float(os.environ.get("C38_SLOW") or 1e9):
                print("SLOW %.1fs %s %r" % (d, fc[0], fc[1]))

    # the answer-centred family runs on its own (own seed stream, first: a budget hit later on cannot starve it); its cases are paid
    # for by the other families (760 -> 680 -> 460 quick cases, reply 90 -> 60: they pay for the several-waiters sessions of post / postc and for the enumerated sweeps)
    if "reply" in fams:
        ctx.explore(strategies["reply"].map(lambda c: ("reply", c)), timed, ctx.scale(60, 1100), shrink=False, seed_offset=2)
    total, wsum, rounds = ctx.scale(460, 8100), sum(weights.values()), 3
    for r in range(rounds):
        for i, f in enumerate(sorted(weights)):
            n = total * weights[f] // wsum
            k = n // rounds + (1 if r < n % rounds else 0)
            if f.split(":")[0] in fams and k:
                ctx.explore(strategies[f].map(lambda c, f=f: (f.split(":")[0], c)), timed, k, shrink=False, seed_offset=10 + 16 * r + i)
    ctx.note("family_cases_and_seconds", {k: [v[0], round(v[1], 1)] for k, v in sorted(spent.items())})


def replay(ctx, case):
    fam = case["family"]
    if fam == "pre":
        run_pre(ctx, case["role"], case["script"], case["blocking"], gex_pack=case.get("gex_pack", False))
    elif fam == "post":
        run_post(ctx, case["role"], case["msgs"], case["pending_open"], pending=case.get("pending"), pendings=case.get("pendings"))
    elif fam == "reply":
        run_reply(ctx, case["role"], case["rounds"])
    elif fam == "authc":
        run_authc(ctx, case["method"], [(a, p) for a, p in case["msgs"]], early=case.get("early", ()), service_transport=case.get("service_transport", False))
    elif fam == "auths":
        run_auths(ctx, case["policy"], case["msgs"])
    elif fam == "wire":
        run_wire(ctx, case["role"], case["cipher"], case["mac"], case["comp"], case["how"], case["offset"], case["mask"])
    else:
        raise ValueError(fam)
