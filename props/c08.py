"""C08 - key exchange rejects invalid peer public values and out-of-range groups.

Sessions: real Transport pairs on the in-memory link; the value under test reaches the tested
side either through a PlainMitm edit of the plaintext handshake or from a lying server.

tested = server  (MITM replaces the client's e / Q_C in KEXDH_INIT / GEX_INIT / ECDH_INIT):
    the server checks nothing else about that message, so accepting the value shows as the
    server sending its reply + NEWKEYS.
tested = client  (the value is the server's f / Q_S, or the gex group):
    a plain edit of f would be caught by the host-key signature anyway, which would hide a missing
    range check. So the MITM holds the host key (= a lying server): for values whose shared secret
    is known without the client's secret (f = 0, p, 2p, -p -> K = 0;  f = 1, p+1, 2p+1, 1-p -> K = 1;
    small-order X25519 points -> K = 0) it recomputes the exchange hash over the edited reply with
    refssh and signs it. Only the client's range check stands between that reply and NEWKEYS.
    Other values are plain edits (unsigned). Out-of-range gex groups come from an honest paramiko
    server whose moduli pack (harness-provided) holds a modulus of the wanted size.
Value domains: DH 0, 1, 2, p-2, p-1, p, p+1, 2p, 2p+1, -p, 1-p, -1, random > p, random negative, random
in range (group1/14/16 and gex); NIST points: empty, infinity, truncated, extended, wrong prefix,
coordinate >= field prime, random off-curve, point of another curve, compressed, other valid point;
X25519: the small-order encodings (classified by a pure-python RFC 7748 ladder in this file: result
all-zero), wrong lengths, random strings; gex modulus sizes 512..16384 around 1023/1024 and 8192/8193.
Wire encodings (DH e / f, gex p / g): every value is also sent in NON-CANONICAL mpint encodings - the case's
"enc" is absent (RFC 4251 minimal form), ["pad", k] (k redundant sign-extension bytes: 00 for values >= 0 -
zero becomes k zero bytes -, ff for negative ones), ["padto", n] (sign-extended to n bytes: an out-of-range
value whose ENCODED length is that of an in-range one) or ["strip"] (the leading 00 of a value whose top bit
is set removed). The harness decodes the octets it puts on the wire with refssh (two's complement, RFC 4251
5) and classifies the DECODED value; "strip" therefore stands for the negative number v - 2**(8n).
Gex groups additionally come from a lying server inside the MITM ("gexwire": p of a drawn size and g = 2 in any
of these encodings replace the honest group; the MITM answers GEX_INIT with f = g (its secret is 1, K = e) and
signs the RFC 4419 hash of what the client was shown), so that only the client's size check stands between an
out-of-range modulus and NEWKEYS, whatever its encoding; in-range sizes are the control (must be accepted for the
out-of-range verdicts to mean anything; counted).
Request style of the group exchange (RFC 4419 has two): besides SSH_MSG_KEX_DH_GEX_REQUEST (min, n, max) the client
opens the exchange with the OLD-style SSH_MSG_KEX_DH_GEX_REQUEST_OLD (n only; different exchange hash) - case field
"req": "old". paramiko's server answers old-style requests of real clients; paramiko's client engine has the old-style
request behind `start_kex(_test_old_style=True)`, which the harness reaches through a subclass of the engine registered
on that one client Transport (no such switch in the tree = inconclusive, not a harness error). e / f boundary values
(both roles), every modulus size (lying server, encodings rotating) and three honest-server sizes are run that way;
the MITM's forged replies use the old-style hash then.
History of the process ("group-history:*" classes): the fixed groups (group1 1024 bits, group14 2048, group16 4096) share one
engine class, so what a process did with one group may leak into the next exchange. The fixed-group cases are therefore run
as ONE history per process: round-robin over the group sizes in a chosen order, the tested role alternating - the process
first uses order[0], and exchanges with order[i+1] directly follow exchanges with order[i]. Quick: descending sizes (a bound or
table left over from a LARGER group is what could let a value out of range for the smaller one through: p, p+1, 2p, 2p+1 of the
small group lie inside the large group's range; class out-of-domain:in-range-for-a-larger-group-used-earlier-in-the-process);
thorough: worker w runs the w-th of the 6 orders; the drawn cases mix all fixed groups at random. A violation seen after other
fixed-group exchanges is saved with "process_history" (the groups exchanged before, first 3 and last 5 when many), which
replay() re-creates by honest exchanges first. When the HONEST part of an exchange is refused before the value under test is
sent (e.g. a stale bound of a smaller group), the case is inconclusive (counted, noted), not a harness error.
Interpreter configuration ("interpreter:*" / "child-interpreter:*" classes): a sub-sample of the enumerated boundary domain
(values right outside the domain on each side, sizes right / far outside the range, in-range controls; every family, both
roles, both request styles; thorough: the worker's whole share) also runs through the same run_case in a CHILD interpreter
started with `python -O` (assert statements and __debug__ blocks compiled away) - vlib/subrun.py; the child is a second
process, so it also gets another group order. Its cases, counts and violations are folded back (violations: bucket +
":python-O", or ":fresh-process" when the same history shows it without -O too; saved as {"subrun": {pyflags, history}},
which replay() runs in a fresh child again); a child that fails is an inconclusive entry, never a verdict.
Oracle: value outside [1, p-1] / malformed or off-curve point / all-zero X25519 result / wrong X25519
length / gex p outside 1024..8192 bits  =>  the tested side's handshake fails: it never sends NEWKEYS,
never sets initial_kex_done, start_client / the server's negotiation ends with an error.
In-domain values carry no obligation (recorded as trivial cases, nothing asserted).
"""
from hypothesis import strategies as st

from vlib import core, mitm, peers, subrun
from vlib import refssh as R

PROPERTY = "C08"
LEVEL = "exploration"
RULE = (
    "role (client/server tested) x kex (group1/14/16, gex-sha1/256, nistp256/384/521, curve25519) x peer public value from "
    "the boundary list (0,1,2,p-2,p-1,p,p+1,2p,2p+1,-p,1-p,-1 / malformed, off-curve, foreign-curve, >=field-prime points / "
    "small-order and wrong-length X25519 strings / gex modulus sizes 512..16384) enumerated completely; DH e/f and gex p/g also in "
    "non-canonical mpint encodings (redundant sign-extension bytes 1..len(p)+1, padded to the encoded length of an in-range value, "
    "leading 00 stripped; quick: every encoding for 0, the stripped form for p-2..p+1, one rotating padding per other boundary value; gex group through a lying "
    "MITM server so that the encoding is under control); group exchange also opened with the old-style request (RFC 4419 5, "
    "GEX_REQUEST_OLD; classes gex-request:old, <role>:gex-value:old-request, gex-group:<in|out-of>-range:old-request): the 12 e/f "
    "boundary values for both roles, every modulus size from the lying server, three from an honest server, one in three of the drawn "
    "gex cases; plus hypothesis-drawn "
    "random out-of-range integers (x drawn encoding), off-curve coordinates and byte strings; history of the process: the fixed-group cases "
    "form one sequence per process, round-robin over the group sizes in a given order with the role alternating (quick: 4096, 2048, 1024 - "
    "every smaller group is used right after a larger one; thorough: worker w takes the w-th of the 6 orders; drawn cases mix group1/14/16), "
    "classes group-history:* and out-of-domain:in-range-for-a-larger-group-used-earlier-in-the-process; interpreter configuration: a sub-sample "
    "of the boundary domain (0, p, p+1, 1-p per role x method x request style; infinity / off-curve / out-of-field point; zero, small-order, short "
    "X25519 string; moduli of 512, 1023, 1024, 8193, 16384 bits from the lying and the honest server; thorough: the worker's whole share) is run "
    "by the same code in a child `python -O` (fresh process, next group order), classes interpreter:* / child-interpreter:*, cases distinct by "
    "their child/flags field. non-trivial = value outside the accepted domain "
    "(reference classification in the harness); distinct by full case"
)

DH_KEX = ["diffie-hellman-group1-sha1", "diffie-hellman-group14-sha1", "diffie-hellman-group14-sha256", "diffie-hellman-group16-sha512"]
GEX_KEX = ["diffie-hellman-group-exchange-sha1", "diffie-hellman-group-exchange-sha256"]
EC_KEX = ["ecdh-sha2-nistp256", "ecdh-sha2-nistp384", "ecdh-sha2-nistp521"]
X_KEX = "curve25519-sha256@libssh.org"
HOSTKEY = "ed25519"

# ----------------------------------------------------------------------------- references (no paramiko)

CURVE = {
    "ecdh-sha2-nistp256": (2**256 - 2**224 + 2**192 + 2**96 - 1, 0x5AC635D8AA3A93E7B3EBBD55769886BC651D06B0CC53B0F63BCE3C3E27D2604B, 32),
    "ecdh-sha2-nistp384": (
        2**384 - 2**128 - 2**96 + 2**32 - 1,
        0xB3312FA7E23EE7E4988E056BE3F82D19181D9C6EFE8141120314088F5013875AC656398D8A2ED19D2A85C8EDD3EC2AEF,
        48,
    ),
    "ecdh-sha2-nistp521": (
        2**521 - 1,
        0x0051953EB9618E1C9A1F929A21A0B68540EEA2DA725B99B315F3B8B489918EF109E156193951EC7E937B1652C0BD3BB1BF073573DF883D2C34F1EF451FD46B503F00,
        66,
    ),
}


def point_class(kex, enc):
    """'valid' (uncompressed, on curve), 'compressed' (well-formed compressed form: no obligation)
    or 'invalid'."""
    p, b, n = CURVE[kex]
    if len(enc) == 1 + n and enc[0] in (2, 3) and int.from_bytes(enc[1:], "big") < p:
        return "compressed"
    if len(enc) != 1 + 2 * n or enc[0] != 4:
        return "invalid"
    x, y = int.from_bytes(enc[1 : 1 + n], "big"), int.from_bytes(enc[1 + n :], "big")
    if x >= p or y >= p:
        return "invalid"
    return "valid" if (y * y - (x * x * x - 3 * x + b)) % p == 0 else "invalid"


def valid_point(kex, scalar):
    from cryptography.hazmat.primitives import serialization
    from cryptography.hazmat.primitives.asymmetric import ec

    curve = {"ecdh-sha2-nistp256": ec.SECP256R1, "ecdh-sha2-nistp384": ec.SECP384R1, "ecdh-sha2-nistp521": ec.SECP521R1}[kex]()
    pk = ec.derive_private_key(scalar, curve).public_key()
    return pk.public_bytes(serialization.Encoding.X962, serialization.PublicFormat.UncompressedPoint)


P25519 = 2**255 - 19


def x25519(k, u):
    """RFC 7748 section 5 (pure python)."""
    kk = bytearray(k)
    kk[0] &= 248
    kk[31] &= 127
    kk[31] |= 64
    kn = int.from_bytes(kk, "little")
    x1 = int.from_bytes(u, "little") & ((1 << 255) - 1)
    x2, z2, x3, z3, swap = 1, 0, x1, 1, 0
    P = P25519
    for t in reversed(range(255)):
        kt = (kn >> t) & 1
        swap ^= kt
        if swap:
            x2, x3, z2, z3 = x3, x2, z3, z2
        swap = kt
        A = (x2 + z2) % P
        AA = A * A % P
        B = (x2 - z2) % P
        BB = B * B % P
        E = (AA - BB) % P
        C = (x3 + z3) % P
        D = (x3 - z3) % P
        DA = D * A % P
        CB = C * B % P
        x3 = (DA + CB) ** 2 % P
        z3 = x1 * (DA - CB) ** 2 % P
        x2 = AA * BB % P
        z2 = E * (AA + 121665 * E) % P
    if swap:
        x2, x3, z2, z3 = x3, x2, z3, z2
    return (x2 * pow(z2, P - 2, P) % P).to_bytes(32, "little")


def x_class(u):
    if len(u) != 32:
        return "invalid"
    zero = b"\x00" * 32
    if x25519(b"\x11" * 32, u) == zero and x25519(bytes(range(32)), u) == zero:
        return "invalid"  # all-zero result whatever the scalar: small-order point
    return "valid"


SMALL_ORDER = [
    bytes(32),
    b"\x01" + bytes(31),
    bytes.fromhex("e0eb7a7c3b41b8ae1656e3faf19fc46ada098deb9c32b1fd866205165f49b800"),
    bytes.fromhex("5f9c95bca3508c24b1d0b1559c83ef5b04445cc4581c8e86d8224eddd09f1157"),
    bytes.fromhex("ecffffffffffffffffffffffffffffffffffffffffffffffffffffffffffff7f"),
    bytes.fromhex("edffffffffffffffffffffffffffffffffffffffffffffffffffffffffffff7f"),
    bytes.fromhex("eeffffffffffffffffffffffffffffffffffffffffffffffffffffffffffff7f"),
    bytes.fromhex("cdeb7a7c3b41b8ae1656e3faf19fc46ada098deb9c32b1fd866205165f49b880"),
    bytes.fromhex("4c9c95bca3508c24b1d0b1559c83ef5b04445cc4581c8e86d8224eddd09f11d7"),
    bytes.fromhex("d9ffffffffffffffffffffffffffffffffffffffffffffffffffffffffffffff"),
    bytes.fromhex("daffffffffffffffffffffffffffffffffffffffffffffffffffffffffffffff"),
    bytes.fromhex("dbffffffffffffffffffffffffffffffffffffffffffffffffffffffffffffff"),
]

_checked = []


def self_check():
    """The references above are validated once per process against RFC vectors / cryptography."""
    if _checked:
        return
    k = bytes.fromhex("a546e36bf0527c9d3b16154b82465edd62144c0ac1fc5a18506a2244ba449ac4")
    u = bytes.fromhex("e6db6867583030db3594c1a424b15f7c726624ec26b3353b10a903a6d0ab1c4c")
    if x25519(k, u).hex() != "c3da55379de9c6908e94ea4df28d084f32eccf03491c71f754b4075577a28552":
        raise core.HarnessError("x25519 reference fails the RFC 7748 vector")
    for kex in EC_KEX:
        if point_class(kex, valid_point(kex, 0xC08)) != "valid":
            raise core.HarnessError("curve constants wrong for " + kex)
    for u in SMALL_ORDER[:7]:
        if x_class(u) != "invalid":
            raise core.HarnessError("small-order point %s not classified" % u.hex())
    _checked.append(1)


# ----------------------------------------------------------------------------- values


def dh_value(spec, p):
    base = {"0": 0, "p": p, "2p": 2 * p, "-p": -p}[spec[0]]
    return base + spec[1]


def mp_wire(v, enc):
    """Octets of the mpint field (without the length prefix) for value v in encoding `enc`."""
    body = R.mpint_body(v)
    if not enc:
        return body
    fill = b"\xff" if v < 0 else b"\x00"
    kind = enc[0]
    if kind == "pad":
        return fill * int(enc[1]) + body
    if kind == "padto":
        return fill * max(0, int(enc[1]) - len(body)) + body
    if kind == "strip":
        if len(body) > 1 and body[0] == 0:
            return body[1:]  # top bit set now: a negative number
        return fill + body
    raise ValueError(enc)


def mp_decode(body):
    """RFC 4251 5 value of the octets (refssh)."""
    return R.Reader(R.string(body)).mpint()


def enc_label(v, enc):
    if not enc:
        return "canonical"
    if enc[0] == "strip":
        return "leading-00-stripped" if mp_decode(mp_wire(v, enc)) != v else "sign-extended"
    return "sign-extended" if mp_wire(v, enc) != R.mpint_body(v) else "canonical"


DH_ENCODINGS = [["pad", 1], ["pad", 2], ["pad", 4], ["padto", "len(p)+1"], ["strip"]]


def _enc_for(enc, p):
    if enc and enc[0] == "padto" and enc[1] == "len(p)+1":
        return ["padto", len(R.mpint_body(p)) + 1]
    return enc


DH_BOUNDARY = [("0", 0), ("0", 1), ("0", 2), ("p", -2), ("p", -1), ("p", 0), ("p", 1), ("2p", 0), ("2p", 1), ("-p", 0), ("-p", 1), ("0", -1)]


def ec_value(kex, spec):
    kind = spec[0]
    p, b, n = CURVE[kex]
    good = valid_point(kex, 2 + spec[1] % (2**64)) if len(spec) > 1 and isinstance(spec[1], int) else valid_point(kex, 77)
    if kind == "empty":
        return b""
    if kind == "infinity":
        return b"\x00"
    if kind == "short":
        return good[:-1]
    if kind == "long":
        return good + b"\x00"
    if kind == "prefix":
        return bytes([spec[2]]) + good[1:]
    if kind == "coord-ge-p":  # first coordinate p + k (non-canonical / out of field)
        x = p + spec[1] % 1000
        return b"\x04" + x.to_bytes(n, "big") + good[1 + n :]
    if kind == "xplusp":  # a valid point written with x + p (fits only when the field is narrower than its byte length)
        x = int.from_bytes(good[1 : 1 + n], "big") + p
        if x.bit_length() > 8 * n:
            return b"\x04" + (p + 1).to_bytes(n, "big") + good[1 + n :]
        return b"\x04" + x.to_bytes(n, "big") + good[1 + n :]
    if kind == "offcurve":
        x, y = spec[1] % p, spec[2] % p
        return b"\x04" + x.to_bytes(n, "big") + y.to_bytes(n, "big")
    if kind == "ybump":  # valid x, y + 1
        y = (int.from_bytes(good[1 + n :], "big") + 1) % p
        return good[: 1 + n] + y.to_bytes(n, "big")
    if kind == "othercurve":
        other = [k for k in EC_KEX if k != kex][spec[1] % 2]
        return valid_point(other, 99)
    if kind == "compressed":
        y = int.from_bytes(good[1 + n :], "big")
        return bytes([2 + (y & 1)]) + good[1 : 1 + n]
    if kind == "valid":
        return good
    raise ValueError(kind)


EC_BOUNDARY = [
    ("empty",),
    ("infinity",),
    ("short", 1),
    ("long", 2),
    ("prefix", 3, 5),
    ("prefix", 4, 0),
    ("coord-ge-p", 5),
    ("xplusp", 6),
    ("ybump", 7),
    ("offcurve", 123456789, 987654321),
    ("othercurve", 0),
    ("othercurve", 1),
    ("compressed", 8),
    ("valid", 9),
]


def x_value(spec):
    kind = spec[0]
    if kind == "small":
        return SMALL_ORDER[spec[1] % len(SMALL_ORDER)]
    if kind == "len":
        return (b"\x09" + bytes(70))[: spec[1]]
    if kind == "raw":
        return spec[1]
    raise ValueError(kind)


X_BOUNDARY = [("small", i) for i in range(len(SMALL_ORDER))] + [("len", 0), ("len", 31), ("len", 33), ("len", 64), ("raw", b"\x09" + bytes(31))]

GEX_SIZES = [512, 768, 1023, 1024, 1025, 2048, 8192, 8193, 9000, 16384]

# ----------------------------------------------------------------------------- one session


def _only_kex(kex):
    return {"disabled_algorithms": {"kex": mitm.only(mitm.ALL_KEX, kex), "keys": mitm.only(["ssh-ed25519", "ecdsa-sha2-nistp256", "ecdsa-sha2-nistp384", "ecdsa-sha2-nistp521", "rsa-sha2-512", "rsa-sha2-256", "ssh-rsa"], "ssh-ed25519")}}


class OldRequestUnavailable(Exception):
    pass


def _old_request_engine(tc, kex):
    """Make the client Transport `tc` open its group exchange with the old-style request (RFC 4419 5,
    SSH_MSG_KEX_DH_GEX_REQUEST_OLD: only the preferred size, no range). paramiko's engine can do that
    (`start_kex(_test_old_style=True)`); a Transport never asks for it by itself, so the harness registers a
    subclass of the engine that does. Raises OldRequestUnavailable when the tree has no such switch."""
    import inspect

    table = getattr(tc, "_kex_info", None)
    cls = table.get(kex) if isinstance(table, dict) else None
    if cls is None or "_test_old_style" not in inspect.signature(cls.start_kex).parameters:
        raise OldRequestUnavailable(kex)

    class OldRequest(cls):
        def start_kex(self):
            if self.transport.server_mode:
                return cls.start_kex(self)
            return cls.start_kex(self, _test_old_style=True)

    tc._kex_info = dict(table, **{kex: OldRequest})  # instance attribute: this client only


def _gex_request_seen(m):
    """'new' / 'old' / None: which group-exchange request the client put on the wire."""
    types = m.types("c2s")
    return "new" if 34 in types else "old" if 30 in types else None


def _session(kex, pack_entries, cb, old_request=False):
    """Runs one handshake under a PlainMitm with callback cb. Returns facts about both sides."""
    with mitm.modulus_pack(pack_entries):
        link, tc, ts = peers.make_pair(client_kw=_only_kex(kex), host_keys=(HOSTKEY,))
        if old_request:
            _old_request_engine(tc, kex)
        m = mitm.PlainMitm(link)
        cb_errors = []

        def guarded(d, i, payload):
            try:
                return cb(m, d, i, payload)
            except Exception as e:  # a harness bug inside the MITM must not pass for a refused handshake
                cb_errors.append(repr(e))
                raise

        if cb is not None:
            m.on_packet = guarded
        try:
            ce, se = peers.start_both(tc, ts, timeout=60.0)
            if ce is not None and se is None:
                ts.join(15)
                se = ts.get_exception() or (None if ts.is_active() else EOFError())
            out = {
                "ce": ce,
                "se": se,
                "c_done": bool(tc.initial_kex_done),
                "s_done": bool(ts.initial_kex_done),
                "c_newkeys": 21 in m.types("c2s"),
                "s_newkeys": 21 in m.types("s2c"),
                "c_types": m.types("c2s"),
                "s_types": m.types("s2c"),
            }
        finally:
            peers.shutdown(tc, ts)
            mitm.cancel_timers(tc, ts)
    if m.errors:
        raise core.HarnessError("PlainMitm could not parse the handshake: %r" % (m.errors,))
    if cb_errors:
        raise core.HarnessError("MITM callback failed: %r" % (cb_errors,))
    if mitm.kex_family(kex) == "gex" and _gex_request_seen(m) not in (None, "old" if old_request else "new"):
        raise core.HarnessError("group exchange opened with the %s-style request, the case wants %s" % (_gex_request_seen(m), "old" if old_request else "new"))
    out["mitm"] = m
    return out


def _forge(kex, m, reply_type, fmt, k_s, new_mid_value, K, wire=None, group=None):
    """Reply signed by the host key over the exchange hash of the *edited* exchange. The hash is
    the RFC one (defined over VALUES); `wire` = octets to put on the wire for f instead of the minimal
    mpint; `group` = (p, g) the client was shown instead of the server's (gex); K may be a callable(e)."""
    fam = mitm.kex_family(kex)
    c = {p[0]: p for p in m.seen["c2s"]}
    s = {p[0]: p for p in m.seen["s2c"]}
    if fam == "dh":
        e = mitm.unpack(c[30], "m")[1]
        mid = mitm.mid_dh(e, new_mid_value)
    elif fam == "gex":
        p, g = group if group is not None else mitm.unpack(s[31], "mm")[1:]
        e = mitm.unpack(c[32], "m")[1]
        if 34 in c:
            _, mn, n, mx = mitm.unpack(c[34], "uuu")
            mid = mitm.mid_gex(mn, n, mx, p, g, e, new_mid_value)
        else:  # old-style request: only n enters the hash (RFC 4419 5)
            n = mitm.unpack(c[30], "u")[1]
            mid = R.u32(n) + R.mpint(p) + R.mpint(g) + R.mpint(e) + R.mpint(new_mid_value)
    else:
        q_c = mitm.unpack(c[30], "s")[1]
        mid = mitm.mid_ecdh(q_c, new_mid_value)
    if callable(K):
        K = K(e)
    H = mitm.exchange_hash(kex, m.banner["c2s"], m.banner["s2c"], c[20], s[20], k_s, mid, K)
    sig = peers.keypool()[HOSTKEY].sign_ssh_data(H, "ssh-ed25519").asbytes()
    if wire is not None:
        return R.u8(reply_type) + R.string(k_s) + R.string(wire) + R.string(sig)
    return mitm.pack(reply_type, fmt, [k_s, new_mid_value, sig])


def run_gexwire(ctx, case):
    """Client tested: the group comes from a lying server in the MITM (see module docstring)."""
    kex, spec = case["kex"], tuple(case["value"])
    bits, seed = spec[1], spec[2]
    p = (1 << (bits - 1)) | (seed % (1 << (bits - 1))) | 1
    g = 2
    penc, genc = case.get("enc"), case.get("genc")
    pw, gw = mp_wire(p, _enc_for(penc, p)), mp_wire(g, genc)
    if mp_decode(pw) != p or mp_decode(gw) != g:
        raise core.HarnessError("gexwire encodings must keep the value (negative moduli are excluded): %r" % (case,))
    bad = bits < 1024 or bits > 8192
    st_ = {"group": 0, "reply": 0}

    def cb(m, d, i, payload):
        if d == "c2s" and payload[0] == 32 and st_["group"]:
            # the real server (only used as a packet source) must get an e that fits ITS group
            return [mitm.pack(32, "m", [2])]
        if d != "s2c":
            return None
        if payload[0] == 31 and not st_["group"] and _gex_request_seen(m):
            st_["group"] = 1
            return [R.u8(31) + R.string(pw) + R.string(gw)]
        if payload[0] == 33 and st_["group"] and not st_["reply"] and 32 in m.types("c2s"):
            st_["reply"] = 1
            k_s = mitm.unpack(payload, "sms")[1]
            # the lying server's secret is y = 1: f = g, K = e**1 mod p = e
            return [_forge(kex, m, 33, "sms", k_s, g, lambda e: e % p, group=(p, g))]
        return None

    old = case.get("req") == "old"
    try:
        r = _session(kex, [(2, mitm.group_prime(1024))], cb, old_request=old)
    except OldRequestUnavailable:
        ctx.inconc("gex-request:old-style-not-available-in-this-tree")
        return True
    if not st_["group"]:
        raise core.HarnessError("group never replaced: %r (client=%r server=%r)" % (case, r["ce"], r["se"]))
    cl = ["client", "gex-group", "gex-group:lying-server", "gex-group:out-of-range" if bad else "gex-group:in-range", "kex:" + kex]
    cl += ["gex-request:" + ("old" if old else "new"), "gex-group:%s:%s-request" % ("out-of-range" if bad else "in-range", "old" if old else "new")]
    cl += ["gex-p-encoding:" + enc_label(p, _enc_for(penc, p)), "gex-g-encoding:" + enc_label(g, genc)]
    ctx.case(case, bad, cl)
    accepted = r["c_done"] or r["c_newkeys"]
    if not bad:
        ctx.count("control:lying-server-in-range-group:" + ("accepted" if accepted else "refused"))
        if old:
            ctx.count("control:lying-server-in-range-group:old-request:" + ("accepted" if accepted else "refused"))
        return True
    if accepted:
        ctx.violation(
            "gex-modulus-size",
            "client:%s-bit-modulus-accepted%s%s" % ("short" if bits < 1024 else "long", "" if not penc else ":non-canonical-encoding", ":old-style-request" if old else ""),
            case,
            "p has %d bits, sent as %d octets (%s), g sent as %s; start_client -> %r, client sent %r" % (bits, len(pw), enc_label(p, _enc_for(penc, p)), gw.hex(), r["ce"], r["c_types"]),
        )
        return False
    if 32 in r["c_types"]:
        ctx.count("gexwire:out-of-range-group:client-sent-GEX_INIT-then-failed")
    return True


# ----------------------------------------------------------------------------- process history (fixed groups)

GROUP_BITS = {"diffie-hellman-group1-sha1": 1024, "diffie-hellman-group14-sha1": 2048, "diffie-hellman-group14-sha256": 2048, "diffie-hellman-group16-sha512": 4096}
GROUP_ORDERS = [(4096, 2048, 1024), (2048, 1024, 4096), (4096, 1024, 2048), (2048, 4096, 1024), (1024, 4096, 2048), (1024, 2048, 4096)]
_FIXED_USED = []  # kex names of the fixed-group exchanges this PROCESS has performed so far, in order (consecutive repeats collapsed)


def _note_fixed(kex):
    if not _FIXED_USED or _FIXED_USED[-1] != kex:
        _FIXED_USED.append(kex)


def history_classes(kex, val, bad):
    """Evidence: where this fixed-group exchange stands in the history of the process (which groups were used before it)."""
    bits = GROUP_BITS[kex]
    before = [GROUP_BITS[k] for k in _FIXED_USED]
    if not before:
        cl = ["group-history:first-fixed-group-exchange-of-the-process"]
    else:
        cl = ["group-history:first-exchange-of-the-process-used-a-%s-group" % ("larger" if before[0] > bits else "smaller" if before[0] < bits else "same-size")]
        cl.append("group-history:previous-exchange-used-a-%s-group" % ("larger" if before[-1] > bits else "smaller" if before[-1] < bits else "same-size"))
    larger = [k for k in _FIXED_USED if GROUP_BITS[k] > bits]
    if bad and isinstance(val, int) and any(1 <= val <= mitm.fixed_group_prime(k) - 1 for k in larger):
        cl.append("out-of-domain:in-range-for-a-larger-group-used-earlier-in-the-process")
    return cl


def order_groups(cases, order):
    """The fixed-group cases of `cases` re-arranged (inside the slots they occupy) into the history of fixed groups one
    process goes through: round-robin over the group sizes in the order `order` (so the process first uses order[0], and
    every exchange with order[i+1] directly follows one with order[i] for as long as both have cases left), the tested
    role alternating inside each group. Same cases, another sequence."""
    idx = [i for i, c in enumerate(cases) if c.get("kex") in GROUP_BITS]
    queues = {}
    for bits in order:
        q = [cases[i] for i in idx if GROUP_BITS[cases[i]["kex"]] == bits]
        a, b = [c for c in q if c["role"] == "client"], [c for c in q if c["role"] != "client"]
        queues[bits] = [c for pair in zip(a, b) for c in pair] + a[len(b) :] + b[len(a) :]
    picked = []
    while any(queues.values()):
        for bits in order:
            if queues[bits]:
                picked.append(queues[bits].pop(0))
    out = list(cases)
    for i, c in zip(idx, picked):
        out[i] = c
    return out


def run_prelude(ctx, kexes):
    """Honest exchanges with the fixed groups `kexes`, in order: what a saved case says the process had done before it."""
    for kex in kexes:
        r = _session(kex, [], None)
        _note_fixed(kex)
        ctx.count("group-history:prelude-exchange:" + ("completed" if r["ce"] is None and r["c_done"] else "failed"))


def run_case(ctx, case):
    if subrun.is_history(case):
        return subrun.replay_history(ctx, __name__, case)
    self_check()
    if case.get("process_history") and not _FIXED_USED:
        # (a saved violation that showed after other fixed-group exchanges in the same process: re-create that history)
        run_prelude(ctx, case["process_history"])
    case = {k: v for k, v in case.items() if k != "process_history"}
    role, kex, spec = case["role"], case["kex"], tuple(case["value"])
    fam = mitm.kex_family(kex)
    pack = [(2, mitm.group_prime(1024))] if fam == "gex" else []
    forged = []
    applied = []

    # ---- gex group size (client tested, honest server with an odd-sized pack)
    if spec[0] == "gexsize":
        bits, g = spec[1], spec[2]
        p = (1 << (bits - 1)) | (spec[3] % (1 << (bits - 1))) | 1
        bad = bits < 1024 or bits > 8192
        gval = {"2": 2, "0": 0, "1": 1, "p-1": p - 1}[g]
        old = case.get("req") == "old"
        try:
            r = _session(kex, [(gval, p)], None, old_request=old)
        except OldRequestUnavailable:
            ctx.inconc("gex-request:old-style-not-available-in-this-tree")
            return True
        ctx.case(case, bad, ["client", "gex-group", "gex-group:out-of-range" if bad else "gex-group:in-range", "kex:" + kex, "gex-request:" + ("old" if old else "new"), "gex-group:%s:%s-request" % ("out-of-range" if bad else "in-range", "old" if old else "new")])
        if bad and (r["c_done"] or r["c_newkeys"]):
            ctx.violation("gex-modulus-size", "client:%s-bit-modulus-accepted%s" % ("short" if bits < 1024 else "long", ":old-style-request" if old else ""), case, "p has %d bits; start_client -> %r, client sent %r" % (bits, r["ce"], r["c_types"]))
            return False
        return True

    if spec[0] == "gexwire":
        return run_gexwire(ctx, case)

    # ---- public value
    wire = None
    if fam in ("dh", "gex"):
        p = mitm.fixed_group_prime(kex) if fam == "dh" else mitm.group_prime(1024)
        val = dh_value(spec, p)
        enc = _enc_for(case.get("enc"), p)
        if enc:
            wire = mp_wire(val, enc)
            enc = enc_label(val, enc)
            val = mp_decode(wire)  # what the octets mean (differs from the drawn value for "strip")
        bad = val < 1 or val > p - 1
        known_k = {0: 0, 1: 1}.get(val % p)
        kind = "dh"
    elif fam == "ecdh":
        val = ec_value(kex, spec)
        cls = point_class(kex, val)
        bad = cls == "invalid"
        known_k = None
        kind = "point:" + spec[0]
    else:
        val = x_value(spec)
        bad = x_class(val) == "invalid"
        known_k = 0 if (bad and len(val) == 32) else None
        kind = "x25519:" + spec[0]
    sign = role == "client" and known_k is not None and case.get("sign", True)
    init_type = 32 if fam == "gex" else 30
    reply_type = 33 if fam == "gex" else 31

    def cb(m, d, i, payload):
        if applied:
            return None
        if role == "server" and d == "c2s" and payload[0] == init_type and (fam != "gex" or _gex_request_seen(m)):
            applied.append(1)
            if wire is not None:
                return [R.u8(init_type) + R.string(wire)]
            return [mitm.pack(init_type, mitm.FORMATS[(fam, init_type)], [val])]
        if role == "client" and d == "s2c" and payload[0] == reply_type and (fam != "gex" or 32 in m.types("c2s")):
            applied.append(1)
            fmt = mitm.FORMATS[(fam, reply_type)]
            k_s, _, sig = mitm.unpack(payload, fmt)[1:]
            if sign:
                forged.append(1)
                return [_forge(kex, m, reply_type, fmt, k_s, val, known_k, wire=wire)]
            if wire is not None:
                return [R.u8(reply_type) + R.string(k_s) + R.string(wire) + R.string(sig)]
            return [mitm.pack(reply_type, fmt, [k_s, val, sig])]
        return None

    old = fam == "gex" and case.get("req") == "old"
    try:
        r = _session(kex, pack, cb, old_request=old)
    except OldRequestUnavailable:
        ctx.inconc("gex-request:old-style-not-available-in-this-tree")
        return True
    hist = history_classes(kex, val, bad) if fam == "dh" else []
    before = list(_FIXED_USED)
    if fam == "dh" and 30 in r["c_types"]:
        _note_fixed(kex)
    if not applied:
        carrier, sent = (init_type, r["c_types"]) if role == "server" else (reply_type, r["s_types"])
        if carrier in sent or (r["ce"] is None and r["se"] is None):
            raise core.HarnessError("edit never applied: %r (client=%r server=%r, c2s %r s2c %r)" % (case, r["ce"], r["se"], r["c_types"], r["s_types"]))
        # The message that was to carry the value never went out: the HONEST part of the exchange (paramiko's own in-range
        # values) was refused before. Nothing this property obliges - and no verdict on this case either.
        ctx.inconc("honest-exchange-failed-before-the-value-under-test-was-sent:%s:%s" % (role, kex))
        ctx.note("last-honest-exchange-failure", "%r: client=%r server=%r, c2s %r s2c %r; fixed groups used earlier in this process: %r" % (case, r["ce"], r["se"], r["c_types"], r["s_types"], before))
        return True
    cl = [role, kind, "kex:" + kex, "out-of-domain" if bad else "in-domain"] + hist
    if fam in ("dh", "gex"):
        cl.append("mpint-encoding:" + (enc or "canonical"))
        if bad and wire is not None:
            cl.append("out-of-domain:non-canonical:" + ("zero" if val == 0 else "negative" if val < 0 else "above-p-1"))
    if forged:
        cl.append("lying-server-signed")
    if fam == "gex":
        cl.append("gex-request:" + ("old" if old else "new"))
        cl.append("%s:gex-value:%s-request" % (role, "old" if old else "new"))
    ctx.case(case, bad, cl)
    if not bad:
        if forged and r["ce"] is None:
            ctx.count("control:signed-in-range-reply-accepted")
        return True
    vcase, vhist = case, ""
    if fam == "dh" and before and before != [kex]:
        # state carried from earlier exchanges of this process may matter: the saved case re-creates them first
        # (the first and the latest ones when there were many)
        short = before if len(before) <= 8 else before[:3] + before[-5:]
        vcase = dict(case, process_history=short)
        vhist = "; fixed groups exchanged earlier in this process (%d exchanges%s): %s" % (len(before), "" if short is before else ", first 3 and last 5 shown", ", ".join(short))
    if role == "server":
        if r["se"] is None and not r["s_newkeys"] and not r["s_done"]:
            ctx.inconc("server-neither-failed-nor-proceeded-in-time")
            return True
        if r["s_newkeys"] or r["s_done"]:
            ctx.violation(
                "invalid-peer-value-rejected",
                "server:%s:%s%s%s" % (fam, _bucket(fam, spec, val), _noncanon(case), ":old-style-request" if old else ""),
                vcase,
                "server got %s%s; negotiation error %r, initial_kex_done=%s, server sent types %r%s" % (_show(val), _showwire(wire), r["se"], r["s_done"], r["s_types"], vhist),
            )
            return False
    else:
        if r["ce"] is None and not r["c_newkeys"] and not r["c_done"]:
            ctx.inconc("client-neither-failed-nor-proceeded-in-time")  # start_client timeout, not an acceptance
            return True
        if r["c_newkeys"] or r["c_done"]:
            ctx.violation(
                "invalid-peer-value-rejected",
                "client:%s:%s%s%s%s" % (fam, _bucket(fam, spec, val), ":signed" if forged else "", _noncanon(case), ":old-style-request" if old else ""),
                vcase,
                "client got %s%s (%s); start_client -> %r, initial_kex_done=%s, client sent types %r%s" % (_show(val), _showwire(wire), "reply re-signed by the host key" if forged else "plain edit", r["ce"], r["c_done"], r["c_types"], vhist),
            )
            return False
    return True


def _bucket(fam, spec, val):
    if fam in ("dh", "gex"):
        return "below-1" if val < 1 else "above-p-1"
    return spec[0]


def _noncanon(case):
    return ":non-canonical-encoding" if case.get("enc") else ""


def _showwire(wire):
    if wire is None:
        return ""
    return " sent as the non-minimal mpint %s%s (%d octets)" % (wire[:6].hex(), ".." if len(wire) > 6 else "", len(wire))


def _show(val):
    if isinstance(val, int):
        return "value with %d bits, sign %s" % (val.bit_length(), "-" if val < 0 else "+")
    return "%d bytes %s" % (len(val), val[:20].hex())


# ----------------------------------------------------------------------------- domain / drivers


def boundary_domain(quick):
    cases = []
    dh_kex = ["diffie-hellman-group1-sha1"] if quick else DH_KEX
    for role in ("client", "server"):
        for kex in dh_kex + GEX_KEX[: 1 if quick else 2]:
            for spec in DH_BOUNDARY:
                cases.append({"role": role, "kex": kex, "value": list(spec)})
        if quick:
            for spec in (("p", 1), ("0", 0), ("p", 0), ("-p", 1), ("p", -1), ("2p", 1)):
                cases.append({"role": role, "kex": "diffie-hellman-group14-sha256", "value": list(spec)})
            for kex in ("diffie-hellman-group14-sha1", "diffie-hellman-group16-sha512", GEX_KEX[1]):
                for spec in (("p", 1), ("0", 0), ("p", 0)):
                    cases.append({"role": role, "kex": kex, "value": list(spec)})
        for kex in EC_KEX:
            for spec in EC_BOUNDARY:
                cases.append({"role": role, "kex": kex, "value": list(spec)})
        for spec in X_BOUNDARY:
            cases.append({"role": role, "kex": X_KEX, "value": list(spec)})
            if role == "client" and spec[0] == "small":
                cases.append({"role": role, "kex": X_KEX, "value": list(spec), "sign": False})
    # non-canonical mpint encodings of e / f: every encoding for 0 (its minimal form is the empty string),
    # for the other boundary values one rotating encoding (quick) / every encoding (thorough)
    j = 0
    for role in ("client", "server"):
        for kex in dh_kex + GEX_KEX[: 1 if quick else 2]:
            for spec in DH_BOUNDARY:
                for ei, enc in enumerate(DH_ENCODINGS):
                    if enc == ["strip"]:
                        if spec[0] != "p":
                            continue  # only values whose minimal form starts with the sign byte 00
                    elif quick and spec != ("0", 0) and ei != j % (len(DH_ENCODINGS) - 1):
                        continue
                    cases.append({"role": role, "kex": kex, "value": list(spec), "enc": list(enc)})
                j += 1
        if quick:
            for ki, kex in enumerate(("diffie-hellman-group14-sha1", "diffie-hellman-group14-sha256", "diffie-hellman-group16-sha512", GEX_KEX[1])):
                cases.append({"role": role, "kex": kex, "value": ["0", 0], "enc": list(DH_ENCODINGS[(ki + (role == "server")) % 4])})
                cases.append({"role": role, "kex": kex, "value": ["p", ki % 2], "enc": [["strip"], ["pad", 3]][ki // 2]})
    # gex group from the lying MITM server: sizes x encoding of p (and of g)
    encs = [None, ["pad", 1], ["pad", 3], ["padto", 129], ["padto", 257], ["padto", 1025]]
    for i, bits in enumerate(GEX_SIZES):
        for ei, enc in enumerate(encs):
            if quick and ei not in (i % len(encs), (i + 3) % len(encs)):
                continue
            if quick and bits == 8192 and not enc:
                continue  # (seconds of modular arithmetic; the honest-server case below covers the minimal form)
            c = {"role": "client", "kex": GEX_KEX[(i + ei) % 2], "value": ["gexwire", bits, 4242 + i]}
            if enc:
                c["enc"] = list(enc)
            if (i + ei) % 3 == 0:
                c["genc"] = ["pad", 1 + ei % 2]
            cases.append(c)
    for i, bits in enumerate(GEX_SIZES):
        if quick and bits in (8192, 2048) and i % 2:
            pass
        cases.append({"role": "client", "kex": GEX_KEX[i % 2], "value": ["gexsize", bits, "2", 12345 + i]})
    for g in ("0", "1", "p-1"):
        cases.append({"role": "client", "kex": GEX_KEX[0], "value": ["gexsize", 1024, g, 777]})
    # group exchange opened with the OLD-style request (RFC 4419 5: preferred size only): e / f boundary values for
    # both roles, every modulus size from the lying server (encoding rotating) and three from an honest server
    for role in ("client", "server"):
        for j, spec in enumerate(DH_BOUNDARY):
            c = {"role": role, "kex": GEX_KEX[j % 2], "value": list(spec), "req": "old"}
            if j % 3 == 2:
                c["enc"] = list(DH_ENCODINGS[j % 4])
            cases.append(c)
    for i, bits in enumerate(GEX_SIZES):
        if quick and bits == 8192:
            continue  # (seconds of modular arithmetic in the accepting control)
        c = {"role": "client", "kex": GEX_KEX[i % 2], "value": ["gexwire", bits, 777 + i], "req": "old"}
        if encs[i % len(encs)]:
            c["enc"] = list(encs[i % len(encs)])
        cases.append(c)
    for i, bits in enumerate((768, 1023, 8193)):
        cases.append({"role": "client", "kex": GEX_KEX[(i + 1) % 2], "value": ["gexsize", bits, "2", 4711 + i], "req": "old"})
    return cases


CHILD_DH = [("0", 0), ("p", 0), ("p", 1), ("-p", 1)]
CHILD_EC = ["infinity", "offcurve", "coord-ge-p"]
CHILD_X = [("small", 0), ("small", 2), ("len", 31)]
CHILD_SIZES = [512, 1023, 1024, 8193, 16384]


def child_sample(dom, order, full=False):
    """Sub-sample of the enumerated boundary domain `dom` for a child interpreter (another interpreter configuration,
    another history of groups): per role and method the values right outside the accepted domain on each side, the
    modulus sizes right outside / far outside the range and one in-range control, e / f in canonical encoding."""
    if full:
        return order_groups(dom, order)
    out, seen = [], set()
    for c in dom:
        spec, kex = tuple(c["value"]), c["kex"]
        fam = mitm.kex_family(kex)
        if spec[0] != "gexwire" and (c.get("enc") or c.get("genc") or c.get("sign") is False):
            continue  # (the lying gex server's cases keep whatever encoding the enumeration gave them: first one per size)
        if spec[0] in ("gexwire", "gexsize"):
            key = (spec[0], spec[1], c.get("req"))
            keep = spec[1] in CHILD_SIZES and (spec[0] == "gexwire" or spec[2] == "2")
        elif fam in ("dh", "gex"):
            key = (c["role"], kex, spec, c.get("req"))
            keep = spec in CHILD_DH
        elif fam == "ecdh":
            key = (c["role"], kex, spec[0])
            keep = kex == EC_KEX[0] and spec[0] in CHILD_EC
        else:
            key = (c["role"], spec)
            keep = spec in CHILD_X
        if keep and key not in seen:
            seen.add(key)
            out.append(c)
    return order_groups(out, order)


def random_cases():
    role = st.sampled_from(["client", "server"])
    big = st.integers(2, 2**1100)
    dh = st.tuples(
        role,
        st.sampled_from(["diffie-hellman-group1-sha1", "diffie-hellman-group1-sha1", GEX_KEX[0], GEX_KEX[1], "diffie-hellman-group14-sha1", "diffie-hellman-group14-sha256", "diffie-hellman-group16-sha512"]),
        st.one_of(
            st.tuples(st.just("p"), big),  # random > p
            st.tuples(st.just("2p"), big),
            st.tuples(st.just("-p"), big.map(lambda n: -n)),  # random negative
            st.tuples(st.just("0"), big.map(lambda n: -n)),
            st.tuples(st.just("0"), st.integers(3, 2**1000)),  # in range
            st.tuples(st.sampled_from(["p", "2p", "-p", "0"]), st.integers(-3, 3)),
        ),
    ).map(lambda t: {"role": t[0], "kex": t[1], "value": list(t[2])})
    encodings = st.one_of(
        st.tuples(st.just("pad"), st.integers(1, 8)),
        st.tuples(st.just("pad"), st.integers(9, 600)),
        st.tuples(st.just("padto"), st.sampled_from([129, 130, 257, 258, 513, "len(p)+1"])),
        st.tuples(st.just("strip")),
    ).map(list)
    dh_enc = st.tuples(dh, encodings).map(lambda t: dict(t[0], enc=t[1]))
    coords = st.integers(0, 2**530)
    ecs = st.tuples(
        role,
        st.sampled_from(EC_KEX),
        st.one_of(
            st.tuples(st.just("offcurve"), coords, coords),
            st.tuples(st.just("coord-ge-p"), st.integers(0, 999)),
            st.tuples(st.just("ybump"), st.integers(0, 2**32)),
            st.tuples(st.just("short"), st.integers(0, 2**32)),
            st.tuples(st.just("prefix"), st.integers(0, 2**32), st.integers(0, 255).filter(lambda b: b != 4)),
            st.tuples(st.just("valid"), st.integers(0, 2**32)),
        ),
    ).map(lambda t: {"role": t[0], "kex": t[1], "value": list(t[2])})
    xs = st.tuples(
        role,
        st.one_of(
            st.tuples(st.just("small"), st.integers(0, len(SMALL_ORDER) - 1)),
            st.tuples(st.just("len"), st.integers(0, 70).filter(lambda n: n != 32)),
            st.tuples(st.just("raw"), st.binary(min_size=32, max_size=32)),
        ),
    ).map(lambda t: {"role": t[0], "kex": X_KEX, "value": list(t[1])})
    sizes = st.tuples(st.integers(512, 1023), st.integers(0, 2**510)).map(lambda t: {"role": "client", "kex": GEX_KEX[t[1] % 2], "value": ["gexsize", t[0], "2", t[1]]})
    sizes_hi = st.tuples(st.integers(8193, 16384), st.integers(0, 2**510)).map(lambda t: {"role": "client", "kex": GEX_KEX[t[1] % 2], "value": ["gexsize", t[0], "2", t[1]]})
    wire = st.tuples(st.one_of(st.integers(512, 1023), st.integers(8193, 9000), st.integers(1024, 2048)), st.integers(0, 2**510), st.one_of(st.none(), encodings.filter(lambda e: e[0] != "strip" and e[1] != "len(p)+1")), st.one_of(st.none(), st.tuples(st.just("pad"), st.integers(1, 4)).map(list))).map(
        lambda t: dict({"role": "client", "kex": GEX_KEX[t[1] % 2], "value": ["gexwire", t[0], t[1]]}, **dict(([("enc", t[2])] if t[2] else []) + ([("genc", t[3])] if t[3] else [])))
    )
    table = [dh] * 3 + [dh_enc] * 3 + [ecs] * 4 + [xs] * 2 + [sizes, sizes_hi, wire, wire]

    def with_request(t):
        # group exchange: old-style request in one of three cases
        c, old = t
        return dict(c, req="old") if old and c["kex"] in GEX_KEX else c

    return st.tuples(st.integers(0, len(table) - 1).flatmap(lambda i: table[i]), st.sampled_from([False, False, True])).map(with_request)


def run(ctx):
    # (VERIF_BUDGET_SCALE: validation runs on an oversubscribed machine may stretch the wall-clock safety net; never part of a verdict)
    _bs = max(1.0, float(__import__("os").environ.get("VERIF_BUDGET_SCALE", "1") or 1))
    ctx.set_budget(80 * _bs, 780 * _bs)
    ctx.assume("a well-formed compressed NIST point and DH values 1 and p-1 are inside the accepted domain (no obligation)")
    ctx.assume("gex moduli are generated positive only: a negative modulus of legal size makes KexGex._generate_x loop forever (DESIGN.md observation O1, outside this property)")
    ctx.exclude("O1:negative-gex-modulus(never generated)")
    dom = boundary_domain(ctx.quick)
    mine = [c for i, c in enumerate(dom) if i % ctx.nworkers == ctx.worker]
    # history of fixed groups this process goes through (a process has only one): quick = descending sizes (a bound or
    # table left over from a LARGER group is what could let an out-of-range value through); thorough: worker w takes the
    # w-th of the 6 orders. The child interpreter below is a second process: it gets the next order.
    order = GROUP_ORDERS[ctx.worker % len(GROUP_ORDERS)]
    mine = order_groups(mine, order)
    ctx.note("group-order:worker-%d" % ctx.worker, "fixed groups first used in the order %r (child interpreter: %r)" % (order, GROUP_ORDERS[(ctx.worker + 1) % len(GROUP_ORDERS)]))
    # interpreter configuration: a sub-sample of the boundary domain (thorough: all of this worker's share) runs in a child
    # `python -O` (asserts and __debug__ blocks compiled away) through the same run_case, in parallel with this process
    child = subrun.spawn(ctx, __name__, child_sample(mine if not ctx.quick else dom, GROUP_ORDERS[(ctx.worker + 1) % len(GROUP_ORDERS)], full=not ctx.quick), pyflags=("-O",), budget_s=60 * _bs if ctx.quick else 600 * _bs)
    done_all = True
    for c in mine:
        if ctx.out_of_time():
            done_all = False
            break
        run_case(ctx, c)
    if done_all:
        ctx.exhaustive = True
        ctx.note("exhaustive_over", "the boundary list (%d cases: role x kex x boundary value); random values are sampled" % len(dom))
    ctx.explore(random_cases(), lambda c: run_case(ctx, c), ctx.scale(105, 6000), shrink=False)
    sub = subrun.collect(ctx, child, classes=["interpreter:python -O (asserts stripped)"])
    ctx.note("child-interpreter", "python -O: %d cases, %d case errors, ok=%s" % (sub["ran"], sub["errors"], sub["ok"]))
    if ctx.classes.get("gex-group:lying-server") and not ctx.classes.get("control:lying-server-in-range-group:accepted"):
        ctx.inconc("gexwire:control-never-accepted(out-of-range verdicts of the lying gex server mean nothing)")


def replay(ctx, case):
    run_case(ctx, case)
