"""C13 - blocking calls return once the connection ends.

Domain (one case = one fresh session):
  call    one of CALLS below (Channel.recv / recv_stderr / send / sendall on a zero window /
          recv_exit_status / exec_command / invoke_subsystem / open_session / auth_password /
          auth_publickey / global_request(wait=True) / renegotiate_keys / start_client blocked
          before the banner or in the middle of key exchange / accept(None) / accept(5) / two
          concurrent accept(None) - each accept form on a server transport and ("...@client") on a
          client transport, where accept() is the documented pick-up point for forwarded / x11 / agent
          channels; plus the documented event forms auth_password(event=) and
          start_client(event=) where the caller waits on the event)
  state   for the calls named "<call>@rekey...": a key re-exchange is in flight when the connection is
          lost - started by the tested side (renegotiate_keys() in a thread, which is itself a blocked
          call that must come back: the peer's KEXINIT is held on the link) or by the peer (its KEXINIT
          is delivered, its kex reply + NEWKEYS are held); who starts it is drawn (flavor // 8 % 2).
          The sending calls (send / sendall on an open window, exec_command, invoke_subsystem,
          global_request, open_session) are then parked in Transport._send_user_message behind the
          unfinished exchange; "send@rekey-zero-window" sits in the window wait and the re-exchange
          starts while it waits; recv / accept(None) wait where they always wait
  pre     for the channel-level calls: the history of the channel object before the call - none, shutdown_read(),
          shutdown_write(), shutdown(2), EOF received from the peer, set_combine_stderr(True), local-close (the
          application called Channel.close(): EOF + CLOSE are on the wire and were seen by the peer, the peer's CLOSE
          has not arrived when the connection is lost - the channel is "closed" but still registered with the
          transport), peer-close (the peer's CLOSE arrived and was answered: the channel is closed and unlinked).
          Where that history makes the call non-blocking by contract (recv after the peer's EOF, send after
          shutdown_write, channel requests after EOF in either direction, every call on a closed channel) only the
          loss-first / together moments apply; quick runs each such (call, pre-state) pair once in loss-first order
  tx      state of the tested side's SEND direction when the connection is lost: ok, or "full" - the peer has stopped
          reading and every buffer on the way is full, so the socket-like object accepts nothing (send() waits out the
          0.1 s socket timeout and raises socket.timeout, as a kernel socket with a full send buffer does). Two forms:
          the calls "<call>@tx-full" (send / sendall on an open window, exec_command, global_request) are issued
          with the direction already full, so the caller sits in Packetizer.write_all holding the packetizer's write
          lock when the connection is lost (every link loss); and the case field tx="full" makes the direction full
          right before the loss trigger for any call (combined with the losses that end the connection at the socket
          or locally: peer-close, link-eof, link-error, local-close - after a DISCONNECT / garbage the puppet keeps
          its socket open, and a transport thread that still has to write to a peer that neither reads nor hangs up
          would not be a lost connection). link-error is a connection that died with an error (RST, unreachable ...):
          as on a kernel socket that ends BOTH directions, so with tx="full" the error is also what a sender waiting
          on the full direction and every later send() gets (net.Direction.set_send_error) instead of timing out for
          ever. link-eof + tx="full" is "the peer half-closed and stopped reading": the peer is still there, a send
          may legitimately block, and the tested side learns of the end only by READING. Hence a domain restriction:
          start_client-banner, whose transport thread WRITES (the banner, in Packetizer.write_all, which by design
          retries socket.timeout until the packetizer is closed) before it ever reads, is combined with link-eof +
          tx="full" only in call-first order (banner already out, thread parked in the read when the loss happens);
          issued after / together with such a half-close the thread blocks in a send to a peer that has not hung up -
          not a lost connection in the sense of the statement. (The other losses of the tx="full" set end the send
          direction as well - peer-close: broken pipe, link-error: the error - and stay in the domain in every moment;
          every other call has the transport thread parked in a read at the loss, and Packetizer.close() needs no lock
          a stalled writer holds.) Link only (a full pipe into a ProxyCommand child is not modelled)
  timeout None, or 5 s where the API has a timeout knob (settimeout / timeout= / auth_timeout)
  moment  call-first (the call is verifiably blocked, then the loss happens), loss-first (the loss
          happened and the transport noticed it, then the call is issued), together (call and
          loss released by a barrier, skewed by -100..100 ms)
  loss    peer-close (peer Transport.close()), link-eof, link-error (errno drawn), local-close
          (tested Transport.close() from another thread), disconnect (peer sends DISCONNECT),
          garbage (puppet sends a packet with a corrupted MAC / a message for an unknown channel /
          a bad banner / an out-of-order kex packet), proxy-exit (relay child ends because its far
          end went away), proxy-kill (relay child SIGKILLed), proxy-stdout-eof (the stream paramiko reads
          from reaches end of file while the command is still running: the relay child closes its stdout -
          flavor // 2 % 2 == 1: and its stdin - when its far end goes away, then lingers)
  via     link (tested transport directly on the in-memory net.Link) or proxy (client transport on
          a real paramiko.ProxyCommand whose child relays stdin/stdout to an AF_UNIX socket that the
          harness pumps into the same net.Link)

The peer is a vlib.peers.Puppet: production handshake, then raw mode (never answers) or a held
link direction, so the call under test really blocks.

Oracle: within BOUND = 10 s (100x the 0.1 s polling period) after the loss trigger returned, every
blocked call has returned or raised, is_active() is False, and the same call issued afterwards
returns or raises within BOUND. local close() itself must return within BOUND. A case is reported
only if the same clause fails in 3 consecutive runs; the stacks of the stuck threads
(sys._current_frames) go into the replay detail. Any return value / exception type is accepted.
"""
import errno
import heapq
import itertools
import os
import signal
import socket
import sys
import threading
import time

from hypothesis import strategies as st

from vlib import core, net, peers

PROPERTY = "C13"
LEVEL = "exploration"
RULE = (
    "call x loss x moment x timeout x via(link|ProxyCommand child) enumerated; the call domain includes, for the sending calls "
    "(send, sendall, exec_command, invoke_subsystem, global_request, open_session) and for recv / accept / a send on a zero window, "
    "the state 'a key re-exchange is in flight' (started by the tested side or by the peer - drawn -, the peer's next kex packet held on the link, "
    "so the sending calls are parked in Transport._send_user_message and the starting renegotiate_keys() is one more blocked call); the channel-level calls "
    "additionally x channel pre-state {none, shutdown_read, shutdown_write, shutdown(2), peer EOF received, set_combine_stderr, local-close = Channel.close() called and the "
    "peer's CLOSE still outstanding at the loss, peer-close = closed by the peer and unlinked} (quick: every channel call x pre-state "
    "once with a rotating loss - in call-first order where the history leaves the call blocking, in loss-first order where it makes the call non-blocking by contract -, "
    "drawn in the other moments; thorough: x every loss x moment); "
    "x state of the tested side's send direction at the loss {ok, full = the peer stopped reading, the socket-like object accepts nothing}: the calls '<call>@tx-full' "
    "(send, sendall, exec_command, global_request issued on a full direction: blocked in Packetizer.write_all holding the write lock) x every link loss, and the "
    "case field tx=full (direction made full right before the loss trigger) for every call once in quick with the loss rotating over peer-close / link-eof / link-error / local-close "
    "(link-error = the connection died with an error: with tx=full a stalled or later send() raises that error too, as on a kernel socket; "
    "link-eof + tx=full = half-close by a peer that stopped reading: for start_client-banner, whose transport thread writes the banner before it ever reads, "
    "only in call-first order - a write blocked towards a peer that has not hung up is not a lost connection); (quick: every applicable call x loss pair "
    "once in call-first order over the link, every client call over a real ProxyCommand child for 'child gone' (exit / SIGKILL alternating per call), "
    "'stdout EOF while the child lingers' and one loss that reaches the transport another way, plus "
    "drawn loss-first/together cases; thorough: full product x 3 moments x repetitions, sharded), errno / garbage flavour / "
    "skew drawn by hypothesis; the accept forms run on a server transport and on a client transport (accept is the pick-up point of forwarded channels there); "
    "the proxy losses are child exit, child SIGKILL and end-of-file on the child's stdout while the child lingers; cases run 6-8 at a time in threads (own Link/transports each); non-trivial = the caller thread "
    "was observed (sys._current_frames, two samples) inside the expected paramiko wait with its request seen by the mute peer (or the held kex packet seen on the link) "
    "when the loss was triggered, or the call was issued after the loss; distinct by (call, pre-state, loss, moment, timeout, via, flavour, skew); "
    "a timeout counts only after 3 consecutive failing runs"
)
THOROUGH_WORKERS = 16

BOUND = 10.0
SETUP_T = 40.0

# ----------------------------------------------------------------------------- calls


class Inconclusive(Exception):
    pass


class Spec:
    def __init__(self, role, fn, expect, kind="session", auth=True, chan=False, mute="raw", timeouts=(None,), ready=None, moments=("call-first", "loss-first", "together"), callers=1, fill=False, service=False, rekey=None, tx_full=False):
        self.role = role
        self.fn = fn
        self.expect = expect  # (file basename, function) that must be on the blocked caller's stack
        self.kind = kind  # "session" | "start"
        self.auth = auth
        self.chan = chan
        self.mute = mute  # "raw" | "hold"
        self.timeouts = timeouts
        self.ready = ready  # env -> bool: the request reached the mute peer
        self.moments = moments
        self.callers = callers
        self.fill = fill
        self.service = service  # tested client is a ServiceRequestingTransport (auth waits for SERVICE_ACCEPT itself)
        # a key re-exchange is in flight at the loss: "before" = started before the call is issued (the call parks
        # behind it), "after-call" = in call-first order it starts once the call is blocked (otherwise before)
        self.rekey = rekey
        # the tested side's send direction is already full when the call is issued (the call blocks in write_all)
        self.tx_full = tx_full


def _saw(ptype):
    return lambda env: any(e[1] == ptype for e in list(env.peer.log))


def _set_to(env, t):
    env.chan.settimeout(t)


def c_recv(env, t):
    _set_to(env, t)
    return env.chan.recv(16)


def c_recv_stderr(env, t):
    _set_to(env, t)
    return env.chan.recv_stderr(16)


def c_send(env, t):
    _set_to(env, t)
    return env.chan.send(b"b" * 100)


def c_sendall(env, t):
    _set_to(env, t)
    return env.chan.sendall(b"b" * 100)


def c_exit_status(env, t):
    return env.chan.recv_exit_status()


def c_exec(env, t):
    return env.chan.exec_command("true")


def c_subsystem(env, t):
    return env.chan.invoke_subsystem("sftp")


def c_open_session(env, t):
    return env.tested.open_session(timeout=t)


def c_auth_password(env, t):
    if t is not None:
        env.tested.auth_timeout = t
    return env.tested.auth_password("u", "pw")


def c_auth_none(env, t):
    return env.tested.auth_none("u")


def c_auth_publickey(env, t):
    if t is not None:
        env.tested.auth_timeout = t
    return env.tested.auth_publickey("u", peers.keypool()["ed25519b"])


def _wait_event(ev):
    # the documented contract of the event forms: "the event will be triggered once ... succeeds or fails"
    while not ev.wait(0.5):
        pass
    return "event-set"


def c_auth_password_event(env, t):
    ev = threading.Event()
    env.events.append(ev)
    env.tested.auth_password("u", "pw", event=ev)
    return _wait_event(ev)


def c_global_request(env, t):
    return env.tested.global_request("verif-nobody-answers@verif", wait=True)


def c_renegotiate(env, t):
    return env.tested.renegotiate_keys()


def c_start_client(env, t):
    return env.tested.start_client(timeout=t)


def c_start_client_event(env, t):
    ev = threading.Event()
    env.events.append(ev)
    env.tested.start_client(event=ev)
    return _wait_event(ev)


def c_accept_none(env, t):
    return env.tested.accept(None)


def c_accept_5(env, t):
    return env.tested.accept(5)


def _kex_held(env):
    # the re-exchange was started and the peer's next kex packet sits on the held link: it cannot finish
    return env.rekey_started and env.rx.n_pending() >= 1


def _sender_stalled(env):
    return env.tx.blocked_senders >= 1 or env.tx.refused >= 1


CF = ("call-first",)
T5 = (None, 5)
SUM = ("transport.py", "_send_user_message")
WRA = ("packet.py", "write_all")
CALLS = {
    "recv": Spec("client", c_recv, ("buffered_pipe.py", "read"), chan=True, timeouts=T5),
    "recv_stderr": Spec("client", c_recv_stderr, ("buffered_pipe.py", "read"), chan=True, timeouts=T5),
    "send": Spec("client", c_send, ("channel.py", "_wait_for_send_window"), chan=True, timeouts=T5, fill=True),
    "sendall": Spec("client", c_sendall, ("channel.py", "_wait_for_send_window"), chan=True, timeouts=T5, fill=True),
    "recv_exit_status": Spec("client", c_exit_status, ("channel.py", "recv_exit_status"), chan=True),
    "exec_command": Spec("client", c_exec, ("channel.py", "_wait_for_event"), chan=True, ready=_saw(98)),
    "invoke_subsystem": Spec("client", c_subsystem, ("channel.py", "_wait_for_event"), chan=True, ready=_saw(98)),
    "open_session": Spec("client", c_open_session, ("transport.py", "open_channel"), timeouts=T5, ready=_saw(90)),
    "auth_password": Spec("client", c_auth_password, ("auth_handler.py", "wait_for_response"), auth=False, timeouts=T5, ready=_saw(5)),
    "auth_publickey": Spec("client", c_auth_publickey, ("auth_handler.py", "wait_for_response"), auth=False, timeouts=T5, ready=_saw(5)),
    "svc_auth_password": Spec("client", c_auth_password, ("transport.py", "ensure_session"), auth=False, timeouts=T5, ready=_saw(5), service=True),
    "svc_auth_none": Spec("client", c_auth_none, ("transport.py", "ensure_session"), auth=False, ready=_saw(5), service=True),
    "auth_password_event": Spec("client", c_auth_password_event, ("c13.py", "_wait_event"), auth=False, ready=_saw(5), moments=CF),
    "global_request": Spec("client", c_global_request, ("transport.py", "global_request"), ready=_saw(80)),
    "renegotiate_keys": Spec("client", c_renegotiate, ("transport.py", "renegotiate_keys"), mute="hold", ready=lambda env: env.rx.n_pending() >= 1),
    "start_client-banner": Spec("client", c_start_client, ("transport.py", "start_client"), kind="start", mute="hold", timeouts=T5, ready=lambda env: len(env.tx.sent) >= 1),
    "start_client-kex": Spec("client", c_start_client, ("transport.py", "start_client"), kind="start", mute="hold", timeouts=T5, ready=lambda env: env.stage_done, moments=CF),
    "start_client_event-kex": Spec("client", c_start_client_event, ("c13.py", "_wait_event"), kind="start", mute="hold", ready=lambda env: env.stage_done, moments=CF),
    "accept-none": Spec("server", c_accept_none, ("transport.py", "accept")),
    "accept-5": Spec("server", c_accept_5, ("transport.py", "accept")),
    "accept2": Spec("server", c_accept_none, ("transport.py", "accept"), callers=2, moments=CF),
    # -- accept() on a CLIENT transport: where channels of request_port_forward() without a handler, x11 and agent
    #    forwarding are picked up
    "accept-none@client": Spec("client", c_accept_none, ("transport.py", "accept")),
    "accept-5@client": Spec("client", c_accept_5, ("transport.py", "accept")),
    "accept2@client": Spec("client", c_accept_none, ("transport.py", "accept"), callers=2, moments=CF),
    # -- a key re-exchange is in flight when the connection is lost (the inbound link direction is held)
    "send@rekey": Spec("client", c_send, SUM, chan=True, mute="hold", timeouts=T5, ready=_kex_held, rekey="before"),
    "sendall@rekey": Spec("client", c_sendall, SUM, chan=True, mute="hold", timeouts=T5, ready=_kex_held, rekey="before"),
    "exec_command@rekey": Spec("client", c_exec, SUM, chan=True, mute="hold", ready=_kex_held, rekey="before"),
    "invoke_subsystem@rekey": Spec("client", c_subsystem, SUM, chan=True, mute="hold", ready=_kex_held, rekey="before"),
    "global_request@rekey": Spec("client", c_global_request, SUM, mute="hold", ready=_kex_held, rekey="before"),
    "open_session@rekey": Spec("client", c_open_session, SUM, mute="hold", timeouts=T5, ready=_kex_held, rekey="before"),
    "send@rekey-zero-window": Spec("client", c_send, ("channel.py", "_wait_for_send_window"), chan=True, mute="hold", timeouts=T5, fill=True, ready=_kex_held, rekey="after-call"),
    "recv@rekey": Spec("client", c_recv, ("buffered_pipe.py", "read"), chan=True, mute="hold", timeouts=T5, ready=_kex_held, rekey="after-call"),
    "accept-none@rekey": Spec("server", c_accept_none, ("transport.py", "accept"), mute="hold", ready=_kex_held, rekey="after-call"),
    # -- the peer has stopped reading and the send side is full: the caller sits in Packetizer.write_all (write lock held)
    "send@tx-full": Spec("client", c_send, WRA, chan=True, timeouts=T5, ready=_sender_stalled, tx_full=True),
    "sendall@tx-full": Spec("client", c_sendall, WRA, chan=True, timeouts=T5, ready=_sender_stalled, tx_full=True),
    "exec_command@tx-full": Spec("client", c_exec, WRA, chan=True, ready=_sender_stalled, tx_full=True),
    "global_request@tx-full": Spec("client", c_global_request, WRA, ready=_sender_stalled, tx_full=True),
}

LINK_LOSSES = ("peer-close", "link-eof", "link-error", "local-close", "disconnect", "garbage")
PROXY_LOSSES = ("proxy-exit", "proxy-kill", "proxy-stdout-eof")
MOMENTS = ("call-first", "loss-first", "together")
# errno values a dead connection reports. Not in the domain: EAGAIN (documented by Packetizer.read_all as "no data
# yet") and ETIMEDOUT: OSError(ETIMEDOUT) *is* TimeoutError == socket.timeout since Python 3.10, i.e. the idle-poll
# signal of the socket-like API; a real socket reports it once and then reads EOF, whereas Link.set_error is
# persistent, so a persistent ETIMEDOUT would model a link that is merely idle, not a lost one.
ERRNOS = (errno.ECONNRESET, errno.ENETUNREACH, errno.EHOSTUNREACH, errno.EPIPE, errno.ENETDOWN, errno.ECONNABORTED, errno.EIO, errno.ENOTCONN)

# history of the channel object before the call (channel-level calls only)
PRE_STATES = ("none", "shutdown_read", "shutdown_write", "shutdown_rdwr", "peer-eof", "combine-stderr", "local-close", "peer-close")
CHAN_BASE_CALLS = ("recv", "recv_stderr", "send", "sendall", "recv_exit_status", "exec_command", "invoke_subsystem")
# losses the tx="full" case field is combined with (see module docstring)
TX_FULL_LOSSES = ("peer-close", "link-eof", "link-error", "local-close")
# (base call, pre-state) pairs that return at once by contract, connection or not: never "blocked at the loss"
PRE_NOT_BLOCKING = frozenset(
    [(c, "peer-eof") for c in ("recv", "recv_stderr")]
    + [(c, p) for c in ("send", "sendall") for p in ("shutdown_write", "shutdown_rdwr")]
    # channel requests are refused ("Channel is not open") once either direction has seen / feigned EOF
    + [(c, p) for c in ("exec_command", "invoke_subsystem") for p in ("shutdown_read", "shutdown_write", "shutdown_rdwr", "peer-eof")]
    # a closed channel: recv reads EOF, send / requests are refused, the exit status is final (-1 if none came)
    + [(c, p) for c in CHAN_BASE_CALLS for p in ("local-close", "peer-close")]
)


def applicable(call, loss, moment, timeout, via, pre="none", tx="ok"):
    sp = CALLS[call]
    if moment not in sp.moments or timeout not in sp.timeouts:
        return False
    if (sp.tx_full or tx != "ok") and via != "link":
        return False
    if tx != "ok" and loss not in TX_FULL_LOSSES:
        return False
    if tx != "ok" and loss == "link-eof" and sp.kind == "start" and moment != "call-first":
        # half-close by a peer that has stopped reading, then a transport thread whose FIRST action is a write (the
        # banner): it legitimately blocks in send() towards a peer that is still there and never gets to read the
        # EOF - not a lost connection (see module docstring, "tx"). In call-first order the banner is out and the
        # thread sits in a read.
        return False
    if pre != "none":
        if not sp.chan:
            return False
        if moment == "call-first" and (call.split("@")[0], pre) in PRE_NOT_BLOCKING:
            return False
    if via == "proxy" and sp.role != "client":
        return False
    if loss in PROXY_LOSSES and via != "proxy":
        return False
    if sp.kind == "start" and loss == "local-close" and moment != "call-first":
        # close() on a transport that was not started yet is documented to do nothing: not a loss
        return False
    return True


# ----------------------------------------------------------------------------- known-finding families
# A known open finding that would make every case of a sub-domain cost 3 x BOUND is excluded from the bulk
# campaign by construction (ctx.exclude) while a matching entry is open in known_findings.json; its
# committed replay demonstrates it in every run. Once the entry is flipped to "fixed" the sub-domain is
# explored again.


FINDING_FAMILY = {
    # D9: ProxyCommand.recv never reports EOF of its child (fixes/C13-proxycommand-recv-eof.patch)
    "blocked-call-returns|recv:proxy-kill:call-first": "D9",
    "inactive|open_session:proxy-exit:loss-first": "D9",
    # D10a: accept() never looks at the transport state (fixes/C13-accept-after-session-end.patch)
    "later-call-returns|accept-none:peer-close:loss-first": "D10a",
    # D10b: the wake-up block at the end of Transport.run() is skipped after a local close() and wakes a
    # single accept waiter (fixes/C13-session-end-wakes-all-waiters.patch)
    "blocked-call-returns|accept2:peer-close:call-first": "D10b",
    "blocked-call-returns|accept-none:local-close:call-first": "D10b",
    "blocked-call-returns|auth_password_event:local-close:call-first": "D10b",
    "blocked-call-returns|start_client_event-kex:local-close:call-first": "D10b",
}


def open_families():
    """Families of known findings that are still open (exact keys of known_findings*, see FINDING_FAMILY)."""
    fam = dict(NO_FAMILIES)
    if os.environ.get("C13_ASSUME_FIXED"):
        # for runs against a scratch tree that carries the proposed fixes: explore the excluded sub-domains too
        return fam
    for key, ent in core.load_known(PROPERTY).items():
        if ent.get("status") == "open" and key in FINDING_FAMILY:
            fam[FINDING_FAMILY[key]] = True
    return fam


NO_FAMILIES = {"D9": False, "D10a": False, "D10b": False}
WAKEUP_WAITERS = ("accept-none", "accept2", "auth_password_event", "start_client_event-kex")


def base_call(case):
    return case["call"].split("@")[0]


def exclusion(case, fam):
    """Key under which the case is excluded by construction, or None."""
    call = base_call(case)
    if fam["D9"] and case["via"] == "proxy" and case["loss"] in PROXY_LOSSES + ("peer-close", "link-eof", "link-error"):
        return "D9:proxy-child-eof-not-noticed"
    if fam["D10b"] and case["loss"] == "local-close" and call in WAKEUP_WAITERS:
        return "D10b:waiter-not-woken-after-local-close"
    if fam["D10b"] and call == "accept2":
        return "D10b:single-notify-wakes-one-of-two-accepts"
    if fam["D10a"] and call in ("accept-none", "accept2") and case["moment"] != "call-first":
        return "D10a:accept(None)-issued-after-the-end"
    return None


def skip_reissue(case, fam):
    return fam["D10a"] and base_call(case) in ("accept-none", "accept2")


# ----------------------------------------------------------------------------- ProxyCommand relay

RELAY = r"""
import os, select, socket, sys
mode = sys.argv[2] if len(sys.argv) > 2 else "exit"
s = socket.socket(socket.AF_UNIX, socket.SOCK_STREAM)
s.connect(sys.argv[1])
try:
    while True:
        r, _, _ = select.select([0, s], [], [])
        if 0 in r:
            d = os.read(0, 65536)
            if not d:
                break
            s.sendall(d)
        if s in r:
            d = s.recv(65536)
            if not d:
                break
            while d:
                n = os.write(1, d)
                d = d[n:]
except (OSError, KeyboardInterrupt):
    pass
if mode != "exit":
    # hang up but stay around: the reader of our stdout sees end of file while this process is still running
    try:
        os.close(1)
        if mode == "linger-both":
            os.close(0)
    except OSError:
        pass
    import time
    time.sleep(120)
os._exit(0)
"""

_seq = itertools.count()
_script_lock = threading.Lock()


def relay_script(tmpdir):
    p = os.path.join(tmpdir, "relay.py")
    with _script_lock:
        if not os.path.exists(p):
            with open(p + ".tmp", "w") as f:
                f.write(RELAY)
            os.replace(p + ".tmp", p)
    return p


class Bridge:
    """paramiko.ProxyCommand(child relay) <-> AF_UNIX socket <-> pump threads <-> link.a"""

    def __init__(self, tmpdir, link, mode="exit"):
        import paramiko

        self.link = link
        self.path = os.path.join(tmpdir, "p%d-%d.sock" % (os.getpid(), next(_seq)))
        self.lsock = socket.socket(socket.AF_UNIX, socket.SOCK_STREAM)
        self.lsock.bind(self.path)
        self.lsock.listen(1)
        self.lsock.settimeout(SETUP_T)
        self.conn = None
        self.threads = []
        self.proxy = paramiko.ProxyCommand("%s -I -S %s %s %s" % (sys.executable, relay_script(tmpdir), self.path, mode))
        self.proc = self.proxy.process
        try:
            self.conn, _ = self.lsock.accept()
        except socket.timeout:
            self.close()
            raise Inconclusive("relay child did not connect")
        for fn in (self._up, self._down):
            th = threading.Thread(target=fn, daemon=True, name="c13-pump")
            th.start()
            self.threads.append(th)

    def _up(self):
        try:
            while True:
                d = self.conn.recv(65536)
                if not d:
                    break
                self.link.a.send(d)
        except OSError:
            pass
        finally:
            self.link.a.close()

    def _down(self):
        try:
            while True:
                d = self.link.a.recv(65536)
                if not d:
                    break
                self.conn.sendall(d)
        except OSError:
            pass
        finally:
            self.drop_conn()

    def drop_conn(self):
        try:
            self.conn.shutdown(socket.SHUT_RDWR)
        except OSError:
            pass

    def kill_child(self):
        try:
            os.kill(self.proc.pid, signal.SIGKILL)
        except ProcessLookupError:
            pass

    def close(self):
        """Reap the child, close every descriptor. Call after the transports were closed and joined."""
        self.proxy.close = lambda: None  # the pid is about to be reaped: never signal it again
        if self.proc.returncode is None:
            try:
                self.proc.kill()
            except OSError:
                pass
            try:
                self.proc.wait(30)
            except Exception:
                pass
        for f in (self.proc.stdin, self.proc.stdout, self.proc.stderr):
            try:
                f.close()
            except Exception:
                pass
        if self.conn is not None:
            self.drop_conn()
            self.conn.close()
        self.lsock.close()
        try:
            os.unlink(self.path)
        except OSError:
            pass
        for th in self.threads:
            th.join(5)


# ----------------------------------------------------------------------------- one session


def stack_of(th):
    """[(file basename, lineno, function)] innermost first, or [] if the thread is gone."""
    f = sys._current_frames().get(th.ident) if th.is_alive() else None  # idents are reused after a thread ends
    out = []
    while f is not None:
        out.append((os.path.basename(f.f_code.co_filename), f.f_lineno, f.f_code.co_name))
        f = f.f_back
    return out


def fmt_stack(th, limit=9):
    return " <- ".join("%s:%d:%s" % fr for fr in stack_of(th)[:limit]) or "(thread ended)"


class Env:
    def __init__(self, case, tmpdir):
        self.case = case
        self.spec = CALLS[case["call"]]
        self.tmpdir = tmpdir
        self.link = None
        self.bridge = None
        self.tested = self.peer = self.chan = None
        self.events = []
        self.stage_done = False
        self.rekey_started = None  # "local" | "peer" once a key re-exchange is in flight
        self.threads = []
        self.bystanders = []  # tested calls blocked as part of the state (renegotiate_keys of a local re-exchange)
        self.aux = []  # harness threads (the peer's renegotiate_keys)

    # -- construction
    def build(self):
        import paramiko

        sp = self.spec
        link = self.link = net.Link()
        csock = link.a
        if self.case["via"] == "proxy":
            mode = "exit"
            if self.case["loss"] == "proxy-stdout-eof":
                mode = "linger-both" if self.case["flavor"] // 2 % 2 == 1 else "linger"
            self.bridge = Bridge(self.tmpdir, link, mode)
            csock = self.bridge.proxy
        if sp.role == "client":
            tc = (peers.VServiceTransport if sp.service else peers.VTransport)(csock)
            ts = peers.Puppet(link.b, default_window_size=32768)
            self.tested, self.peer = tc, ts
            self.rx, self.tx = link.ba, link.ab
        else:
            tc = peers.Puppet(csock)
            ts = peers.VTransport(link.b)
            self.tested, self.peer = ts, tc
            self.rx, self.tx = link.ab, link.ba
        self.tc, self.ts = tc, ts
        ts.add_server_key(peers.keypool()["ed25519"])
        for t in (tc, ts):
            t.banner_timeout = 60
            t.handshake_timeout = 60
        if sp.kind == "start":
            self.rx.set_hold(True)
            ts.start_server(event=threading.Event(), server=peers.OpenServer())
            if not self.rx.wait_pending(1, SETUP_T):
                raise Inconclusive("server banner not seen")
            return
        ce, se = peers.start_both(tc, ts, peers.OpenServer(), timeout=SETUP_T)
        if ce or se:
            raise Inconclusive("handshake failed: %r %r" % (ce, se))
        try:
            if sp.auth:
                tc.auth_password("u", "pw")
            if sp.chan:
                self.chan = tc.open_session(timeout=SETUP_T)
                if sp.fill:
                    self.chan.settimeout(SETUP_T)
                    self.chan.sendall(b"a" * 32768)
            if self.case.get("pre", "none") != "none":
                self.apply_pre()
        except (paramiko.SSHException, socket.timeout, EOFError, OSError) as e:
            raise Inconclusive("session setup failed: %r" % (e,))
        if sp.role == "client" or sp.rekey:
            if sp.mute == "raw":
                self.peer.raw()
            else:
                self.rx.set_hold(True)
        if sp.rekey and not (sp.rekey == "after-call" and self.case["moment"] == "call-first"):
            self.start_rekey()
        if sp.tx_full:
            self.tx.set_full(True)

    def apply_pre(self):
        """Give the channel its history (public API only); the peer is still answering at this point."""
        pre, ch = self.case["pre"], self.chan
        if pre == "shutdown_read":
            ch.shutdown_read()
        elif pre == "shutdown_write":
            ch.shutdown_write()
        elif pre == "shutdown_rdwr":
            ch.shutdown(2)
        elif pre == "combine-stderr":
            ch.set_combine_stderr(True)
        elif pre == "local-close":
            # the application closes the channel; the peer sees EOF + CLOSE but never answers (record-only while they
            # arrive), so the channel stays registered with the transport, waiting for the peer's CLOSE
            was_raw = self.peer.packetizer.raw_mode
            self.peer.raw(True)
            ch.close()
            if not self.peer.wait_log(lambda lg: any(e[1] == 97 for e in lg), SETUP_T):
                raise Inconclusive("local CLOSE not seen by the peer")
            self.peer.raw(was_raw)
        elif pre == "peer-close":
            # the peer closes the channel; the tested side answers with its own CLOSE and forgets the channel
            self.peer.send_raw_seq(peers.m_channel_close(ch.get_id()))
            end = time.monotonic() + SETUP_T
            while not ch.closed:
                if time.monotonic() >= end:
                    raise Inconclusive("peer CLOSE not processed")
                time.sleep(0.005)
            if not self.link.wait_quiescent(SETUP_T):
                raise Inconclusive("link not quiescent after the peer's close")
        elif pre == "peer-eof":
            # EOF for the tested channel, then a global request the tested side has to answer: messages are handled in
            # order, so once the answer is on the wire the EOF has been processed
            n0 = len(self.tx.sent)
            self.peer.send_raw_seq(peers.m_channel_eof(ch.get_id()))
            self.peer.send_raw_seq(peers.m_global_request(b"sync@verif", True))
            if not self.tx.wait_sent(n0 + 1, SETUP_T):
                raise Inconclusive("peer EOF not processed")
        else:
            raise core.HarnessError("unknown pre-state %r" % pre)
        if pre in ("shutdown_write", "shutdown_rdwr") and not self.link.wait_quiescent(SETUP_T):
            raise Inconclusive("link not quiescent after shutdown")

    def start_rekey(self):
        """Put a key re-exchange in flight that cannot finish: the inbound direction is held, so the peer's next
        kex packet never arrives. flavor // 8 % 2: 0 = the tested side starts it (renegotiate_keys() in a thread -
        a blocked tested call of its own), 1 = the peer starts it (its KEXINIT is let through, the tested side
        answers, the peer's kex reply / kex init is held)."""
        by_peer = self.case["flavor"] // 8 % 2 == 1
        if self.rx.n_pending():
            raise Inconclusive("unexpected traffic from the peer before the re-exchange")
        n_sent = len(self.tx.sent)
        if by_peer:
            self.aux.append(run_thread(self.peer.renegotiate_keys, "c13-peer-rekey"))
            if not self.rx.wait_pending(1, SETUP_T):
                raise Inconclusive("peer KEXINIT not seen")
            self.rx.release(1)
        else:
            self.bystanders.append(self.start_caller(fn=c_renegotiate))
        end = time.monotonic() + SETUP_T
        while not (len(self.tx.sent) > n_sent and self.rx.n_pending() >= 1):
            if time.monotonic() >= end or not self.tested.is_active():
                raise Inconclusive("re-exchange not in flight")
            time.sleep(0.005)
        self.rekey_started = "peer" if by_peer else "local"

    def advance_stage(self, callers):
        """start_client-kex: let banner + KEXINIT through, then wait for the (held) kex reply.
        rekey="after-call": once the call sits in its wait, start the re-exchange."""
        if self.spec.rekey == "after-call":
            end = time.monotonic() + SETUP_T
            ok = 0
            while ok < 2:
                if time.monotonic() >= end or any(th.rec["t_end"] is not None for th in callers):
                    raise Inconclusive("call not blocked before the re-exchange")
                ok = ok + 1 if all(self.inside(th) for th in callers) else 0
                time.sleep(0.01)
            self.start_rekey()
            return
        if not self.case["call"].endswith("-kex"):
            return
        if not self.rx.wait_pending(2, SETUP_T):
            raise Inconclusive("server KEXINIT not seen")
        self.rx.release(2)
        if not self.rx.wait_pending(1, SETUP_T):
            raise Inconclusive("server kex reply not seen")
        self.stage_done = True

    # -- the call
    def start_caller(self, barrier=None, delay=0.0, fn=None):
        rec = {"outcome": None, "t_start": None, "t_end": None}
        fn = fn or self.spec.fn

        def body():
            if barrier is not None:
                barrier.wait()
            if delay:
                time.sleep(delay)
            rec["t_start"] = time.monotonic()
            try:
                v = fn(self, self.case["timeout"])
                rec["outcome"] = "ret:" + type(v).__name__
            except BaseException as e:
                rec["outcome"] = "exc:" + type(e).__name__
            rec["t_end"] = time.monotonic()

        th = threading.Thread(target=body, daemon=True, name="c13-caller")
        th.rec = rec
        th.start()
        self.threads.append(th)
        return th

    def inside(self, th):
        want = self.spec.expect
        return any((fr[0], fr[2]) == want for fr in stack_of(th))

    def wait_blocked(self, callers, timeout=SETUP_T):
        """True when every caller was seen twice inside the expected wait and the request reached the peer."""
        end = time.monotonic() + timeout
        ok = 0
        while time.monotonic() < end:
            if any(th.rec["t_end"] is not None for th in callers):
                return False
            if all(self.inside(th) for th in callers) and (self.spec.ready is None or self.spec.ready(self)):
                ok += 1
                if ok >= 2:
                    return True
            else:
                ok = 0
            time.sleep(0.01)
        return False

    # -- the loss
    def lose(self):
        loss, flavor = self.case["loss"], self.case["flavor"]
        held = self.rx.hold
        if self.case.get("tx", "ok") == "full":
            # from now on the peer does not read any more and nothing further fits into the send side
            self.tx.set_full(True)
        if loss == "peer-close":
            self.peer.close()
        elif loss == "link-eof":
            self.rx.set_eof()
        elif loss == "link-error":
            en = ERRNOS[flavor % len(ERRNOS)]
            if self.case.get("tx", "ok") == "full":
                # a connection that died with an error is dead in both directions: a send() waiting on the full
                # direction, and any later one, fails with the error (a kernel socket does not go on timing out)
                self.tx.set_send_error(OSError(en, os.strerror(en)))
            self.rx.set_error(OSError(en, os.strerror(en)))
        elif loss == "local-close":
            self.tested.close()
        elif loss == "disconnect":
            self.peer.send_raw_seq(peers.m_disconnect(2 + flavor % 14, b"verif says bye"))
            if held:
                self.rx.set_hold(False)
        elif loss == "garbage":
            self._garbage(flavor, held)
        elif loss in ("proxy-exit", "proxy-stdout-eof"):
            # the relay's far end goes away: it exits, or (started in a linger mode) closes its stdout and stays
            self.bridge.drop_conn()
        elif loss == "proxy-kill":
            self.bridge.kill_child()
        else:
            raise core.HarnessError("unknown loss %r" % loss)

    def _garbage(self, flavor, held):
        from vlib import refssh as R

        if self.spec.kind == "start":
            if self.stage_done:
                # plaintext phase, client expects KEXDH/ECDH reply: NEWKEYS out of order, or an empty reply
                self.rx.inject(R.plain_packet(bytes([21]) if flavor % 2 == 0 else bytes([31])))
            else:
                self.rx.inject(b"SSH-1.5-ancient\r\n" if flavor % 2 == 0 else b"not ssh at all\r\n" * 100)
            return
        if held:
            # encrypted phase, link held: deliver the peer's pending packet with its last byte (MAC/tag) flipped
            c = self.rx.drop_pending(0)
            if c is not None:
                self.rx.inject(c[:-1] + bytes([c[-1] ^ 0x40]))
                return
            # nothing pending (a racing call has not made the peer talk yet): open the link, use the ordinary flavours
            self.rx.set_hold(False)
        if flavor % 2 == 0:
            done = []

            def corrupt(chunk):
                if not done:
                    done.append(1)
                    return [chunk[:-1] + bytes([chunk[-1] ^ 0x40])]
                return [chunk]

            self.rx.filter = corrupt
            self.peer.send_raw_seq(peers.m_ignore(b"x" * (flavor % 40)))
        else:
            self.peer.send_raw_seq(peers.m_channel_data(0x7FFF00 + flavor, b"for nobody"))

    # -- teardown: nothing may outlive the case
    def cleanup(self):
        """Unblock and end everything this case started, whatever state the tested code is in (a close() that
        hangs must not hang the harness): first cut the primitives the threads sit on, then close politely."""
        leaked = 0
        for ev in self.events:
            ev.set()
        transports = [t for t in (self.tested, self.peer) if t is not None]
        if self.link is not None:
            # first the link itself: a sender that sits on a full direction gets "broken pipe" and lets go of the
            # packetizer's write lock
            self.link.close()
        # (in threads: under a defective tree even Packetizer.close() may block)
        pclosers = [run_thread(t.packetizer.close, "c13-cleanup-pclose") for t in transports]  # closes the socket-like object too; makes stop_thread()'s join loop end
        for th in pclosers:
            th.join(5)
            leaked += th.is_alive()
        closers = [run_thread(t.close, "c13-cleanup-close") for t in transports]
        for th in closers:
            th.join(10)
            leaked += th.is_alive()
        if self.chan is not None:
            try:
                self.chan._unlink()
            except Exception:
                pass
            # (teardown only, never part of a verdict) release waiters a defective close path left behind
            for name in ("status_event", "event"):
                ev = getattr(self.chan, name, None)
                if ev is not None and hasattr(ev, "set"):
                    ev.set()
            for name in ("in_buffer", "in_stderr_buffer"):
                try:
                    getattr(self.chan, name).close()
                except Exception:
                    pass
        for t in transports:
            with t.lock:
                t.server_accept_cv.notify_all()
            tm = getattr(t.packetizer, "_Packetizer__timer", None)
            if tm:
                tm.cancel()
        for th in self.threads + self.aux:
            th.join(5)
            leaked += th.is_alive()
        for t in transports:
            if t.ident is not None:
                t.join(5)
                leaked += t.is_alive()
        if self.bridge is not None:
            self.bridge.close()
        return leaked


def run_thread(fn, name):
    box = {}

    def body():
        try:
            box["v"] = fn()
        except BaseException as e:
            box["e"] = e
        box["t"] = time.monotonic()

    th = threading.Thread(target=body, daemon=True, name=name)
    th.box = box
    th.start()
    return th


def attempt(case, tmpdir, fam):
    """One execution. Returns dict(status=ok|violation|inconclusive, clause, detail, nontrivial, classes, leaked)."""
    env = Env(case, tmpdir)
    res = {"status": "ok", "clause": None, "detail": "", "nontrivial": False, "classes": [], "leaked": 0}

    def fail(clause, detail):
        res["status"] = "violation"
        res["clause"] = clause
        stacks = ["caller[%d] %s: %s" % (i, th.rec["outcome"] or "STUCK", fmt_stack(th)) for i, th in enumerate(env.threads) if th.rec["outcome"] is None]
        tt = env.tested
        stacks.append("tested transport thread alive=%s active=%s exc=%r: %s" % (tt.is_alive(), tt.is_active(), tt.get_exception(), fmt_stack(tt) if tt.ident else "(never started)"))
        res["detail"] = detail + " || " + " || ".join(stacks)
        return res

    def join_all(ths, deadline):
        for th in ths:
            th.join(max(0.0, deadline - time.monotonic()))
        return [th for th in ths if th.is_alive()]

    def wait_inactive(deadline):
        while env.tested.is_active():
            if time.monotonic() >= deadline:
                return False
            time.sleep(0.01)
        return True

    try:
        try:
            env.build()
        except Inconclusive as e:
            res["status"] = "inconclusive"
            res["detail"] = "setup: %s" % e
            return res
        sp = env.spec
        moment = case["moment"]
        n = sp.callers
        callers = []
        if moment == "call-first":
            callers = [env.start_caller() for _ in range(n)]
            try:
                env.advance_stage(callers)
            except Inconclusive as e:
                res["status"] = "inconclusive"
                res["detail"] = "stage: %s" % e
                return res
            if not env.wait_blocked(callers):
                res["status"] = "inconclusive"
                res["detail"] = "call not observed blocked: %s" % [th.rec["outcome"] for th in callers]
                return res
            res["nontrivial"] = True
            res["classes"].append("blocked-at-loss")
            trig = run_thread(env.lose, "c13-loss")
        elif moment == "loss-first":
            trig = run_thread(env.lose, "c13-loss")
        else:
            barrier = threading.Barrier(n + 1)
            skew = case["skew"] / 1000.0
            callers = [env.start_caller(barrier, max(0.0, skew)) for _ in range(n)]
            seen = {}

            def trigger():
                barrier.wait()
                if skew < 0:
                    time.sleep(-skew)
                seen["inside"] = all(env.inside(th) for th in callers)
                env.lose()

            trig = run_thread(trigger, "c13-loss")
        # the loss trigger itself (local close() is a tested call; the others are harness actions)
        trig.join(BOUND + (0.2 if moment == "together" else 0))
        if trig.is_alive():
            if case["loss"] == "local-close":
                return fail("close-returns", "Transport.close() did not return within %gs: %s" % (BOUND, fmt_stack(trig)))
            res["status"] = "inconclusive"
            res["detail"] = "loss trigger stuck: %s" % fmt_stack(trig)
            return res
        if "e" in trig.box:
            e = trig.box["e"]
            if case["loss"] == "local-close":
                res["classes"].append("close-raised:" + type(e).__name__)
            elif moment == "together" and isinstance(e, (OSError, EOFError)):
                pass  # e.g. the puppet could not send its garbage because the link was already gone
            else:
                res["status"] = "inconclusive"
                res["detail"] = "loss trigger failed: %r" % (e,)
                return res
        t_loss = trig.box["t"]
        deadline = t_loss + BOUND
        if env.rekey_started:
            res["classes"].append("rekey-in-flight-by:" + env.rekey_started)

        def bystanders_back():
            # renegotiate_keys() that put the re-exchange in flight is a blocked call like any other
            stuck = join_all(env.bystanders, deadline)
            if stuck:
                fail("blocked-call-returns", "renegotiate_keys() that started the re-exchange still blocked %gs after the loss" % BOUND)
                return False
            for th in env.bystanders:
                res["classes"].append("rekey-starter:" + th.rec["outcome"])
            return True

        if moment == "loss-first":
            if sp.kind != "start":
                if not wait_inactive(deadline):
                    return fail("inactive", "is_active() still True %gs after the loss" % BOUND)
            if not bystanders_back():
                return res
            callers = [env.start_caller() for _ in range(n)]
            res["nontrivial"] = True
            res["classes"].append("issued-after-loss")
            deadline = time.monotonic() + BOUND
            clause = "later-call-returns"
        elif moment == "together":
            res["nontrivial"] = True
            res["classes"].append("together:inside-at-loss" if seen.get("inside") else "together:issued-after")
            clause = "racing-call-returns"
            deadline += 0.2
        else:
            clause = "blocked-call-returns"
        stuck = join_all(callers, deadline)
        if stuck:
            return fail(clause, "%d of %d caller(s) still blocked %gs after the loss" % (len(stuck), len(callers), BOUND))
        for th in callers:
            res["classes"].append("outcome:" + th.rec["outcome"])
        if moment != "loss-first" and not bystanders_back():
            return res
        if not wait_inactive(deadline):
            return fail("inactive", "is_active() still True %gs after the loss" % BOUND)
        if moment != "loss-first" and not skip_reissue(case, fam):
            again = [env.start_caller() for _ in range(n)]
            stuck = join_all(again, time.monotonic() + BOUND)
            if stuck:
                return fail("later-call-returns", "the same call issued after the loss still blocked after %gs" % BOUND)
            for th in again:
                res["classes"].append("again:" + th.rec["outcome"])
        return res
    finally:
        res["leaked"] = env.cleanup()


def decide(case, tmpdir, fam):
    """3 consecutive failing runs (same clause) make a violation; anything less is 'flaky' (inconclusive)."""
    details = []
    first = None
    for i in range(3):
        r = attempt(case, tmpdir, fam)
        if first is None:
            first = r
        if r["status"] != "violation" or r["clause"] != first["clause"]:
            if i > 0:
                r = dict(r)
                r["flaky"] = first["clause"]
            return r
        details.append("run %d: %s" % (i + 1, r["detail"]))
    r = dict(first)
    r["detail"] = " ## ".join(details)
    return r


def bucket_of(case):
    pre = case.get("pre", "none")
    loss = case["loss"] if case["via"] == "link" or case["loss"] in PROXY_LOSSES else "proxy+" + case["loss"]
    if case.get("tx", "ok") != "ok":
        loss += "+tx-" + case["tx"]
    return "%s:%s:%s" % (case["call"] + ("" if pre == "none" else "+" + pre), loss, case["moment"])


def record(ctx, case, r):
    if r["leaked"]:
        ctx.count("leaked-threads", r["leaked"])
    if r.get("flaky"):
        ctx.inconc("timeout-not-reproduced-3x:%s|%s" % (r["flaky"], bucket_of(case)))
    if r["status"] == "inconclusive":
        # key: phase + short reason (text up to the second colon, reprs cut off) + via
        ctx.inconc(":".join(x.strip() for x in r["detail"].split(":")[:2])[:60] + " via=" + case["via"])
        ctx.case(case, False, ["inconclusive"])
        return
    cls = ["call:" + case["call"], "loss:" + case["loss"], "moment:" + case["moment"], "via:" + case["via"], "timeout:%s" % case["timeout"]] + r["classes"]
    if case.get("pre", "none") != "none":
        cls += ["pre:" + case["pre"], "pre:%s:%s" % (base_call(case), case["pre"]), "pre:%s:%s" % (case["pre"], case["moment"])]
    if case.get("tx", "ok") != "ok":
        cls += ["tx:%s-at-loss" % case["tx"], "tx:%s-at-loss:%s" % (case["tx"], case["loss"])]
    if CALLS[case["call"]].tx_full:
        cls += ["tx:full-before-call", "tx:full-before-call:%s" % case["loss"]]
    ctx.case(case, r["nontrivial"], cls)
    if r["status"] == "violation":
        ctx.violation(r["clause"], bucket_of(case), case, r["detail"])


def mk_case(call, loss, moment, timeout, via, flavor=0, skew=0, pre="none", tx="ok"):
    case = {"call": call, "loss": loss, "moment": moment, "timeout": timeout, "via": via, "flavor": flavor, "skew": skew if moment == "together" else 0}
    if pre != "none":
        case["pre"] = pre
    if tx != "ok":
        case["tx"] = tx
    return case


# ----------------------------------------------------------------------------- campaign


class Pool:
    """Runs submitted cases `width` at a time (each case has its own link/transports/child). The hypothesis
    bodies only draw and submit; results are recorded by the main thread after drain()."""

    def __init__(self, ctx, width, fam):
        self.ctx = ctx
        self.tmp = ctx.tmpdir()
        self.fam = fam
        self.cv = threading.Condition()
        self.queue = []
        self.results = []  # [case, result] in submission order
        self.errors = []
        self.closing = False
        self.skipped = 0
        self.threads = [threading.Thread(target=self._work, daemon=True, name="c13-worker") for _ in range(width)]
        for th in self.threads:
            th.start()

    def submit(self, case, prio=0):
        """prio: cases are started in (prio, submission) order; results stay in submission order."""
        with self.cv:
            slot = [case, None]
            self.results.append(slot)
            heapq.heappush(self.queue, (prio, len(self.results), slot))
            self.cv.notify()

    def _work(self):
        while True:
            with self.cv:
                while not self.queue and not self.closing:
                    self.cv.wait()
                if not self.queue:
                    return
                slot = heapq.heappop(self.queue)[2]
                if self.errors or self.ctx.out_of_time():
                    self.skipped += 1
                    continue
            try:
                slot[1] = decide(slot[0], self.tmp, self.fam)
            except BaseException:  # harness bug: surface it from the main thread
                with self.cv:
                    self.errors.append((slot[0], core.fmt_exc()))

    def drain(self):
        with self.cv:
            self.closing = True
            self.cv.notify_all()
        for th in self.threads:
            th.join()
        if self.errors:
            raise core.HarnessError("case %r: %s" % self.errors[0])
        if self.skipped:
            self.ctx.inconc("cases-not-run(budget)", self.skipped)
        return [(c, r) for c, r in self.results if r is not None]


def worklist(ctx):
    """[(call, loss, moment, timeout-or-'draw', via, pre[, tx])] in execution order."""
    items = []
    if ctx.quick:
        rot = 0
        rot_nb = 0
        rot_tx = 0
        nclient = 0
        for call in CALLS:
            for loss in LINK_LOSSES:
                items.append((call, loss, "call-first", "draw", "link", "none"))
            if not CALLS[call].tx_full:
                # the send direction becomes full right before the loss (the loss rotating through those it applies to)
                loss = TX_FULL_LOSSES[rot_tx % len(TX_FULL_LOSSES)]
                if applicable(call, loss, "call-first", CALLS[call].timeouts[0], "link", "none", "full"):
                    items.append((call, loss, "call-first", "draw", "link", "none", "full"))
                    rot_tx += 1
            if CALLS[call].role == "client":
                # over a real ProxyCommand child: the child goes away (exits / is SIGKILLed, alternating per call), the
                # child's stdout reaches EOF while it lingers, plus one loss that reaches the transport some other way
                nclient += 1
                for loss in (PROXY_LOSSES[nclient % 2], "proxy-stdout-eof", ("local-close", "garbage", "disconnect")[len(items) % 3]):
                    items.append((call, loss, "call-first", "draw", "proxy", "none"))
            if CALLS[call].chan:
                # every channel pre-state once per call, the loss rotating through the link losses
                # (in loss-first order where that history makes the call non-blocking by contract)
                for pre in PRE_STATES[1:]:
                    if applicable(call, LINK_LOSSES[0], "call-first", None, "link", pre):
                        items.append((call, LINK_LOSSES[rot % len(LINK_LOSSES)], "call-first", "draw", "link", pre))
                        rot += 1
                    elif applicable(call, LINK_LOSSES[0], "loss-first", None, "link", pre):
                        items.append((call, LINK_LOSSES[rot_nb % len(LINK_LOSSES)], "loss-first", "draw", "link", pre))
                        rot_nb += 1
    else:
        reps = 3
        full = []
        extra = []
        for call, sp in CALLS.items():
            for via in ("link", "proxy"):
                for loss in LINK_LOSSES + PROXY_LOSSES:
                    for moment in MOMENTS:
                        for t in sp.timeouts:
                            full.append((call, loss, moment, t, via, "none"))
                        if sp.chan:
                            for pre in PRE_STATES[1:]:
                                extra.append((call, loss, moment, sp.timeouts[(len(extra) // (len(PRE_STATES) - 1)) % len(sp.timeouts)], via, pre))
                        if via == "link" and loss in TX_FULL_LOSSES:
                            extra.append((call, loss, moment, sp.timeouts[len(extra) % len(sp.timeouts)], via, "none", "full"))
        full = [x for x in full if applicable(*x)]
        full = full * reps + [x for x in extra if applicable(*x)]
        items = [x for i, x in enumerate(full) if i % ctx.nworkers == ctx.worker]
    # slow-by-design cases first (accept(5) waits out its 5 s when nothing wakes it)
    items.sort(key=lambda x: 0 if x[0] == "accept-5" else 1)
    return items


def run(ctx):
    ctx.set_budget(75, 840)
    fam = open_families()
    ctx.note("open_finding_families", sorted(k for k, v in fam.items() if v))
    ctx.assume("a hang is reported only after 3 consecutive runs of the case exceed the 10 s bound (100x paramiko's 0.1 s poll)")
    peers.keypool()  # load once, before the case threads start
    pool = Pool(ctx, 8 if ctx.quick else 4, fam)
    items = worklist(ctx)
    total = len(items)
    state = {"done": 0}

    draw = st.tuples(st.booleans(), st.integers(0, 63), st.integers(-100, 100))
    nth = {}

    def submit(chosen):
        for item, (use_t, flavor, skew) in chosen:
            call, loss, moment, t, via, pre = item[:6]
            tx = item[6] if len(item) > 6 else "ok"
            if t == "draw":
                ts_ = CALLS[call].timeouts
                t = ts_[-1] if use_t else ts_[0]
            if pre != "none" and not applicable(call, loss, moment, t, via, pre):
                pre = "none"  # drawn pre-state does not apply to this call / moment
            if tx != "ok" and not applicable(call, loss, moment, t, via, pre, tx):
                tx = "ok"  # drawn send-side state does not apply to this loss / via
            if not applicable(call, loss, moment, t, via, pre, tx):
                continue
            case = mk_case(call, loss, moment, t, via, flavor, skew, pre, tx)
            key = exclusion(case, fam)
            if key:
                ctx.exclude(key)
                continue
            # quick: start the k-th case of every call before the (k+1)-th of any (the hypothesis bodies only submit, so
            # the whole worklist is queued within milliseconds): when a defect makes cases slow (3 x BOUND each) and the
            # budget cuts the run short, every call has still had its first losses instead of the late calls having none
            k = nth[call] = nth.get(call, -1) + 1
            pool.submit(case, (0 if call.startswith("accept-5") else 1, k) if ctx.quick else 0)

    # hypothesis always starts with the all-minimal example: it is skipped (the bodies only submit work, so
    # that costs nothing), otherwise a whole chunk would carry identical drawn parameters
    def skipping_first(body):
        seen = []

        def wrapped(x):
            if not seen:
                seen.append(1)
                return
            body(x)

        return wrapped

    def enum_body(params):
        chosen = []
        while items and len(chosen) < len(params):
            chosen.append((items.pop(0), params[len(chosen)]))
        state["done"] += len(chosen)
        submit(chosen)

    per = 24
    ctx.explore(st.lists(draw, min_size=per, max_size=per), skipping_first(enum_body), (total + per - 1) // per + 1, shrink=False)
    if items:
        ctx.inconc("worklist-not-finished(budget)", len(items))
    ctx.note("enumerated_work_items", state["done"])

    # drawn cases over the whole product (the other two moments in quick; extra variation in thorough)
    calls = sorted(CALLS)
    rnd = st.tuples(
        st.sampled_from(calls),
        st.sampled_from(LINK_LOSSES + PROXY_LOSSES),
        st.sampled_from(MOMENTS[1:] if ctx.quick else MOMENTS),
        st.sampled_from(("link", "link", "proxy")),
        draw,
        st.sampled_from(("none",) * 3 + PRE_STATES[1:]),
        st.sampled_from(("ok", "ok", "full")),
    )

    def rnd_body(lst):
        chosen = []
        for call, loss, moment, via, d, pre, tx in lst:
            if loss in PROXY_LOSSES:
                via = "proxy"
            chosen.append(((call, loss, moment, "draw", via, pre, tx), d))
        submit(chosen)

    ctx.explore(st.lists(rnd, min_size=per, max_size=per), skipping_first(rnd_body), ctx.scale(2, 6) + 1, shrink=False, seed_offset=1)

    for case, r in pool.drain():
        record(ctx, case, r)

    # demonstrations registered by the replay tier (quick only, see replay())
    while _deferred:
        case, th = _deferred.pop(0)
        _collect(ctx, case, th)


# ----------------------------------------------------------------------------- replay tier
# Every committed replay of an open finding costs 3 x BOUND by definition. All committed replays are started
# at once the first time replay() is called. In the quick tier (one process: replay tier, then run() on the
# same ctx) replay() only registers the case and run() records the results at its end, so that the
# demonstrations overlap with the bulk campaign; in thorough and for `--replay <file>` replay() is synchronous.

_prefetch = {}
_deferred = []


def _norm(case):
    return mk_case(case["call"], case["loss"], case["moment"], case["timeout"], case["via"], case.get("flavor", 0), case.get("skew", 0), case.get("pre", "none"), case.get("tx", "ok"))


def _collect(ctx, case, th):
    th.join()
    if "e" in th.box:
        raise th.box["e"]
    record(ctx, case, th.box["v"])


def replay(ctx, case):
    import json

    # a replay is never excluded; only the re-issue step of the accept cases follows the state of D10a (accept()
    # after the end), which has its own replay - otherwise a tree with D10b repaired but D10a open would report
    # D10a under the buckets of the D10b demonstrations
    fam = dict(NO_FAMILIES)
    fam["D10a"] = open_families()["D10a"]
    tmp = ctx.tmpdir()
    peers.keypool()
    case = _norm(case)
    single = "--replay" in sys.argv
    if not _prefetch and ctx.replaying and not single:
        for path in core.committed_replays(PROPERTY):
            with open(path) as f:
                c = _norm(core._dec(json.load(f)["case"]))
            h = core.case_hash(c)
            if h not in _prefetch:
                _prefetch[h] = run_thread(lambda c=c: decide(c, tmp, fam), "c13-replay")
    th = _prefetch.get(core.case_hash(case))
    if th is None:
        record(ctx, case, decide(case, tmp, fam))
    elif ctx.quick and ctx.replaying and not single:
        _deferred.append((case, th))
    else:
        _collect(ctx, case, th)
