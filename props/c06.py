"""C06 - key exchange agrees on a secret and authenticates the server's host key.

Sessions: two real Transport threads (vlib.peers) on an in-memory link, one kex method and one
host-key algorithm forced through disabled_algorithms; group-exchange with a harness moduli pack.

honest cases (kex x host key algorithm x 0..3 rekeys started by either side):
  * K and H recorded at `_set_K_H` are equal on both peers for every exchange;
  * both directions of the recorded byte stream are decoded by `peers.Tap` (refssh, keys derived
    from the recorded K/H) -- this yields the kex messages of the initial *and* the re-exchanges;
    from them the exchange hash is recomputed per RFC 4253 8 / RFC 4419 3 / RFC 5656 4 with refssh
    + hashlib and must equal the recorded H (catches a hash both peers build wrongly the same way);
  * the signature blob taken from the wire verifies over H under the host key blob taken from the
    wire with `cryptography` directly (not paramiko's verifier), names the negotiated algorithm,
    and `get_remote_server_key()` is that key;
  * session_id on both sides equals the first H after every re-exchange, while the H values differ.
fault cases (PlainMitm edits the server's plaintext reply of the initial exchange):
  one bit flipped in K_S / signature blob / Q_S, f or Q_S replaced by another valid public value,
  algorithm name inside the signature replaced, K_S replaced by another valid key of the same type,
  the reply of an earlier handshake replayed, gex group p or g altered.
  Oracle: start_client raises, the client never sets initial_kex_done and never sends NEWKEYS.
"""
from hypothesis import strategies as st

from vlib import mitm, peers
from vlib import refssh as R

PROPERTY = "C06"
LEVEL = "exploration"
RULE = (
    "kex method (10) x host key algorithm (7) forced via disabled_algorithms; honest sessions with 0..3 re-exchanges "
    "(initiator drawn per rekey); fault sessions = one edit of the server's reply (bit flip at a drawn position of K_S / "
    "signature / Q_S, substituted f / Q_S / signature algorithm name / host key / gex p,g, replayed earlier reply). quick "
    "enumerates every kex and every host key algorithm at least twice on the honest path and every kex for the fault path, "
    "the rest is hypothesis-drawn. non-trivial = fault session, or honest session with >= 1 re-exchange; distinct by full case"
)

KEXES = list(mitm.ALL_KEX)
CHEAP = ["curve25519-sha256@libssh.org", "ecdh-sha2-nistp256", "diffie-hellman-group1-sha1", "diffie-hellman-group-exchange-sha256"]
HOSTALG = {
    "ssh-rsa": "rsa2048",
    "rsa-sha2-256": "rsa2048",
    "rsa-sha2-512": "rsa2048b",
    "ecdsa-sha2-nistp256": "ecdsa256",
    "ecdsa-sha2-nistp384": "ecdsa384",
    "ecdsa-sha2-nistp521": "ecdsa521",
    "ssh-ed25519": "ed25519",
}
OTHERKEY = {"rsa2048": "rsa1024", "rsa2048b": "rsa2048", "ecdsa256": "ecdsa256b", "ed25519": "ed25519b"}  # same type, different key
ALLKEYALGS = list(HOSTALG)
SIGNAMES = ["ssh-rsa", "rsa-sha2-256", "rsa-sha2-512", "ecdsa-sha2-nistp256", "ecdsa-sha2-nistp384", "ecdsa-sha2-nistp521", "ssh-ed25519", "ssh-dss", ""]
CURVES = {"ecdh-sha2-nistp256": "secp256r1", "ecdh-sha2-nistp384": "secp384r1", "ecdh-sha2-nistp521": "secp521r1"}


def _pair(kex, hostalg, link=None, client_cls=peers.VTransport, server_cls=peers.VTransport):
    ckw = {"disabled_algorithms": {"kex": mitm.only(KEXES, kex), "keys": mitm.only(ALLKEYALGS, hostalg)}}
    return peers.make_pair(client_cls=client_cls, server_cls=server_cls, client_kw=ckw, host_keys=(HOSTALG[hostalg],), link=link)


def _pack(kex):
    if mitm.kex_family(kex) == "gex":
        return mitm.modulus_pack([(2, mitm.group_prime(1024))])
    return mitm.modulus_pack([])


# ----------------------------------------------------------------------------- honest sessions


def run_honest(ctx, case):
    kex, hostalg, rekeys = case["kex"], case["hostalg"], list(case["rekeys"])
    cls = ["honest", "kex:" + kex, "hostalg:" + hostalg, "rekeys:%d" % len(rekeys)]
    ctx.case(case, len(rekeys) >= 1, cls)
    bucket = "%s/%s" % (mitm.kex_family(kex), hostalg)
    with _pack(kex):
        link, tc, ts = _pair(kex, hostalg)
        try:
            ce, se = peers.start_both(tc, ts, timeout=60.0)
            if ce or se:
                ctx.violation("honest-handshake-completes", "%s:%s" % (bucket, type(ce or se).__name__), case, "client=%r server=%r" % (ce, se))
                return False
            sids = [(tc.session_id, ts.session_id)]
            tc.auth_password("u", "pw")
            for k, who in enumerate(rekeys):
                t = tc if who == "c" else ts
                try:
                    t.renegotiate_keys()
                    if not mitm.wait_exchanges(2 + k, tc, ts):
                        raise EOFError("re-exchange %d did not complete on both sides" % (k + 1))
                    # a round trip makes sure the other side switched too and gives the Tap
                    # a packet after NEWKEYS in both directions
                    tc.global_request("verif-c06@verif", wait=True)
                except Exception as e:
                    ctx.violation("rekey-completes", "%s:%s" % (bucket, type(e).__name__), case, repr(e))
                    return False
                sids.append((tc.session_id, ts.session_id))
            n = 1 + len(rekeys)
            ckh, skh = list(tc.v_kh), list(ts.v_kh)
            if len(ckh) != n or len(skh) != n:
                ctx.violation("same-K-H", "%s:exchange-count" % bucket, case, "client %d server %d expected %d" % (len(ckh), len(skh), n))
                return False
            for i in range(n):
                if ckh[i][0] != skh[i][0]:
                    ctx.violation("same-K-H", "%s:K-differs" % bucket, case, "exchange %d" % i)
                    return False
                if ckh[i][1] != skh[i][1]:
                    ctx.violation("same-K-H", "%s:H-differs" % bucket, case, "exchange %d" % i)
                    return False
            H0 = ckh[0][1]
            for i, (a, b) in enumerate(sids):
                if a != H0 or b != H0:
                    ctx.violation("session-id-fixed", "%s:changed-after-exchange" % ("client" if a != H0 else "server"), case, "after exchange %d: session_id %s first H %s" % (i, (a if a != H0 else b).hex(), H0.hex()))
                    return False
            if len(set(h for _, h in ckh)) != n:
                ctx.violation("session-id-fixed", "H-repeats-on-rekey", case, "")
                return False
            shown = tc.get_remote_server_key().asbytes()
            c_chunks, s_chunks = list(link.ab.sent), list(link.ba.sent)
            c_epochs, s_epochs = list(tc.v_out), list(ts.v_out)
        finally:
            peers.shutdown(tc, ts)
            mitm.cancel_timers(tc, ts)
    # ---- external observation of the wire
    try:
        cp = peers.Tap(c_chunks, c_epochs, True).packets()
        sp = peers.Tap(s_chunks, s_epochs, False).packets()
    except R.RefError as e:
        ctx.violation("wire-decodes-with-recorded-keys", "%s:%s" % (bucket, str(e)[:24]), case, repr(e))
        return False
    cex = mitm.split_exchanges([(p[2], p[3]) for p in cp])
    sex = mitm.split_exchanges([(p[2], p[3]) for p in sp])
    if len(cex) != n or len(sex) != n:
        ctx.violation("wire-decodes-with-recorded-keys", "%s:exchange-count-on-wire" % bucket, case, "c2s %d s2c %d expected %d" % (len(cex), len(sex), n))
        return False
    v_c, v_s = c_chunks[0].rstrip(b"\r\n"), s_chunks[0].rstrip(b"\r\n")
    want_key = peers.keypool()[HOSTALG[hostalg]].asbytes()
    for i in range(n):
        try:
            facts = mitm.exchange_facts(kex, cex[i], sex[i])
        except R.RefError as e:
            ctx.violation("reply-well-formed", "%s:%s" % (bucket, str(e)[:30]), case, "exchange %d: %r" % (i, e))
            return False
        K, H = ckh[i]
        ref = mitm.exchange_hash(kex, v_c, v_s, cex[i]["kexinit"], sex[i]["kexinit"], facts["k_s"], facts["mid"], K)
        if ref != H:
            ctx.violation("exchange-hash-is-rfc", "%s" % mitm.kex_family(kex) + ":" + kex, case, "exchange %d: recorded H %s, RFC hash of the wire data %s" % (i, H.hex(), ref.hex()))
            return False
        ok, ktype, salg = mitm.verify_blob_signature(facts["k_s"], facts["sig"], H)
        if not ok:
            ctx.violation("signature-verifies-externally", "%s" % bucket, case, "exchange %d: key type %s signature algorithm %r does not verify over H" % (i, ktype, salg))
            return False
        if salg != hostalg:
            ctx.violation("signature-verifies-externally", "%s:algorithm-%s-instead-of-negotiated" % (bucket, salg), case, "exchange %d" % i)
            return False
        if facts["k_s"] != want_key or (i == 0 and shown != facts["k_s"]):
            ctx.violation("host-key-shown", "%s:differs" % bucket, case, "exchange %d" % i)
            return False
    return True


# ----------------------------------------------------------------------------- fault sessions


def _flip(b, pos):
    if not b:
        return b + b"\x01"
    pos %= len(b) * 8
    bb = bytearray(b)
    bb[pos // 8] ^= 1 << (pos % 8)
    return bytes(bb)


def _flip_sig(sig, part, n, state):
    """Flip one bit of the signature blob `string algorithm || string blob`. `part` selects the
    region by structure (the blob length varies from signature to signature, a raw offset would not
    replay): name-len / name / blob-len / blob; None = raw offset into the whole field."""
    if part is None:
        return _flip(sig, n)
    rd = R.Reader(sig)
    name = rd.string()
    rest = rd.rest()
    regions = {"name-len": (0, 4), "name": (4, len(name)), "blob-len": (4 + len(name), 4), "blob": (8 + len(name), max(0, len(rest) - 4))}
    regions["ecdsa-s-len"] = regions["blob"]
    off, ln = regions[part]
    if ln == 0 or off + ln > len(sig):
        return _flip(sig, n)
    new = sig[:off] + _flip(sig[off : off + ln], n) + sig[off + ln :]
    if part == "blob-len":
        state["blob_len_increased"] = int.from_bytes(new[off : off + 4], "big") > int.from_bytes(sig[off : off + 4], "big")
    if part in ("blob", "ecdsa-s-len") and name.startswith(b"ecdsa-"):
        # inner structure of an ECDSA blob: mpint r, mpint s
        blob = rest[4:]
        r_len = int.from_bytes(blob[:4], "big")
        s_off = off + 4 + r_len
        if part == "ecdsa-s-len":
            new = sig[:s_off] + _flip(sig[s_off : s_off + 4], n) + sig[s_off + 4 :]
        if new[s_off : s_off + 4] != sig[s_off : s_off + 4]:
            state["ecdsa_s_len_increased"] = int.from_bytes(new[s_off : s_off + 4], "big") > int.from_bytes(sig[s_off : s_off + 4], "big")
    return new


def _other_public(kex, seed):
    """Another valid public value for an EC kex, derived from `seed` (bytes)."""
    from cryptography.hazmat.primitives import serialization
    from cryptography.hazmat.primitives.asymmetric import ec, x25519

    if kex in CURVES:
        curve = {"secp256r1": ec.SECP256R1, "secp384r1": ec.SECP384R1, "secp521r1": ec.SECP521R1}[CURVES[kex]]()
        scalar = int.from_bytes(seed, "big") % (2**200) + 2
        pk = ec.derive_private_key(scalar, curve).public_key()
        return pk.public_bytes(serialization.Encoding.X962, serialization.PublicFormat.UncompressedPoint)
    priv = x25519.X25519PrivateKey.from_private_bytes((seed * 32)[:32])
    return priv.public_key().public_bytes(serialization.Encoding.Raw, serialization.PublicFormat.Raw)


def _edit_reply(kex, hostalg, fault, payload, state):
    """Returns the edited reply payload (or None = leave alone)."""
    fam = mitm.kex_family(kex)
    kind = fault["kind"]
    reply_type = 33 if fam == "gex" else 31
    if kind == "gexgroup":
        if fam != "gex" or payload[0] != 31 or state.get("group_done"):
            return None
        state["group_done"] = True
        _, p, g = mitm.unpack(payload, "mm")
        if fault["field"] == "p":
            p = p + 2 * (1 + fault["n"] % 1000)  # stays positive, odd and of the same size
        else:
            g = g + 1 + fault["n"] % 5
        return mitm.pack(31, "mm", [p, g])
    if payload[0] != reply_type or (fam == "gex" and not state.get("group_seen")):
        if fam == "gex" and payload[0] == 31:
            state["group_seen"] = True
        return None
    fmt = mitm.FORMATS[(fam, reply_type)]
    vals = mitm.unpack(payload, fmt)[1:]
    k_s, mid, sig = vals
    if kind == "flip":
        field = fault["field"]
        if field == "k_s":
            k_s = _flip(k_s, fault["n"])
        elif field == "sig":
            sig = _flip_sig(sig, fault.get("part"), fault["n"], state)
        else:  # public value
            if fmt[1] == "m":
                klen = (mid.bit_length() + 7) // 8
                mid = int.from_bytes(_flip(mid.to_bytes(klen, "big"), fault["n"]), "big")
            else:
                mid = _flip(mid, fault["n"])
    elif kind == "pub":
        if fmt[1] == "m":
            p = state["p"]
            new = 2 + fault["n"] % (p - 3)
            mid = new if new != mid else new + 1
        else:
            new = _other_public(kex, fault["seed"])
            mid = new if new != mid else _other_public(kex, fault["seed"] + b"x")
    elif kind == "sigalg":
        rd = R.Reader(sig)
        old = rd.string()
        rest = rd.rest()
        new = fault["name"].encode()
        if new == old:
            return None
        sig = R.string(new) + rest
    elif kind == "swapkey":
        k_s = state["otherkey"]
    elif kind == "replay":
        return state["old_reply"]
    return mitm.pack(reply_type, fmt, [k_s, mid, sig])


def _capture_reply(kex, hostalg):
    """An honest handshake with the same configuration; returns its reply payload."""
    fam = mitm.kex_family(kex)
    reply_type = 33 if fam == "gex" else 31
    with _pack(kex):
        link, tc, ts = _pair(kex, hostalg)
        m = mitm.PlainMitm(link)
        try:
            ce, se = peers.start_both(tc, ts, timeout=60.0)
        finally:
            peers.shutdown(tc, ts)
            mitm.cancel_timers(tc, ts)
    if ce or se:
        return None
    got = [p for p in m.seen["s2c"] if p[0] == reply_type]
    return got[-1] if got else None


def run_fault(ctx, case):
    kex, hostalg, fault = case["kex"], case["hostalg"], case["fault"]
    fam = mitm.kex_family(kex)
    kind = fault["kind"]
    state = {}
    if kind == "gexgroup" and fam != "gex":
        return True
    if kind == "swapkey":
        other = OTHERKEY.get(HOSTALG[hostalg])
        if other is not None:
            state["otherkey"] = peers.keypool()[other].asbytes()
        else:  # no second key of this type in the pool: make one (harness side, cryptography)
            from cryptography.hazmat.primitives import serialization
            from cryptography.hazmat.primitives.asymmetric import ec

            cname = hostalg.rsplit("-", 1)[1]
            curve = {"nistp384": ec.SECP384R1, "nistp521": ec.SECP521R1}[cname]()
            pt = ec.derive_private_key(0xC06C06, curve).public_key().public_bytes(serialization.Encoding.X962, serialization.PublicFormat.UncompressedPoint)
            state["otherkey"] = R.string(hostalg) + R.string(cname) + R.string(pt)
    if kind == "pub" and fam == "dh":
        state["p"] = mitm.fixed_group_prime(kex)
    if kind == "pub" and fam == "gex":
        state["p"] = mitm.group_prime(1024)
    if kind == "replay":
        old = _capture_reply(kex, hostalg)
        if old is None:
            ctx.inconc("fault:replay-capture-failed")
            return True
        state["old_reply"] = old
    edited = []

    def cb(d, i, payload):
        if d != "s2c" or edited:
            return None
        new = _edit_reply(kex, hostalg, fault, payload, state)
        if new is None or new == payload:
            return None
        edited.append((payload, new))
        return [new]

    with _pack(kex):
        link, tc, ts = _pair(kex, hostalg)
        m = mitm.PlainMitm(link, on_packet=cb)
        try:
            ce, se = peers.start_both(tc, ts, timeout=60.0)
            done = tc.initial_kex_done
            active = tc.is_active()
        finally:
            peers.shutdown(tc, ts)
            mitm.cancel_timers(tc, ts)
    if m.errors:
        raise RuntimeError("PlainMitm could not parse the handshake: %r" % (m.errors,))
    if not edited:
        ctx.case(case, False, ["fault:not-applied"])
        return True
    ctx.case(case, True, ["fault", "fault:" + kind + (":" + fault["field"] if "field" in fault else "") + ("/" + fault["part"] if fault.get("part") else ""), "fkex:" + kex, "fhostalg:" + hostalg])
    ktype = HOSTALG[hostalg].rstrip("b").rstrip("0123456789") if not hostalg.endswith("25519") else "ed25519"
    bucket = "%s:%s/%s" % (kind + (":" + fault["field"] if "field" in fault else ""), fam, ktype)
    if state.get("blob_len_increased"):
        # one root cause whatever the kex: the length prefix of the inner signature string was made
        # larger than the data that follows (see known_findings.d/C06.json)
        bucket = "flip:sig:blob-length-increased/%s" % ktype
    if state.get("ecdsa_s_len_increased"):
        bucket = "flip:sig:ecdsa-s-length-increased"  # same leniency one level deeper (ECDSAKey._sigdecode)
    sent_newkeys = 21 in m.types("c2s")
    if ce is None and not done and not sent_newkeys:
        # start_client returns normally when its timeout expires: the client was still busy
        # (e.g. Message.get_mpint on a length prefix just below 2**20 zero-pads to 1 MiB and
        # util.inflate_long needs about a minute for that) - not an acceptance
        ctx.inconc("fault:client-still-busy-at-timeout")
        return True
    if done or sent_newkeys:
        what = "accepted" if ce is None else ("initial_kex_done" if done else "sent-NEWKEYS")
        ctx.violation("altered-reply-aborts", "%s:%s" % (bucket, what), case, "start_client raised %r, initial_kex_done=%s, active=%s, client sent types %r" % (ce, done, active, m.types("c2s")))
        return False
    return True


# ----------------------------------------------------------------------------- generators / drivers


def fault_st(kex_st):
    n = st.integers(0, 2**40)
    flip = st.one_of(
        st.fixed_dictionaries({"kind": st.just("flip"), "field": st.sampled_from(["k_s", "pub"]), "n": n}),
        st.fixed_dictionaries({"kind": st.just("flip"), "field": st.just("sig"), "part": st.sampled_from(["name-len", "name", "blob-len", "ecdsa-s-len", "blob", "blob", "blob"]), "n": n}),
    )
    pub = st.fixed_dictionaries({"kind": st.just("pub"), "n": st.integers(0, 2**1000), "seed": st.binary(min_size=8, max_size=16)})
    sigalg = st.fixed_dictionaries({"kind": st.just("sigalg"), "name": st.sampled_from(SIGNAMES)})
    swap = st.just({"kind": "swapkey"})
    rep = st.just({"kind": "replay"})
    gg = st.fixed_dictionaries({"kind": st.just("gexgroup"), "field": st.sampled_from(["p", "g"]), "n": st.integers(0, 10**6)})
    return st.fixed_dictionaries(
        {"kind": st.just("fault"), "kex": kex_st, "hostalg": st.sampled_from(ALLKEYALGS), "fault": st.one_of(flip, flip, flip, pub, sigalg, swap, rep, gg)}
    )


def honest_st(kex_st, max_rekeys=3):
    return st.fixed_dictionaries(
        {"kind": st.just("honest"), "kex": kex_st, "hostalg": st.sampled_from(ALLKEYALGS), "rekeys": st.lists(st.sampled_from(["c", "s"]), min_size=0, max_size=max_rekeys)}
    )


def _dispatch(ctx, case):
    if case["kind"] == "honest":
        return run_honest(ctx, case)
    return run_fault(ctx, case)


def run(ctx):
    ctx.set_budget(85, 840)
    quick = ctx.quick
    # 1. coverage floor: every kex x rotating host key algorithm, honest with one rekey, and one
    #    fault per kex; thorough: full kex x hostalg product sharded over the workers
    combos = []
    if quick:
        for i, kex in enumerate(KEXES):
            combos.append((kex, ALLKEYALGS[i % 7], ["c"] if i % 2 else ["s"]))
            combos.append((kex, ALLKEYALGS[(i + 3) % 7], []))
    else:
        allc = [(k, h) for k in KEXES for h in ALLKEYALGS]
        for j, (k, h) in enumerate(allc):
            if j % ctx.nworkers == ctx.worker:
                combos.append((k, h, ["c", "s"][: 1 + j % 2]))
    for kex, hostalg, rk in combos:
        if ctx.out_of_time():
            break
        run_honest(ctx, {"kind": "honest", "kex": kex, "hostalg": hostalg, "rekeys": rk})
    floor = []
    for i, kex in enumerate(KEXES):
        floor.append({"kind": "fault", "kex": kex, "hostalg": ALLKEYALGS[(2 * i) % 7], "fault": dict({"kind": "flip", "field": ["sig", "k_s", "pub"][i % 3], "n": 7 + 13 * i}, **({"part": "blob"} if i % 3 == 0 else {}))})
    for hostalg in ALLKEYALGS:
        floor.append({"kind": "fault", "kex": CHEAP[0], "hostalg": hostalg, "fault": {"kind": "swapkey"}})
    floor.append({"kind": "fault", "kex": CHEAP[1], "hostalg": "ssh-ed25519", "fault": {"kind": "replay"}})
    floor.append({"kind": "fault", "kex": "diffie-hellman-group-exchange-sha1", "hostalg": "rsa-sha2-256", "fault": {"kind": "gexgroup", "field": "p", "n": 1}})
    for j, c in enumerate(floor):
        if ctx.out_of_time():
            break
        if j % ctx.nworkers == ctx.worker:
            run_fault(ctx, c)
    ctx.note("kex_x_hostalg_honest_floor", len(combos))
    # 2. hypothesis-drawn remainder; quick keeps to the cheap methods, thorough draws from all
    kex_st = st.sampled_from(CHEAP) if quick else st.one_of(st.sampled_from(CHEAP), st.sampled_from(KEXES))
    ctx.explore(fault_st(kex_st), lambda c: _dispatch(ctx, c), ctx.scale(110, 4000), shrink=False, seed_offset=0)
    ctx.explore(honest_st(kex_st, 3), lambda c: _dispatch(ctx, c), ctx.scale(25, 800), shrink=False, seed_offset=1)


def replay(ctx, case):
    _dispatch(ctx, case)
